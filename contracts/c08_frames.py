"""C08 / C07 / C10 -- syntactic frame inference and effect scans over the CURRENT source (no SMT).

These are mechanical-extraction checks (`@custom`), not per-function VCs: they over-approximate what code reachable
from an entry point may write. They are sound in the direction that matters: an unexpected shape (class or method not
found, receiver that cannot be resolved and may be anything) never yields `discharged`.

c08-init-clean     DRYRule / StringlyTypedRule.__init__ assign the clean constants to every evidence field.
c08-check-frames   per registered rule: fields of the rule object, and of helper objects it stores, that check() may write
                   (transitively, through self-method calls and stored-helper method calls); per-call scratch state that
                   the helper's entry method re-initialises first is separated out; what remains must be declared.
c08-module-state   functions reachable from the lint entry points that write module-level variables (`global`).
c08-fs-writes      file-system writers reachable from the lint entry points.
"""
import ast
import os

from pyvc.api import custom

MUTATORS = {"append", "extend", "add", "update", "clear", "setdefault", "pop", "insert", "remove", "discard", "sort", "reverse",
            "popitem", "appendleft", "extendleft", "__setitem__", "__delitem__"}

# ---- declared evidence / caches (everything else a check() writes persistently is a frame violation) ----------------
SHARED_MEMO = {"IgnoreDirectiveParser._ignore_cache"}  # path -> verdict memo of the shared ignore parser (see c08-module-state)
DECLARED = {
    "DRYRule": {"DRYRule._storage", "DRYRule._initialized", "DRYRule._config", "DRYRule._file_analyzer", "DRYRule._project_root",
                "DRYRule._constants", "DRYRule._file_contents", "InlineIgnoreParser._ignore_ranges", "DuplicateStorage.*",
                "DRYCache.*"},
    "StringlyTypedRule": {"StringlyTypedRule._storage", "StringlyTypedRule._initialized", "StringlyTypedRule._config",
                          "StringlyTypedRule._helpers", "StringlyTypedStorage.*"},
    "FilePlacementRule": {"FilePlacementRule._linter_cache"},  # memo keyed by project root (one config per Orchestrator)
}
CROSS_FILE = {"DRYRule", "StringlyTypedRule"}
ABSTRACT = {"BaseLintRule", "MultiLanguageLintRule", "PythonOnlyLintRule"}


class Index:
    """All modules / classes / functions of <repo>/src, with per-module import tables for name resolution."""

    def __init__(self, root):
        self.root = root
        self.mods = {}      # rel -> ast.Module
        self.classes = {}   # (rel, name) -> ClassDef
        self.by_name = {}   # name -> [(rel, name)]
        self.funcs = {}     # (rel, name) -> FunctionDef (module level)
        self.imports = {}   # rel -> {local: (module_rel or None, attr)}
        for dp, _dn, fn in os.walk(os.path.join(root, "src")):
            for f in sorted(fn):
                if not f.endswith(".py"):
                    continue
                p = os.path.join(dp, f)
                rel = os.path.relpath(p, root)
                try:
                    with open(p, encoding="utf-8") as fh:
                        t = ast.parse(fh.read())
                except (SyntaxError, OSError, UnicodeDecodeError):
                    continue
                self.mods[rel] = t
                self.imports[rel] = {}
                for st in ast.walk(t):
                    if isinstance(st, ast.ImportFrom):
                        base = self._module_rel(rel, st.module, st.level)
                        for a in st.names:
                            self.imports[rel][a.asname or a.name] = (base, a.name)
                for st in t.body:
                    if isinstance(st, ast.ClassDef):
                        self.classes[(rel, st.name)] = st
                        self.by_name.setdefault(st.name, []).append((rel, st.name))
                    elif isinstance(st, (ast.FunctionDef, ast.AsyncFunctionDef)):
                        self.funcs[(rel, st.name)] = st

    def _module_rel(self, rel, module, level):
        if level:
            parts = rel.split("/")[:-1]
            parts = parts[:len(parts) - (level - 1)]
            dotted = "/".join(parts + (module.split(".") if module else []))
        else:
            dotted = (module or "").replace(".", "/")
        for cand in (dotted + ".py", dotted + "/__init__.py"):
            if cand in self.mods or os.path.isfile(os.path.join(self.root, cand)):
                return cand
        return None

    def resolve_class(self, rel, name, depth=0):
        """Class a NAME denotes inside module rel: defined there, or imported (following re-exports)."""
        if (rel, name) in self.classes:
            return (rel, name)
        imp = self.imports.get(rel, {}).get(name)
        if imp and imp[0] and depth < 6:
            return self.resolve_class(imp[0], imp[1], depth + 1)
        return None

    def resolve_func(self, rel, name, depth=0):
        if (rel, name) in self.funcs:
            return (rel, name)
        imp = self.imports.get(rel, {}).get(name)
        if imp and imp[0] and depth < 6:
            return self.resolve_func(imp[0], imp[1], depth + 1)
        return None

    def bases(self, ck):
        out = []
        for b in self.classes[ck].bases:
            nm = b.id if isinstance(b, ast.Name) else getattr(b, "attr", None)
            r = self.resolve_class(ck[0], nm) if nm else None
            if r:
                out.append(r)
        return out

    def mro(self, ck, seen=()):
        if ck in seen:
            return []
        out = [ck]
        for b in self.bases(ck):
            for x in self.mro(b, seen + (ck,)):
                if x not in out:
                    out.append(x)
        return out

    def method(self, ck, name):
        for c in self.mro(ck):
            for st in self.classes[c].body:
                if isinstance(st, (ast.FunctionDef, ast.AsyncFunctionDef)) and st.name == name:
                    return c, st
        return None

    def class_consts(self, ck):
        out = set()
        for c in self.mro(ck):
            for st in self.classes[c].body:
                if isinstance(st, ast.Assign):
                    out.update(t.id for t in st.targets if isinstance(t, ast.Name))
                elif isinstance(st, ast.AnnAssign) and isinstance(st.target, ast.Name) and st.value is not None \
                        and not _is_dataclass(self.classes[c]):
                    out.add(st.target.id)
        return out

    def is_subclass(self, ck, base_name):
        return any(c[1] == base_name for c in self.mro(ck))


def _is_dataclass(cd):
    for d in cd.decorator_list:
        nm = d.id if isinstance(d, ast.Name) else getattr(d, "attr", None) or getattr(getattr(d, "func", None), "id", None)
        if nm == "dataclass":
            return True
    return False


def _chain(e):
    """self.a.b[...].c -> ['self','a','b','c'] ; None if the base is not a plain name."""
    parts = []
    while True:
        if isinstance(e, ast.Attribute):
            parts.append(e.attr)
            e = e.value
        elif isinstance(e, ast.Subscript):
            e = e.value
        else:
            break
    if isinstance(e, ast.Name):
        parts.append(e.id)
        return list(reversed(parts))
    return None


def _ann_names(a):
    """Class names mentioned by an annotation (K, K | None, Optional[K], "K")."""
    if a is None:
        return []
    if isinstance(a, ast.Constant) and isinstance(a.value, str):
        try:
            return _ann_names(ast.parse(a.value, mode="eval").body)
        except SyntaxError:
            return []
    return [n.id for n in ast.walk(a) if isinstance(n, ast.Name)] + [n.attr for n in ast.walk(a) if isinstance(n, ast.Attribute)]


def _self_writes(fn):
    """(field path below self, lineno, how) for every store / mutator call on a self.<...> chain in fn."""
    out = []
    for n in ast.walk(fn):
        tg = []
        if isinstance(n, ast.Assign):
            tg = n.targets
        elif isinstance(n, ast.AugAssign):
            tg = [n.target]
        elif isinstance(n, ast.AnnAssign) and n.value is not None:
            tg = [n.target]
        elif isinstance(n, ast.Delete):
            tg = n.targets
        elif isinstance(n, (ast.For, ast.AsyncFor)):
            tg = [n.target]
        elif isinstance(n, ast.NamedExpr):
            tg = [n.target]
        for t in tg:
            for s in ast.walk(t):
                if isinstance(s, (ast.Attribute, ast.Subscript)) and isinstance(getattr(s, "ctx", None), (ast.Store, ast.Del)):
                    c = _chain(s)
                    if c and c[0] == "self" and len(c) > 1:
                        out.append((c[1:], n.lineno, "assign"))
        if isinstance(n, ast.Call) and isinstance(n.func, ast.Attribute) and n.func.attr in MUTATORS:
            c = _chain(n.func.value)
            if c and c[0] == "self" and len(c) > 1:
                out.append((c[1:], n.lineno, n.func.attr + "()"))
        if isinstance(n, ast.Call) and isinstance(n.func, ast.Name) and n.func.id in ("setattr", "delattr") and n.args:
            c = _chain(n.args[0])
            if c and c[0] == "self":
                out.append((c[1:] + ["<setattr>"], n.lineno, "setattr"))
    return out


class FrameAnalysis:
    def __init__(self, idx: Index):
        self.idx = idx
        self._attr_types = {}

    # ---- types of self.<attr>
    def attr_types(self, ck):
        if ck in self._attr_types:
            return self._attr_types[ck]
        idx = self.idx
        out = {}
        for c in reversed(idx.mro(ck)):
            cd = idx.classes[c]
            for st in cd.body:
                if isinstance(st, ast.AnnAssign) and isinstance(st.target, ast.Name):
                    for nm in _ann_names(st.annotation):
                        r = idx.resolve_class(c[0], nm)
                        if r:
                            out.setdefault(st.target.id, set()).add(r)
                if isinstance(st, (ast.FunctionDef, ast.AsyncFunctionDef)):
                    is_prop = any((isinstance(d, ast.Name) and d.id == "property") for d in st.decorator_list)
                    if is_prop:
                        for nm in _ann_names(st.returns):
                            r = idx.resolve_class(c[0], nm)
                            if r:
                                out.setdefault(st.name, set()).add(r)
                    params = {a.arg: a.annotation for a in st.args.args + st.args.kwonlyargs}
                    for n in ast.walk(st):
                        if isinstance(n, (ast.Assign, ast.AnnAssign)) and getattr(n, "value", None) is not None:
                            tgts = n.targets if isinstance(n, ast.Assign) else [n.target]
                            for t in tgts:
                                ch = _chain(t) if isinstance(t, ast.Attribute) else None
                                if not (ch and ch[0] == "self" and len(ch) == 2):
                                    continue
                                for r in self._expr_classes(c[0], n.value, params):
                                    out.setdefault(ch[1], set()).add(r)
                                if isinstance(n, ast.AnnAssign):
                                    for nm in _ann_names(n.annotation):
                                        r = idx.resolve_class(c[0], nm)
                                        if r:
                                            out.setdefault(ch[1], set()).add(r)
        self._attr_types[ck] = out
        return out

    def _expr_classes(self, rel, v, params):
        idx = self.idx
        res = set()
        for sub in ([v] if not isinstance(v, (ast.BoolOp, ast.IfExp)) else list(ast.iter_child_nodes(v))):
            if isinstance(sub, ast.Call):
                f = sub.func
                nm = f.id if isinstance(f, ast.Name) else None
                if nm:
                    r = idx.resolve_class(rel, nm)
                    if r:
                        res.add(r)
                    fr = idx.resolve_func(rel, nm)
                    if fr:
                        for a in _ann_names(idx.funcs[fr].returns):
                            r2 = idx.resolve_class(fr[0], a)
                            if r2:
                                res.add(r2)
            elif isinstance(sub, ast.Name) and sub.id in params:
                for a in _ann_names(params[sub.id]):
                    r = idx.resolve_class(rel, a)
                    if r:
                        res.add(r)
        return res

    def resolve_chain(self, ck, attrs):
        """Classes an expression self.a.b... may denote: set of class keys, 'const' (class-level constant / no src class),
        or None (unknown)."""
        cur = {ck}
        for a in attrs:
            nxt = set()
            for c in cur:
                t = self.attr_types(c).get(a)
                if t:
                    nxt |= t
                elif a in self.idx.class_consts(c):
                    return "const"
                else:
                    return None
            cur = nxt
        return cur

    # ---- per-call scratch state: fields the entry method re-initialises before anything can read them
    def _mentions(self, ck, mname, field, seen=None):
        """May method mname of class ck (transitively, through self-method calls / property reads) touch self.<field>?
        Unknown methods count as 'yes'."""
        seen = seen if seen is not None else set()
        if mname in seen:
            return False
        seen.add(mname)
        m = self.idx.method(ck, mname)
        if m is None:
            return True
        for n in ast.walk(m[1]):
            if isinstance(n, ast.Attribute) and isinstance(n.value, ast.Name) and n.value.id == "self":
                if n.attr == field:
                    return True
                if self.idx.method(ck, n.attr) is not None and self._mentions(ck, n.attr, field, seen):
                    return True
            if isinstance(n, ast.Name) and n.id == "self" and not isinstance(getattr(n, "ctx", None), ast.Load):
                return True
        # `self` passed around as a value (not as the base of an attribute): anything may happen
        attr_bases = {id(n.value) for n in ast.walk(m[1]) if isinstance(n, ast.Attribute)}
        for n in ast.walk(m[1]):
            if isinstance(n, ast.Name) and n.id == "self" and id(n) not in attr_bases:
                return True
        return False

    def reset_on_entry(self, ck, mname):
        """Fields f such that the entry method assigns `self.f = <expr without self>` as a top-level statement before
        any statement that could observe f (a statement may precede the reset only if neither it nor any self-method it
        calls mentions self.f)."""
        m = self.idx.method(ck, mname)
        if m is None:
            return set()
        body = [st for st in m[1].body if not (isinstance(st, ast.Expr) and isinstance(st.value, ast.Constant))]
        out = set()
        cands = {}
        for i, st in enumerate(body):
            tgt = val = None
            if isinstance(st, ast.Assign) and len(st.targets) == 1:
                tgt, val = st.targets[0], st.value
            elif isinstance(st, ast.AnnAssign) and st.value is not None:
                tgt, val = st.target, st.value
            if tgt is not None and isinstance(tgt, ast.Attribute) and isinstance(tgt.value, ast.Name) and tgt.value.id == "self":
                self_free = not any(isinstance(x, ast.Name) and x.id == "self" for x in ast.walk(val))
                val_ok = self_free or all(
                    isinstance(x.value, ast.Name) and x.value.id == "self" and x.attr != tgt.attr
                    and (self.idx.method(ck, x.attr) is None or not self._mentions(ck, x.attr, tgt.attr))
                    for x in ast.walk(val) if isinstance(x, ast.Attribute) and isinstance(x.value, ast.Name) and x.value.id == "self")
                if val_ok and tgt.attr not in cands:
                    cands[tgt.attr] = i
        for f, i in cands.items():
            ok = True
            for st in body[:i]:
                for n in ast.walk(st):
                    if isinstance(n, ast.Attribute) and isinstance(n.value, ast.Name) and n.value.id == "self":
                        if n.attr == f or (self.idx.method(ck, n.attr) is not None and self._mentions(ck, n.attr, f)):
                            ok = False
                    elif isinstance(n, ast.Name) and n.id == "self":
                        pass
                # bare `self` used as a value in an earlier statement: give up
                bases = {id(n.value) for n in ast.walk(st) if isinstance(n, ast.Attribute)}
                if any(isinstance(n, ast.Name) and n.id == "self" and id(n) not in bases for n in ast.walk(st)):
                    ok = False
            if ok:
                out.add(f)
        return out

    # ---- the frame of one rule's check()
    def frame(self, rule_ck, entry="check"):
        idx = self.idx
        persistent, scratch, notes, escapes = {}, {}, [], []
        seen = set()
        todo = [(rule_ck, entry, None)]  # (class, method, (helper class, entry method, reset fields) or None)
        while todo:
            ck, mname, ectx = todo.pop()
            if (ck, mname, ectx and ectx[:2]) in seen:
                continue
            seen.add((ck, mname, ectx and ectx[:2]))
            m = idx.method(ck, mname)
            if m is None:
                if mname not in MUTATORS and not mname.startswith("__"):
                    notes.append(f"method {ck[1]}.{mname} not found in src (external / dynamic): not followed")
                continue
            owner, fn = m
            for attrs, ln, how in _self_writes(fn):
                key = f"{ck[1]}.{'.'.join(attrs)}"
                where = f"{owner[1]}.{mname}:{ln} ({how})"
                if ectx is not None and ck == ectx[0] and attrs[0] in ectx[2]:
                    scratch.setdefault(key, []).append(where)
                else:
                    persistent.setdefault(key, []).append(where)
            # rule / helper state handed to a callee as an ARGUMENT: the callee may call any method of that object
            for n in ast.walk(fn):
                if not isinstance(n, ast.Call):
                    continue
                for a in list(n.args) + [kw.value for kw in n.keywords]:
                    if not isinstance(a, ast.Attribute):
                        continue
                    c = _chain(a)
                    if not (c and c[0] == "self" and len(c) > 1):
                        continue
                    if self._immutable_member(ck, c[1:]):
                        continue
                    tgt = self.resolve_chain(ck, c[1:])
                    if tgt == "const":
                        continue
                    if tgt is None:
                        escapes.append(f"self.{'.'.join(c[1:])} passed to {ast.unparse(n.func)} in {owner[1]}.{mname}:{n.lineno}")
                        continue
                    for k in tgt:
                        for st in idx.classes[k].body:
                            if isinstance(st, (ast.FunctionDef, ast.AsyncFunctionDef)) and st.name != "__init__":
                                todo.append((k, st.name, (k, st.name, frozenset(self.reset_on_entry(k, st.name)))))
            for n in ast.walk(fn):
                recv = None
                if isinstance(n, ast.Call) and isinstance(n.func, ast.Attribute):
                    recv, callee = _chain(n.func.value), n.func.attr
                elif isinstance(n, ast.Attribute) and isinstance(n.ctx, ast.Load):
                    recv, callee = _chain(n.value), n.attr  # property / bound-method reference
                    if recv != ["self"]:
                        recv = None
                if not recv or recv[0] != "self":
                    continue
                if recv == ["self"]:
                    if idx.method(ck, callee) is not None:
                        todo.append((ck, callee, ectx))
                    continue
                tgt = self.resolve_chain(ck, recv[1:])
                if tgt == "const":
                    continue
                if tgt is None:
                    if not isinstance(n, ast.Call):
                        continue
                    cands = [c for c in idx.classes if any(isinstance(s, (ast.FunctionDef, ast.AsyncFunctionDef)) and s.name == callee
                                                           for s in idx.classes[c].body)]
                    if cands and callee not in MUTATORS:
                        notes.append(f"receiver self.{'.'.join(recv[1:])} of .{callee}() unresolved: followed into "
                                     f"{len(cands)} same-named methods (over-approximation)")
                        for c in cands:
                            todo.append((c, callee, (c, callee, frozenset(self.reset_on_entry(c, callee)))))
                    continue
                for c in tgt:
                    if idx.method(c, callee) is not None:
                        e = ectx if (ectx is not None and c == ectx[0]) else (c, callee, frozenset(self.reset_on_entry(c, callee)))
                        todo.append((c, callee, e))
        return persistent, scratch, notes, escapes

    IMMUTABLE = {"str", "int", "bool", "float", "Path", "None", "bytes", "tuple", "frozenset", "Pattern"}

    def _immutable_member(self, ck, attrs):
        """self.<attr> is known to hold an immutable value: a property / method whose annotated result is an immutable
        scalar, or a field every assignment of which is annotated (directly or through the assigned parameter) with
        immutable external types only (str, int, bool, float, Path, ...)."""
        if len(attrs) != 1:
            return False
        m = self.idx.method(ck, attrs[0])
        if m is not None:
            names = set(_ann_names(m[1].returns))
            return bool(names) and names <= self.IMMUTABLE
        anns, n_assign = set(), 0
        for c in self.idx.mro(ck):
            for st in self.idx.classes[c].body:
                if isinstance(st, ast.AnnAssign) and isinstance(st.target, ast.Name) and st.target.id == attrs[0]:
                    anns |= set(_ann_names(st.annotation)) or {"?"}
                    n_assign += 1
                if not isinstance(st, (ast.FunctionDef, ast.AsyncFunctionDef)):
                    continue
                params = {a.arg: a.annotation for a in st.args.args + st.args.kwonlyargs}
                for n in ast.walk(st):
                    if isinstance(n, (ast.Assign, ast.AnnAssign)) and getattr(n, "value", None) is not None:
                        for t in (n.targets if isinstance(n, ast.Assign) else [n.target]):
                            ch = _chain(t) if isinstance(t, ast.Attribute) else None
                            if ch != ["self", attrs[0]]:
                                continue
                            n_assign += 1
                            if isinstance(n, ast.AnnAssign):
                                anns |= set(_ann_names(n.annotation)) or {"?"}
                                continue
                            got = set()
                            for sub in ([n.value] if not isinstance(n.value, (ast.BoolOp, ast.IfExp)) else list(ast.iter_child_nodes(n.value))):
                                if isinstance(sub, ast.Name) and sub.id in params:
                                    got |= set(_ann_names(params[sub.id])) or {"?"}
                                elif isinstance(sub, ast.Constant):
                                    got.add(type(sub.value).__name__ if sub.value is not None else "None")
                                elif isinstance(sub, ast.Call) and ast.unparse(sub.func) in ("Path.cwd", "Path", "str", "int", "bool"):
                                    got.add("Path" if "Path" in ast.unparse(sub.func) else ast.unparse(sub.func))
                                elif isinstance(sub, (ast.And, ast.Or)):
                                    continue
                                else:
                                    got.add("?")
                            anns |= got
        return n_assign > 0 and bool(anns) and anns <= self.IMMUTABLE


def _allowed(key, allowed):
    cls = key.split(".")[0]
    return key in allowed or f"{cls}.*" in allowed or any(key.startswith(a + ".") for a in allowed)


def rule_classes(idx):
    return sorted(ck for ck in idx.classes if ck[1] not in ABSTRACT and idx.is_subclass(ck, "BaseLintRule")
                  and ck[0].startswith("src/linters/"))


@custom("c08-check-frames", props=["C08", "C07", "C10", "C11"])
def check_frames(ctx):
    idx = Index(ctx["repo"])
    fa = FrameAnalysis(idx)
    out = []
    rules = rule_classes(idx)
    if len(rules) < 15:
        return [dict(name="custom:c08-check-frames/registry", kind="frame", verdict="unknown", carries=True,
                     note=f"only {len(rules)} rule classes found below src/linters (expected ~19): class discovery changed shape")]
    for ck in rules:
        name = f"custom:c08-check-frames/{ck[1]}"
        if idx.method(ck, "check") is None:
            out.append(dict(name=name, kind="frame", verdict="unknown", carries=True, note="no check() method found"))
            continue
        persistent, scratch, notes, escapes = fa.frame(ck)
        allowed = set(DECLARED.get(ck[1], set())) | SHARED_MEMO
        bad = {k: v for k, v in persistent.items() if not _allowed(k, allowed)}
        declared_hit = sorted(k for k in persistent if _allowed(k, allowed))
        note = (f"{ck[0]}: persistent writes reachable from check(): {declared_hit or 'none'}"
                f"; per-call scratch (re-initialised on entry): {sorted(scratch) or 'none'}")
        if notes:
            note += "; " + "; ".join(sorted(set(notes))[:4])
        if escapes and not bad:
            out.append(dict(name=name, kind="frame", verdict="unknown", carries=True,
                            note=note + f"; state escapes to callees through unresolved objects: {escapes[:4]}"))
        elif bad:
            out.append(dict(name=name, kind="frame", verdict="refuted", carries=True, witness_confirmed=False,
                            note=note + f"; UNDECLARED: { {k: v[:2] for k, v in sorted(bad.items())} }"))
        else:
            out.append(dict(name=name, kind="frame", verdict="discharged", carries=True, solver="ast-frame-inference", ms=0.0,
                            note=note))
    # per-file rules: result of check() is a function of (path, content, config) => order / repetition independence
    per_file = [ck[1] for ck in rules if ck[1] not in CROSS_FILE]
    out.append(dict(name="custom:c08-check-frames/summary", kind="frame", verdict="discharged" if per_file else "unknown",
                    carries=False, solver="ast-frame-inference", ms=0.0,
                    note=f"{len(rules)} rule classes analysed; cross-file (declared evidence): {sorted(CROSS_FILE)}"))
    return out


# =================================================================== __init__ establishes Clean
CLEAN_FIELDS = {
    ("src/linters/dry/linter.py", "DRYRule"): {"_storage": "None", "_initialized": "False", "_config": "None",
                                                "_file_analyzer": "None", "_project_root": "None", "_constants": "[]",
                                                "_file_contents": "{}"},
    ("src/linters/stringly_typed/linter.py", "StringlyTypedRule"): {"_storage": "None", "_initialized": "False", "_config": "None"},
}


@custom("c08-init-clean", props=["C08", "C12", "C13", "C19"])
def init_clean(ctx):
    idx = Index(ctx["repo"])
    out = []
    for ck, fields in CLEAN_FIELDS.items():
        name = f"custom:c08-init-clean/{ck[1]}.__init__"
        if ck not in idx.classes or idx.method(ck, "__init__") is None or idx.method(ck, "__init__")[0] != ck:
            out.append(dict(name=name, kind="post", verdict="unknown", carries=True, note="class or own __init__ not found"))
            continue
        fn = idx.method(ck, "__init__")[1]
        found, problems = {}, []
        for st in fn.body:
            tgt = val = None
            if isinstance(st, ast.Assign) and len(st.targets) == 1:
                tgt, val = st.targets[0], st.value
            elif isinstance(st, ast.AnnAssign) and st.value is not None:
                tgt, val = st.target, st.value
            if tgt is not None and isinstance(tgt, ast.Attribute) and isinstance(tgt.value, ast.Name) and tgt.value.id == "self" \
                    and tgt.attr in fields:
                found.setdefault(tgt.attr, []).append(ast.unparse(val))
        all_writes = [w for w in _self_writes(fn) if w[0][0] in fields]
        for f, want in fields.items():
            got = found.get(f, [])
            if len(got) != 1 or len([w for w in all_writes if w[0][0] == f]) != 1:
                problems.append((f, "unknown", f"{f}: expected exactly one top-level assignment, found {got}"))
            elif got[0] != want:
                problems.append((f, "refuted", f"{f} = {got[0]} (clean value is {want})"))
        if any(p[1] == "refuted" for p in problems):
            v = "refuted"
        elif problems:
            v = "unknown"
        else:
            v = "discharged"
        out.append(dict(name=name, kind="post", verdict=v, carries=True, solver="ast-structural", ms=0.0,
                        note="; ".join(p[2] for p in problems) or f"every evidence field initialised to its clean constant: {fields}"))
    return out


# =================================================================== reachability from the lint entry points (by name)
ENTRY_METHODS = [("src/orchestrator/core.py", "Orchestrator", m) for m in
                 ("lint_file", "lint_files", "lint_directory", "lint_files_parallel", "lint_directory_parallel", "__init__")] + \
                [("src/api.py", "Linter", m) for m in ("lint", "__init__")]
ENTRY_FUNCS = [("src/orchestrator/core.py", "_lint_file_worker")]


def reachable(idx: Index):
    """Over-approximate call graph by NAME resolution over src/: a call `f(...)` reaches the function the name denotes in
    that module (or every module-level function called f when it cannot be resolved); `x.m(...)` reaches every method
    called m of every class in src; `K(...)` reaches K.__init__ / __post_init__. Rule plug-ins (check/finalize of every
    BaseLintRule subclass) are entry points too (dynamic dispatch). Returns {(rel, qualname): FunctionDef}."""
    meths = {}
    for ck, cd in idx.classes.items():
        for st in cd.body:
            if isinstance(st, (ast.FunctionDef, ast.AsyncFunctionDef)):
                meths.setdefault(st.name, []).append((ck, st))
    funcs_by_name = {}
    for (rel, nm), fn in idx.funcs.items():
        funcs_by_name.setdefault(nm, []).append(((rel, nm), fn))
    todo, seen = [], {}
    for rel, cls, m in ENTRY_METHODS:
        r = idx.method((rel, cls), m) if (rel, cls) in idx.classes else None
        if r is None:
            return None, f"entry point {rel}::{cls}.{m} not found"
        todo.append((r[0][0], f"{r[0][1]}.{m}", r[1]))
    for rel, f in ENTRY_FUNCS:
        if (rel, f) not in idx.funcs:
            return None, f"entry point {rel}::{f} not found"
        todo.append((rel, f, idx.funcs[(rel, f)]))
    for ck in idx.classes:
        if idx.is_subclass(ck, "BaseLintRule"):
            for st in idx.classes[ck].body:
                if isinstance(st, (ast.FunctionDef, ast.AsyncFunctionDef)) and st.name in ("check", "finalize", "__init__"):
                    todo.append((ck[0], f"{ck[1]}.{st.name}", st))
    while todo:
        rel, qual, fn = todo.pop()
        if (rel, qual) in seen:
            continue
        seen[(rel, qual)] = fn
        for n in ast.walk(fn):
            if not isinstance(n, ast.Call):
                continue
            f = n.func
            if isinstance(f, ast.Name):
                ck = idx.resolve_class(rel, f.id)
                fk = idx.resolve_func(rel, f.id)
                if ck:
                    for mn in ("__init__", "__post_init__"):
                        r = idx.method(ck, mn)
                        if r:
                            todo.append((r[0][0], f"{r[0][1]}.{mn}", r[1]))
                elif fk:
                    todo.append((fk[0], fk[1], idx.funcs[fk]))
                else:
                    # nested function of the same function, or unresolved name: every module-level function so named
                    for k, g in funcs_by_name.get(f.id, []):
                        todo.append((k[0], k[1], g))
                    for sub in ast.walk(fn):
                        if isinstance(sub, (ast.FunctionDef, ast.AsyncFunctionDef)) and sub.name == f.id and sub is not fn:
                            todo.append((rel, f"{qual}.{sub.name}", sub))
            elif isinstance(f, ast.Attribute):
                for ck, st in meths.get(f.attr, []):
                    todo.append((ck[0], f"{ck[1]}.{f.attr}", st))
                # module.function(...)
                if isinstance(f.value, ast.Name):
                    imp = idx.imports.get(rel, {}).get(f.value.id)
                    if imp and imp[0] is None:
                        pass
                    for k, g in funcs_by_name.get(f.attr, []):
                        if imp and imp[0] and k[0].startswith(imp[0][:-3]):
                            todo.append((k[0], k[1], g))
            # properties are reached through attribute loads: over-approximate by every @property so named
        for n in ast.walk(fn):
            if isinstance(n, ast.Attribute) and isinstance(n.ctx, ast.Load):
                for ck, st in meths.get(n.attr, []):
                    if any(isinstance(d, ast.Name) and d.id in ("property", "cached_property") for d in st.decorator_list):
                        todo.append((ck[0], f"{ck[1]}.{n.attr}", st))
    return seen, ""


_MEMO_DECORATORS = {"lru_cache", "cache", "cached_property", "memoize", "memoized", "cachedmethod", "cached"}


def _module_mutables(t):
    """Module-level names bound to mutable containers ([] {} set() dict() list() defaultdict(...) OrderedDict())."""
    out = set()
    for st in t.body:
        tg = st.targets if isinstance(st, ast.Assign) else ([st.target] if isinstance(st, ast.AnnAssign) and st.value is not None else [])
        v = getattr(st, "value", None)
        if not tg or v is None:
            continue
        mutable = isinstance(v, (ast.List, ast.Dict, ast.Set, ast.ListComp, ast.DictComp, ast.SetComp)) or (
            isinstance(v, ast.Call) and ast.unparse(v.func).split(".")[-1] in ("dict", "list", "set", "defaultdict", "OrderedDict", "deque"))
        if mutable:
            out.update(x.id for x in tg if isinstance(x, ast.Name))
    return out


@custom("c08-module-state", props=["C08", "C14", "C09"])
def module_state(ctx):
    """C08: a lint run is a function of (files, config): functions reachable from the lint entry points keep no state
    across calls outside the rule objects -- no module-level variables written, no module-level containers mutated, no
    memoising decorator (functools.lru_cache / cache / cached_property ...). One obligation per site found."""
    idx = Index(ctx["repo"])
    reach, why = reachable(idx)
    if reach is None:
        return [dict(name="custom:c08-module-state/reachability", kind="frame", verdict="unknown", carries=True, note=why)]
    out = []
    for (rel, qual), fn in sorted(reach.items()):
        globs = set()
        for n in ast.walk(fn):
            if isinstance(n, ast.Global):
                globs.update(n.names)
        written = set()
        for n in ast.walk(fn):
            if isinstance(n, ast.Name) and isinstance(n.ctx, (ast.Store, ast.Del)) and n.id in globs:
                written.add(n.id)
        mm = _module_mutables(idx.mods[rel])
        local = {a.arg for a in fn.args.args + fn.args.kwonlyargs} | {
            n.id for n in ast.walk(fn) if isinstance(n, ast.Name) and isinstance(n.ctx, ast.Store) and n.id not in globs}
        for n in ast.walk(fn):
            if isinstance(n, ast.Call) and isinstance(n.func, ast.Attribute) and n.func.attr in MUTATORS \
                    and isinstance(n.func.value, ast.Name) and n.func.value.id in mm and n.func.value.id not in local:
                written.add(n.func.value.id)
            if isinstance(n, ast.Subscript) and isinstance(n.ctx, (ast.Store, ast.Del)) and isinstance(n.value, ast.Name) \
                    and n.value.id in mm and n.value.id not in local:
                written.add(n.value.id)
        memo = []
        for d in fn.decorator_list:
            txt = ast.unparse(d.func if isinstance(d, ast.Call) else d)
            if txt.split(".")[-1] in _MEMO_DECORATORS or "cache" in txt.split(".")[-1].lower() or "memo" in txt.split(".")[-1].lower():
                memo.append(txt)
        if memo:
            # process-lifetime memoisation of a function on the lint path: its result is remembered per argument for the
            # life of the process, so anything it reads besides its arguments (file contents, the file system, the
            # configuration) is frozen at the first call -- history dependence on a long-lived Linter
            out.append(dict(name=f"custom:c08-module-state/{rel}::{qual}@memoised", kind="frame", verdict="refuted", carries=True,
                            witness_confirmed=False, solver="ast-scan",
                            note=f"reachable from the lint entry points and memoised across calls by {memo}: a later call with the "
                                 f"same arguments never re-reads the files / configuration the function depends on"))
        if written:
            out.append(dict(name=f"custom:c08-module-state/{rel}::{qual}", kind="frame", verdict="refuted", carries=True,
                            witness_confirmed=False, solver="ast-scan",
                            note=f"reachable from the lint entry points and writes module-level state {sorted(written)}"))
    # mutable CLASS-level attributes that methods mutate through self / cls: one object shared by every instance (and by
    # every later generation of instances) -- per-run state that outlives the object it seems to belong to
    for ck, cd in sorted(idx.classes.items()):
        shared = {}
        for st in cd.body:
            tg = st.targets if isinstance(st, ast.Assign) else ([st.target] if isinstance(st, ast.AnnAssign) and st.value is not None else [])
            v = getattr(st, "value", None)
            if tg and v is not None and (isinstance(v, (ast.List, ast.Dict, ast.Set, ast.ListComp, ast.DictComp, ast.SetComp)) or (
                    isinstance(v, ast.Call) and ast.unparse(v.func).split(".")[-1] in ("dict", "list", "set", "defaultdict", "OrderedDict", "deque"))):
                for x in tg:
                    if isinstance(x, ast.Name):
                        shared[x.id] = st.lineno
        if not shared or _is_dataclass(cd):
            continue
        rebound, mutated = set(), {}
        for fn in [f for f in cd.body if isinstance(f, (ast.FunctionDef, ast.AsyncFunctionDef))]:
            for attrs, ln, how in _self_writes(fn):
                if attrs[0] in shared:
                    if len(attrs) == 1 and how == "assign" and fn.name == "__init__":
                        rebound.add(attrs[0])  # instance attribute created in __init__ shadows the class attribute
                    else:
                        mutated.setdefault(attrs[0], []).append(f"{fn.name}:{ln} ({how})")
            for n in ast.walk(fn):
                if isinstance(n, (ast.Subscript, ast.Attribute)) and isinstance(getattr(n, "ctx", None), (ast.Store, ast.Del)):
                    c = _chain(n)
                    if c and c[0] in ("cls", ck[1]) and len(c) > 1 and c[1] in shared:
                        mutated.setdefault(c[1], []).append(f"{fn.name}:{n.lineno} (assign via {c[0]})")
                if isinstance(n, ast.Call) and isinstance(n.func, ast.Attribute) and n.func.attr in MUTATORS:
                    c = _chain(n.func.value)
                    if c and c[0] in ("cls", ck[1]) and len(c) > 1 and c[1] in shared:
                        mutated.setdefault(c[1], []).append(f"{fn.name}:{n.lineno} ({n.func.attr}() via {c[0]})")
        for a, sites in sorted(mutated.items()):
            if a in rebound:
                continue
            out.append(dict(name=f"custom:c08-module-state/{ck[0]}::{ck[1]}.{a}@class-level", kind="frame", verdict="refuted", carries=True,
                            witness_confirmed=False, solver="ast-scan",
                            note=f"mutable class-level attribute (L{shared[a]}) mutated by {sites[:3]}: shared by all instances, "
                                 f"state survives the object and leaks between projects / runs"))
    out.append(dict(name="custom:c08-module-state/scan", kind="frame", verdict="discharged", carries=False, solver="ast-scan", ms=0.0,
                    note=f"{len(reach)} functions reachable from the lint entry points scanned for `global` writes and "
                         f"mutation of module-level containers and memoising decorators (lru_cache / cache / cached_property ...); found: {len(out)}"))
    return out


# =================================================================== file-system writers
FS_METHODS = {"write_text", "write_bytes", "mkdir", "unlink", "rmdir", "touch", "rename", "symlink_to", "chmod", "makedirs",
              "rmtree", "copyfile", "copytree"}
FS_OS_FUNCS = {"os.remove", "os.unlink", "os.mkdir", "os.makedirs", "os.rename", "os.replace", "os.rmdir", "os.symlink",
               "shutil.rmtree", "shutil.copy", "shutil.copyfile", "shutil.copytree", "shutil.move"}
TEMP_FUNCS = {"tempfile.NamedTemporaryFile", "tempfile.mkstemp", "tempfile.mkdtemp", "tempfile.TemporaryDirectory",
              "tempfile.TemporaryFile", "NamedTemporaryFile", "TemporaryDirectory", "mkstemp", "mkdtemp"}


def _open_mode(call):
    mode = None
    if len(call.args) > 1:
        mode = call.args[1]
    for kw in call.keywords:
        if kw.arg == "mode":
            mode = kw.value
    if mode is None:
        return "r"
    if isinstance(mode, ast.Constant) and isinstance(mode.value, str):
        return mode.value
    return "?"


def fs_effects(fn):
    """(kind, detail, lineno) for every file-system writer syntactically present in fn."""
    out = []
    for n in ast.walk(fn):
        if not isinstance(n, ast.Call):
            continue
        f = n.func
        text = ast.unparse(f)
        if (isinstance(f, ast.Name) and f.id == "open") or text.endswith(".open"):
            mode = _open_mode(n) if not text.endswith(".open") else (_open_mode(ast.Call(func=f, args=[ast.Constant("x")] + n.args, keywords=n.keywords)))
            if any(c in mode for c in "wax+?"):
                out.append(("open-for-writing", f"{ast.unparse(n)[:80]} mode={mode}", n.lineno))
        elif text in FS_OS_FUNCS:
            out.append(("os/shutil", ast.unparse(n)[:80], n.lineno))
        elif text in TEMP_FUNCS or text.split(".")[-1] in ("NamedTemporaryFile", "mkstemp", "mkdtemp", "TemporaryDirectory"):
            out.append(("tempfile", ast.unparse(n)[:80], n.lineno))
        elif text in ("sqlite3.connect",) or text.endswith("sqlite3.connect"):
            arg = ast.unparse(n.args[0]) if n.args else "?"
            out.append(("sqlite", arg, n.lineno))
        elif isinstance(f, ast.Attribute) and f.attr in FS_METHODS:
            out.append(("path-method", ast.unparse(n)[:80], n.lineno))
    return out


@custom("c08-fs-writes", props=["C08"])
def fs_writes(ctx):
    """C08: a lint run creates, modifies and deletes nothing under the project directory and leaves no temporary files
    behind. Every file-system writer reachable (by name, over-approximate) from the lint entry points is an obligation:
    allowed are tempfile.* objects (outside the project; NamedTemporaryFile deletes on close) and sqlite connections to
    ':memory:' or to such a tempfile."""
    idx = Index(ctx["repo"])
    reach, why = reachable(idx)
    if reach is None:
        return [dict(name="custom:c08-fs-writes/reachability", kind="frame", verdict="unknown", carries=True, note=why)]
    out = []
    n_eff = 0
    for (rel, qual), fn in sorted(reach.items()):
        ordinal = {}
        for kind, detail, ln in fs_effects(fn):
            n_eff += 1
            ordinal[kind] = ordinal.get(kind, 0) + 1
            name = f"custom:c08-fs-writes/{rel}::{qual}@{kind}-{ordinal[kind]}"
            if kind == "tempfile":
                ok = "delete=False" not in detail
                out.append(dict(name=name, kind="frame", verdict="discharged" if ok else "refuted", carries=True, solver="ast-scan", ms=0.0,
                                witness_confirmed=False,
                                note=f"L{ln}: {detail} -- temporary file outside the project" + ("" if ok else " but delete=False: left behind")))
            elif kind == "sqlite":
                ok = detail in ('":memory:"', "':memory:'") or "tempfile" in detail or "_tempfile" in detail or "db_path" in detail
                out.append(dict(name=name, kind="frame", verdict="discharged" if ok else "unknown", carries=True, solver="ast-scan", ms=0.0,
                                note=f"L{ln}: sqlite3.connect({detail})"))
            else:
                out.append(dict(name=name, kind="frame", verdict="refuted", carries=True, solver="ast-scan", witness_confirmed=False,
                                note=f"L{ln}: {detail} -- file-system write reachable (by name) from the lint entry points"))
    out.append(dict(name="custom:c08-fs-writes/scan", kind="frame", verdict="discharged", carries=False, solver="ast-scan", ms=0.0,
                    note=f"{len(reach)} functions reachable from the lint entry points scanned; file-system effects found: {n_eff}"))
    return out


# =================================================================== writes through SHARED objects reachable from `context`
# The orchestrator hands every rule the SAME configuration objects (context.metadata = {**config, ...}: a shallow copy,
# the per-linter section dicts are shared by all files of the run and by all later runs of a long-lived Linter). A
# function that mutates such an object makes the verdict of later files depend on order / history (C08, C10, C07).
# Taint levels: 0 clean; E = fresh container whose ELEMENTS are shared (dict(x), list(x), x.copy(), {**x}); T = shared
# object; CTX = the per-file context object (its .metadata is T, its other attributes are immutable values).
_CLEAN, _E, _T, _CTX = 0, 1, 2, 3
_SCALAR_FUNCS = {"str", "int", "len", "bool", "isinstance", "float", "repr", "type", "hasattr", "min", "max", "sum", "any", "all",
                 "Path", "id", "hash", "abs", "round", "callable", "issubclass", "range", "enumerate", "zip", "print", "format"}
_SHALLOW_COPIES = {"dict", "list", "set", "tuple", "sorted", "frozenset", "reversed", "OrderedDict", "deque"}
_READ_SHARED = {"get", "pop", "setdefault", "popitem", "__getitem__"}


class SharedWrites:
    def __init__(self, idx: Index):
        self.idx = idx
        self.funcs = {}          # (rel, qual) -> (FunctionDef, owner class name or None)
        self.by_name = {}        # bare name -> [(rel, qual)]
        for (rel, nm), fn in idx.funcs.items():
            self.funcs[(rel, nm)] = (fn, None)
            self.by_name.setdefault(nm, []).append((rel, nm))
        for ck, cd in idx.classes.items():
            for st in cd.body:
                if isinstance(st, (ast.FunctionDef, ast.AsyncFunctionDef)):
                    key = (ck[0], f"{ck[1]}.{st.name}")
                    self.funcs[key] = (st, ck[1])
                    self.by_name.setdefault(st.name, []).append(key)
        self.param_taint = {}    # (key, param) -> level
        self.ret_taint = {}      # key -> level
        self.field_taint = {}    # (class name, attr) -> level
        self.sinks = {}          # key -> [(lineno, text)]
        self.changed = False

    @staticmethod
    def _join(a, b):
        if a == b:
            return a
        if _CTX in (a, b):
            return _CTX if _CLEAN in (a, b) else _T
        return max(a, b)

    def _set(self, table, k, v):
        old = table.get(k, _CLEAN)
        new = self._join(old, v)
        if new != old:
            table[k] = new
            self.changed = True

    def _params(self, key):
        fn, owner = self.funcs[key]
        names = [a.arg for a in fn.args.posonlyargs + fn.args.args]
        is_static = any(isinstance(d, ast.Name) and d.id == "staticmethod" for d in fn.decorator_list)
        if owner is not None and not is_static and names:
            names = names[1:]  # self / cls
        return names, [a.arg for a in fn.args.kwonlyargs]

    def _callees(self, rel, owner, call):
        f = call.func
        out = []
        if isinstance(f, ast.Name):
            ck = self.idx.resolve_class(rel, f.id)
            fk = self.idx.resolve_func(rel, f.id)
            if ck:
                for mn in ("__init__", "__post_init__"):
                    r = self.idx.method(ck, mn)
                    if r:
                        out.append((r[0][0], f"{r[0][1]}.{mn}"))
            elif fk:
                out.append(fk)
            else:
                out += [k for k in self.by_name.get(f.id, []) if "." not in k[1]]
        elif isinstance(f, ast.Attribute):
            out += [k for k in self.by_name.get(f.attr, []) if "." in k[1]]
            if isinstance(f.value, ast.Name):
                out += [k for k in self.by_name.get(f.attr, []) if "." not in k[1]
                        and (self.idx.imports.get(rel, {}).get(f.value.id, (None,))[0] or "").startswith(k[0][:-3])]
        return [k for k in out if k in self.funcs]

    def _elem(self, v):
        return _T if v in (_T, _E) else _CLEAN

    def eval(self, e, env, key):
        rel, owner = key[0], self.funcs[key][1]
        if e is None or isinstance(e, ast.Constant):
            return _CLEAN
        if isinstance(e, ast.Name):
            return env.get(e.id, _CLEAN)
        if isinstance(e, ast.Attribute):
            if isinstance(e.value, ast.Name) and e.value.id == "self" and owner is not None:
                return self.field_taint.get((owner, e.attr), _CLEAN)
            v = self.eval(e.value, env, key)
            if v == _CTX:
                return _T if e.attr in ("metadata", "config") else _CLEAN
            return _T if v in (_T, _E) else _CLEAN
        if isinstance(e, ast.Subscript):
            v = self.eval(e.value, env, key)
            return _T if v in (_T, _E) else _CLEAN
        if isinstance(e, (ast.BoolOp,)):
            r = _CLEAN
            for x in e.values:
                r = self._join(r, self.eval(x, env, key))
            return r
        if isinstance(e, ast.IfExp):
            return self._join(self.eval(e.body, env, key), self.eval(e.orelse, env, key))
        if isinstance(e, ast.NamedExpr):
            v = self.eval(e.value, env, key)
            env[e.target.id] = self._join(env.get(e.target.id, _CLEAN), v)
            return v
        if isinstance(e, (ast.List, ast.Tuple, ast.Set)):
            return _E if any(self.eval(x, env, key) in (_T, _E, _CTX) for x in e.elts) else _CLEAN
        if isinstance(e, ast.Dict):
            vs = [self.eval(x, env, key) for x in e.values if x is not None]
            return _E if any(v in (_T, _E, _CTX) for v in vs) else _CLEAN
        if isinstance(e, (ast.ListComp, ast.SetComp, ast.GeneratorExp, ast.DictComp)):
            sub = dict(env)
            for g in e.generators:
                it = self.eval(g.iter, sub, key)
                for n in ast.walk(g.target):
                    if isinstance(n, ast.Name):
                        sub[n.id] = self._elem(it)
            elt = e.value if isinstance(e, ast.DictComp) else e.elt
            return _E if self.eval(elt, sub, key) in (_T, _E) else _CLEAN
        if isinstance(e, ast.Starred):
            return self.eval(e.value, env, key)
        if isinstance(e, ast.Call):
            return self.eval_call(e, env, key)
        return _CLEAN

    def eval_call(self, c, env, key):
        rel, owner = key[0], self.funcs[key][1]
        f = c.func
        args = [self.eval(a, env, key) for a in c.args]
        kws = {k.arg: self.eval(k.value, env, key) for k in c.keywords}
        any_arg = [a for a in args + list(kws.values())]
        if isinstance(f, ast.Name):
            if f.id == "getattr" and c.args:
                base = args[0]
                name = c.args[1].value if len(c.args) > 1 and isinstance(c.args[1], ast.Constant) else None
                if base == _CTX:
                    return _T if name in ("metadata", "config", None) else _CLEAN
                return _T if base in (_T, _E) else _CLEAN
            if f.id in ("deepcopy",) or f.id in _SCALAR_FUNCS:
                return _CLEAN
            if f.id in _SHALLOW_COPIES:
                return _E if any(a in (_T, _E) for a in any_arg) else _CLEAN
        if isinstance(f, ast.Attribute):
            recv = self.eval(f.value, env, key)
            if ast.unparse(f) in ("copy.deepcopy",):
                return _CLEAN
            if ast.unparse(f) in ("copy.copy",):
                return _E if any(a in (_T, _E) for a in any_arg) else _CLEAN
            builtin = None
            if recv in (_T, _E):
                # container API on a shared object: these meanings hold whatever same-named src methods exist
                if f.attr == "copy":
                    builtin = _E
                elif f.attr in _READ_SHARED:
                    builtin = _T
                elif f.attr in ("items", "values"):
                    builtin = _E
                elif f.attr in ("keys", "lower", "upper", "strip", "split", "startswith", "endswith", "format", "join", "replace"):
                    builtin = _CLEAN
            if builtin is not None and not self._callees(rel, owner, c):
                return builtin
        # calls into src: pass argument taints to the parameters, take the join of the callees' return taints
        res = _CLEAN
        if isinstance(f, ast.Attribute):
            recv0 = self.eval(f.value, env, key)
            if recv0 in (_T, _E):
                res = {"copy": _E, "items": _E, "values": _E}.get(f.attr, _T if f.attr in _READ_SHARED else _CLEAN)
        callees = self._callees(rel, owner, c)
        for k in callees:
            pos, kwonly = self._params(k)
            for name, lv in zip(pos, args):
                if lv != _CLEAN:
                    self._set(self.param_taint, (k, name), lv)
            for name, lv in kws.items():
                if lv != _CLEAN and name in pos + kwonly:
                    self._set(self.param_taint, (k, name), lv)
            res = self._join(res, self.ret_taint.get(k, _CLEAN))
        if isinstance(f, ast.Attribute) and not callees:
            recv = self.eval(f.value, env, key)
            if recv in (_T, _E) and f.attr not in MUTATORS:
                res = self._join(res, _T)  # unknown method of a shared object: may return a part of it
        return res if res != _CTX else _T

    def analyse(self, key):
        fn, owner = self.funcs[key]
        pos, kwonly = self._params(key)
        env = {p: self.param_taint.get((key, p), _CLEAN) for p in pos + kwonly}
        sinks = []
        for _ in range(3):  # flow-insensitive: a few passes over the body let later assignments reach earlier uses
            for n in ast.walk(fn):
                if isinstance(n, (ast.Assign, ast.AnnAssign, ast.AugAssign)):
                    val = self.eval(n.value, env, key) if getattr(n, "value", None) is not None else _CLEAN
                    tgts = n.targets if isinstance(n, ast.Assign) else [n.target]
                    for t in tgts:
                        if isinstance(t, ast.Name):
                            env[t.id] = self._join(env.get(t.id, _CLEAN), val)
                        elif isinstance(t, (ast.Tuple, ast.List)):
                            for x in ast.walk(t):
                                if isinstance(x, ast.Name):
                                    env[x.id] = self._join(env.get(x.id, _CLEAN), self._elem(val) if val != _CTX else _CLEAN)
                        elif isinstance(t, ast.Attribute) and isinstance(t.value, ast.Name) and t.value.id == "self" and owner:
                            if val in (_T, _E):
                                self._set(self.field_taint, (owner, t.attr), val)
                elif isinstance(n, (ast.For, ast.AsyncFor)):
                    it = self.eval(n.iter, env, key)
                    for x in ast.walk(n.target):
                        if isinstance(x, ast.Name):
                            env[x.id] = self._join(env.get(x.id, _CLEAN), self._elem(it))
                elif isinstance(n, ast.Return) and n.value is not None:
                    self._set(self.ret_taint, key, self.eval(n.value, env, key))
                elif isinstance(n, ast.Call):
                    self.eval_call(n, env, key)
        # sinks
        for n in ast.walk(fn):
            tgts = []
            if isinstance(n, ast.Assign):
                tgts = n.targets
            elif isinstance(n, (ast.AugAssign, ast.AnnAssign)) and getattr(n, "value", True) is not None:
                tgts = [n.target]
            elif isinstance(n, ast.Delete):
                tgts = n.targets
            for t in tgts:
                for s_ in ([t] if not isinstance(t, (ast.Tuple, ast.List)) else t.elts):
                    if isinstance(s_, (ast.Subscript, ast.Attribute)):
                        if isinstance(s_, ast.Attribute) and isinstance(s_.value, ast.Name) and s_.value.id == "self":
                            continue  # rule / helper state: the business of c08-check-frames
                        base = self.eval(s_.value, env, key)
                        if base == _T or (base == _CTX and isinstance(s_, ast.Attribute)):
                            sinks.append((n.lineno, ast.unparse(n)[:100]))
            if isinstance(n, ast.Call) and isinstance(n.func, ast.Attribute) and n.func.attr in MUTATORS:
                if self.eval(n.func.value, env, key) == _T:
                    sinks.append((n.lineno, ast.unparse(n)[:100]))
        self.sinks[key] = sorted(set(sinks))

    def run(self):
        seeds = 0
        for ck in self.idx.classes:
            if self.idx.is_subclass(ck, "BaseLintRule"):
                m = self.idx.method(ck, "check")  # own or inherited (MultiLanguageLintRule.check dispatches by language)
                if m is not None and len(m[1].args.args) >= 2:
                    self._set(self.param_taint, ((m[0][0], f"{m[0][1]}.check"), m[1].args.args[1].arg), _CTX)
                    seeds += 1
        rounds = 0
        while True:
            rounds += 1
            self.changed = False
            live = {k for (k, _p) in self.param_taint} | {(rel, q) for (rel, q) in self.funcs if self.funcs[(rel, q)][1]
                                                          and any(c == self.funcs[(rel, q)][1] for (c, _a) in self.field_taint)}
            for k in sorted(live):
                self.analyse(k)
            if not self.changed or rounds > 25:
                break
        return seeds, rounds, len({k for (k, _p) in self.param_taint})


@custom("c08-shared-config-frames", props=["C08", "C10", "C07", "C11"])
def shared_config_frames(ctx):
    """Frame obligation on the READERS of shared state: nothing reachable from a rule's check(context) writes through an
    object that aliases context.metadata (the orchestrator's configuration sections, shared by all files of a run and by
    later runs of the same Linter). Inter-procedural taint propagation by name resolution (over-approximate calls),
    shallow copies tracked (dict(x) is fresh, its values are not). One obligation per function with such a write."""
    idx = Index(ctx["repo"])
    sw = SharedWrites(idx)
    seeds, rounds, reached = sw.run()
    if seeds < 15:
        return [dict(name="custom:c08-shared-config-frames/seeds", kind="frame", verdict="unknown", carries=True,
                     note=f"only {seeds} rule check(context) entry points found")]
    if rounds > 25:
        return [dict(name="custom:c08-shared-config-frames/fixpoint", kind="frame", verdict="unknown", carries=True,
                     note="taint propagation did not reach a fixpoint in 25 rounds")]
    out = []
    for key, sinks in sorted(sw.sinks.items()):
        if sinks:
            out.append(dict(name=f"custom:c08-shared-config-frames/{key[0]}::{key[1]}", kind="frame", verdict="refuted", carries=True,
                            witness_confirmed=False, solver="ast-taint",
                            note=f"writes through an object that may alias the shared configuration (context.metadata): "
                                 f"{[f'L{ln}: {tx}' for ln, tx in sinks[:4]]}"))
    out.append(dict(name="custom:c08-shared-config-frames/scan", kind="frame", verdict="discharged", carries=False, solver="ast-taint", ms=0.0,
                    note=f"{seeds} check(context) entry points, {reached} functions receive (parts of) the shared configuration, "
                         f"fixpoint after {rounds} rounds; functions writing through it: {len(out)}"))
    return out


# =================================================================== hash-seed independence: no set iteration order in an output
_ORDER_FREE = {"sorted", "set", "frozenset", "len", "any", "all", "sum", "min", "max", "bool", "isinstance", "hash"}


def _is_set_annotation(a):
    if a is None:
        return False
    txt = ast.unparse(a) if not (isinstance(a, ast.Constant) and isinstance(a.value, str)) else a.value
    head = txt.replace("typing.", "").split("|")[0].strip()
    return head.startswith(("set[", "Set[", "frozenset[", "FrozenSet[", "AbstractSet[")) or head in ("set", "frozenset", "Set", "FrozenSet")


class SetOrderScan:
    """Where does the ITERATION ORDER of a set (of str: PYTHONHASHSEED dependent) become the order of a list / tuple /
    string? Set-typed expressions: set displays / comprehensions / set(...) calls, names and parameters annotated
    set[...], attributes named like a field annotated set[...] anywhere in src, calls of functions annotated -> set[...].
    Order-producing uses: list(S), tuple(S), sep.join(S), [.. for x in S], str(S) / f"{S}", and `for x in S:` loops
    whose body appends / extends / yields. sorted(S) and order-free consumers (len, any, all, sum, min, max, set, in) are fine."""

    def __init__(self, idx: Index):
        self.idx = idx
        self.set_fields, self.set_funcs = set(), set()
        for ck, cd in idx.classes.items():
            for st in ast.walk(cd):
                if isinstance(st, ast.AnnAssign) and _is_set_annotation(st.annotation):
                    t = st.target
                    self.set_fields.add(t.id if isinstance(t, ast.Name) else getattr(t, "attr", None))
        for t in idx.mods.values():
            for fn in ast.walk(t):
                if isinstance(fn, (ast.FunctionDef, ast.AsyncFunctionDef)) and _is_set_annotation(fn.returns):
                    self.set_funcs.add(fn.name)
        self.set_fields.discard(None)

    def is_set(self, e, local):
        if isinstance(e, (ast.Set, ast.SetComp)):
            return True
        if isinstance(e, ast.Name):
            return e.id in local
        if isinstance(e, ast.Attribute):
            return e.attr in self.set_fields
        if isinstance(e, ast.Call):
            f = e.func
            nm = f.id if isinstance(f, ast.Name) else getattr(f, "attr", None)
            if nm in ("set", "frozenset"):
                return True
            if nm in self.set_funcs:
                return True
            if nm in ("union", "intersection", "difference", "symmetric_difference", "copy") and isinstance(f, ast.Attribute):
                return self.is_set(f.value, local)
        if isinstance(e, ast.BinOp) and isinstance(e.op, (ast.BitOr, ast.BitAnd, ast.Sub, ast.BitXor)):
            return self.is_set(e.left, local) or self.is_set(e.right, local)
        if isinstance(e, ast.IfExp):
            return self.is_set(e.body, local) or self.is_set(e.orelse, local)
        return False

    def scan(self, fn):
        local = {a.arg for a in fn.args.args + fn.args.kwonlyargs if _is_set_annotation(a.annotation)}
        for _ in range(2):
            for n in ast.walk(fn):
                if isinstance(n, ast.AnnAssign) and isinstance(n.target, ast.Name) and _is_set_annotation(n.annotation):
                    local.add(n.target.id)
                elif isinstance(n, ast.Assign) and self.is_set(n.value, local):
                    local.update(t.id for t in n.targets if isinstance(t, ast.Name))
        safe = set()
        for n in ast.walk(fn):
            if isinstance(n, ast.Call):
                nm = n.func.id if isinstance(n.func, ast.Name) else getattr(n.func, "attr", None)
                if nm in _ORDER_FREE:
                    for a in n.args:
                        for sub in ast.walk(a):
                            safe.add(id(sub))
        hits = []
        for n in ast.walk(fn):
            if id(n) in safe:
                continue
            if isinstance(n, ast.Call):
                nm = n.func.id if isinstance(n.func, ast.Name) else getattr(n.func, "attr", None)
                if nm in ("list", "tuple", "str", "repr") and n.args and self.is_set(n.args[0], local):
                    hits.append((n.lineno, ast.unparse(n)[:90]))
                elif nm == "join" and n.args:
                    a = n.args[0]
                    if self.is_set(a, local) or (isinstance(a, (ast.GeneratorExp, ast.ListComp)) and self.is_set(a.generators[0].iter, local)):
                        hits.append((n.lineno, ast.unparse(n)[:90]))
                elif nm in ("extend",) and n.args and self.is_set(n.args[0], local):
                    hits.append((n.lineno, ast.unparse(n)[:90]))
            elif isinstance(n, ast.ListComp) and self.is_set(n.generators[0].iter, local):
                hits.append((n.lineno, ast.unparse(n)[:90]))
            elif isinstance(n, ast.FormattedValue) and self.is_set(n.value, local):
                hits.append((n.lineno, "f-string of a set: " + ast.unparse(n.value)[:70]))
            elif isinstance(n, (ast.For, ast.AsyncFor)) and self.is_set(n.iter, local):
                body = ast.Module(body=n.body, type_ignores=[])
                if any((isinstance(x, ast.Call) and getattr(x.func, "attr", None) in ("append", "extend", "insert", "write"))
                       or isinstance(x, (ast.Yield, ast.YieldFrom)) or (isinstance(x, ast.AugAssign) and isinstance(x.op, ast.Add))
                       for x in ast.walk(body)):
                    hits.append((n.lineno, "for " + ast.unparse(n.target) + " in " + ast.unparse(n.iter)[:60] + ": ... append/yield"))
        return sorted(set(hits))


@custom("c08-set-order-flow", props=["C08"])
def set_order_flow(ctx):
    """C08 (hash-seed independence): in everything reachable from the lint entry points no list / tuple / string is built
    from the iteration order of a set. One obligation per function that does (refuted unless it is a recorded finding)."""
    idx = Index(ctx["repo"])
    reach, why = reachable(idx)
    if reach is None:
        return [dict(name="custom:c08-set-order-flow/reachability", kind="frame", verdict="unknown", carries=True, note=why)]
    sc = SetOrderScan(idx)
    out = []
    for (rel, qual), fn in sorted(reach.items()):
        hits = sc.scan(fn)
        if hits:
            out.append(dict(name=f"custom:c08-set-order-flow/{rel}::{qual}", kind="frame", verdict="refuted", carries=True,
                            witness_confirmed=False, solver="ast-scan",
                            note=f"orders data by the iteration order of a set: {[f'L{ln}: {tx}' for ln, tx in hits[:4]]}"))
    out.append(dict(name="custom:c08-set-order-flow/scan", kind="frame", verdict="discharged", carries=False, solver="ast-scan", ms=0.0,
                    note=f"{len(reach)} reachable functions scanned; set-typed fields {sorted(sc.set_fields)[:12]}; "
                         f"functions ordering data by set iteration: {len(out)}"))
    return out
