"""C08 -- results depend only on current contents and config: the cross-file rules' representation invariant.

Clean(rule) = the rule holds no cross-file evidence and no content cache. __init__ establishes it (structural check
c08-init-clean in contracts/c08_frames.py), check() may leave it (evidence of THIS run), finalize() must re-establish
it -- otherwise a long-lived Linter reports, on its next call, things it saw in an earlier one (DRYRule.finalize did not,
until the fix recorded in known_findings.json under C08-dry-finalize-keeps-evidence)."""
from pyvc import api as _api
from pyvc.api import contract, lemma, Int, Bool, Str, Dict, SeqOf, Rec, Opt, Opaque, Any, implies, uf
from pyvc.ex_call import EXTERNALS
from pyvc.ty import VNone
from contracts._common import ViolationT, PathT
from contracts.c14_collect import ParserT

DRY = "src/linters/dry/linter.py::"
DRYVG = "src/linters/dry/violation_generator.py::"
DRYII = "src/linters/dry/inline_ignore.py::"
STR = "src/linters/stringly_typed/linter.py::"
STRVG = "src/linters/stringly_typed/violation_generator.py::"
IG = "src/linter_config/ignore.py::"
Viols = SeqOf(ViolationT)

# ------------------------------------------------------------------ abstract state of the two cross-file rules
StrStorageT = Opaque("StringlyStorage")
FileAnalyzerT = Opaque("FileAnalyzer")
ConstEntryT = Opaque("ConstantEntry")            # (Path, ConstantInfo)
try:
    # the DRY report pipeline is C03's (contracts/c03_report.py, verified): use its record types and its contract
    from contracts.c03_report import StorageT as DupStorageT, IgnoreCtxT, GeneratorT as DryVGT
    from contracts.c05_config import DRYConfigT
    from contracts.c04_checkers import InlineParserT
    C03_AVAILABLE = True
except BaseException:  # noqa
    C03_AVAILABLE = False
    DupStorageT = Opaque("DuplicateStorage")     # sqlite store of code blocks: THE cross-file evidence
    DRYConfigT = Rec("DRYConfig", cls="src/linters/dry/config.py::DRYConfig", detect_duplicate_constants=Bool,
                     min_constant_occurrences=Int)
    InlineParserT = Rec("InlineIgnoreParser", cls=DRYII + "InlineIgnoreParser", _ignore_ranges=Dict)
    DryVGT = Rec("ViolationGenerator", cls=DRYVG + "ViolationGenerator")
    IgnoreCtxT = Rec("IgnoreContext", cls=DRYVG + "IgnoreContext", inline_ignore=InlineParserT, shared_parser=ParserT,
                     file_contents=Dict)
StrConfigT = Rec("StringlyTypedConfig", cls="src/linters/stringly_typed/config.py::StringlyTypedConfig", enabled=Bool)
CVBuilderT = Rec("ConstantViolationBuilder", cls="src/linters/dry/constant_violation_builder.py::ConstantViolationBuilder",
                 min_occurrences=Int)
DryHelpersT = Rec("DRYComponents", cls=DRY + "DRYComponents", violation_generator=DryVGT, inline_ignore=InlineParserT,
                  constant_violation_builder=CVBuilderT)
DRYRuleT = Rec("DRYRule", cls=DRY + "DRYRule", _storage=Opt(DupStorageT), _initialized=Bool, _config=Opt(DRYConfigT),
               _file_analyzer=Opt(FileAnalyzerT), _project_root=Opt(PathT), _constants=SeqOf(ConstEntryT),
               _file_contents=Dict, _helpers=DryHelpersT)
StrVGT = Rec("ViolationGenerator", cls=STRVG + "ViolationGenerator")
StrHelpersT = Rec("StringlyTypedComponents", cls=STR + "StringlyTypedComponents", violation_generator=StrVGT)
StrRuleT = Rec("StringlyTypedRule", cls=STR + "StringlyTypedRule", _storage=Opt(StrStorageT), _initialized=Bool,
               _config=Opt(StrConfigT), _helpers=StrHelpersT)



def _x_storage_close(ex, args, kwargs, lineno):
    """StringlyTypedStorage.close(): closes the sqlite connection / tempfile; no value, no modelled state."""
    return VNone()


EXTERNALS.setdefault("StringlyStorage.close", _x_storage_close)


# ------------------------------------------------------------------ trusted callees (what the evidence yields is C03/C04)
@contract(IG + "IgnoreDirectiveParser.__init__", props=["C08", "C14"], types=dict(self=ParserT, project_root=Opt(PathT)),
          modifies=["self.project_root", "self.repo_patterns", "self._ignore_cache"],
          assumed="reads .thailintignore / .thailint.yaml below the root (file I/O, yaml); fields initialised, memo empty")
class IgnoreParserInit:
    def ensures(self, project_root):
        return implies(project_root is not None, self.project_root == project_root)


class DryGenerateViolationsStandIn:
    """Only registered while contracts/c03_report.py (owner of this target, verified pipeline contract) is unavailable."""
    def ensures(result):
        return True


if not C03_AVAILABLE and DRYVG + "ViolationGenerator.generate_violations" not in _api.REGISTRY:
    contract(DRYVG + "ViolationGenerator.generate_violations", props=["C08"],
             types=dict(self=DryVGT, storage=DupStorageT, rule_id=Str, config=DRYConfigT, ignore_ctx=IgnoreCtxT), returns=Viols,
             raises=["OSError"],
             assumed="stand-in while contracts/c03_report.py is unavailable: a function of the stored evidence that does not "
                     "modify the rule")(DryGenerateViolationsStandIn)


@contract(DRY + "_generate_constant_violations", props=["C08"],
          types=dict(constants=SeqOf(ConstEntryT), config=DRYConfigT, helpers=DryHelpersT, rule_id=Str), returns=Viols,
          modifies=["helpers.constant_violation_builder.min_occurrences"],
          assumed="duplicate-constant grouping (C03's business); sets the builder's threshold from the config")
class DryGenerateConstantViolations:
    def ensures(result):
        return True


@contract(DRY + "_filter_ignored_violations", props=["C08"],
          types=dict(violations=Viols, ignore_parser=ParserT, file_contents=Dict), returns=Viols,
          modifies=["ignore_parser._ignore_cache"],
          assumed="suppression filter over the generated violations (C04's business)")
class DryFilterIgnoredViolations:
    def ensures(result):
        return True


@contract(DRYII + "InlineIgnoreParser.clear", props=["C08", "C12", "C13", "C19"], types=dict(self=InlineParserT), modifies=["self._ignore_ranges"])
class InlineIgnoreClear:
    def ensures(self):
        return self._ignore_ranges == {}


@contract(STRVG + "ViolationGenerator.generate_violations", props=["C08"],
          types=dict(self=StrVGT, storage=StrStorageT, rule_id=Str, config=StrConfigT), returns=Viols,
          assumed="stringly-typed cross-file grouping (not part of C08): a function of the stored evidence")
class StrGenerateViolations:
    def ensures(result):
        return True


@contract(DRY + "DRYRule.rule_id", props=["C08", "C15"], types=dict(self=DRYRuleT), returns=Str)
class DryRuleId:
    def value(self):
        return "dry.duplicate-code"


@contract(STR + "StringlyTypedRule.rule_id", props=["C08", "C15"], types=dict(self=StrRuleT), returns=Str)
class StringlyRuleId:
    def value(self):
        return "stringly-typed.repeated-validation"


# ------------------------------------------------------------------ Clean
def dry_clean(r):
    """DRYRule holds no cross-file evidence and no content cache (what __init__ establishes)."""
    return r._storage is None and not r._initialized and r._config is None and r._file_analyzer is None \
        and r._project_root is None and r._constants == [] and r._file_contents == {}


def str_clean(r):
    return r._storage is None and not r._initialized and r._config is None


@contract(DRY + "DRYRule.finalize", props=["C08", "C12", "C13", "C19"], types=dict(self=DRYRuleT, violations=Viols), returns=Viols, raises=["OSError"],
          modifies=["self._constants", "self._file_contents", "self._helpers.inline_ignore._ignore_ranges",
                    "self._helpers.constant_violation_builder.min_occurrences",
                    "self._storage", "self._file_analyzer", "self._config", "self._project_root", "self._initialized"])
class DryFinalize:
    def ensures_clean_after_finalize(self, old):
        # C08: nothing seen in an earlier call is reported again => finalize() re-establishes Clean
        # (holds since the fix recorded in known_findings.json: C08-dry-finalize-keeps-evidence)
        return implies(old.self._storage is not None and old.self._config is not None, dry_clean(self))

    def ensures_inline_ignores_cleared(self, old):
        return implies(old.self._storage is not None and old.self._config is not None,
                       self._helpers.inline_ignore._ignore_ranges == {})

    def ensures_nothing_collected_nothing_changed(self, result, old):
        # a rule that collected nothing reports nothing and is left exactly as it was
        return implies(old.self._storage is None or old.self._config is None,
                       result == [] and self._storage == old.self._storage and self._config == old.self._config
                       and self._initialized == old.self._initialized and self._constants == old.self._constants
                       and self._file_contents == old.self._file_contents)


@contract(STR + "StringlyTypedRule.finalize", props=["C08", "C12", "C13", "C19"], types=dict(self=StrRuleT, violations=Viols),
          returns=Viols, modifies=["self._storage", "self._config", "self._initialized"])
class StringlyFinalize:
    def ensures_clean_after_finalize(self, old):
        return implies(old.self._storage is not None and old.self._config is not None, str_clean(self))

    def ensures_nothing_collected_nothing_reported(self, result, old):
        return implies(old.self._storage is None or old.self._config is None, result == [])
