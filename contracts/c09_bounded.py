"""C09 -- BOUNDED differential checks at the property's observation point (never counted as proved).

The same small project is linted (a) checked out below two different parent directories, one of which is named like a
repository ignore pattern of the project (`vendor/`), with absolute paths; (b) from inside the project with absolute
vs. relative spellings of its files, with the project root inferred from a RELATIVELY spelled --config. Results must
agree up to the spelling of the file path. The scenarios deliberately avoid the recorded C09 findings (parents called
build/dist/tests/test_*, working directories below the root), which are refuted by the lemmas of
contracts/c09_path_predicates.py; what is checked here is that nothing ELSE depends on location or spelling."""
from pyvc.api import custom

_BODY = "def planted(x):\n    return x * 3.14159 + 4242\n"


def _make_project(root):
    import os
    for rel in ("src/a.py", "src/generated/g.py", "src/pkg/b.py", "lib/vendor/v.py", "top.py"):
        p = os.path.join(root, rel)
        os.makedirs(os.path.dirname(p), exist_ok=True)
        with open(p, "w", encoding="utf-8") as fh:
            fh.write(_BODY)
    with open(os.path.join(root, ".thailintignore"), "w", encoding="utf-8") as fh:
        fh.write("# generated code and vendored code\nsrc/generated/*\nvendor/\n")
    with open(os.path.join(root, ".thailint.yaml"), "w", encoding="utf-8") as fh:
        fh.write("magic-numbers:\n  allowed_numbers: [0, 1]\n")


def _rel_key(vs, root):
    import collections
    import os
    c = collections.Counter()
    for v in vs:
        fp = v.file_path if os.path.isabs(v.file_path) else os.path.join(os.getcwd(), v.file_path)
        c[(v.rule_id, os.path.relpath(os.path.realpath(fp), os.path.realpath(root)), v.line)] += 1
    return c


@custom("c09-location-spelling-bounded", props=["C09"])
def location_spelling_bounded(ctx):
    import os
    import pathlib
    import shutil
    import sys
    import tempfile
    name = "custom:c09-location-spelling-bounded/same-project-two-locations-two-spellings"
    from pyvc import native as _native
    _native._ensure_repo_on_path()  # `import src` must be the tree under verification ($VERIF_REPO), not an installed copy
    base = tempfile.mkdtemp(prefix="c09loc_")
    cwd0 = os.getcwd()
    cases = 0

    def bad(what, witness):
        return [dict(name=name, kind="bounded", verdict="refuted", carries=True, tool="native differential runs", cases=cases,
                     budget="1 project x 2 locations x 2 spellings", witness_confirmed=True, witness=witness,
                     note=f"{what}: {witness}"[:900])]
    try:
        try:
            from loguru import logger as _lg
            _lg.remove()
        except BaseException:  # noqa
            pass
        from src.cli.utils import _infer_root_from_config
        from src.linter_config.ignore import clear_ignore_parser_cache
        from src.orchestrator.core import Orchestrator
        results = {}
        for parent in ("plain", "vendor", "work space"):
            root = os.path.join(base, parent, "proj")
            os.makedirs(root)
            _make_project(root)
            clear_ignore_parser_cache()
            o = Orchestrator(project_root=pathlib.Path(root))
            results[parent] = _rel_key(o.lint_directory(pathlib.Path(root)), root)
            cases += 1
            clear_ignore_parser_cache()
            o = Orchestrator(project_root=pathlib.Path(root))
            files = [pathlib.Path(root) / r for r in ("src/a.py", "src/generated/g.py", "src/pkg/b.py", "lib/vendor/v.py", "top.py")]
            per_file = _rel_key([v for f in files for v in o.lint_file(f)], root)
            cases += 1
            if per_file != results[parent]:
                return bad("explicit absolute files differ from the directory run", {"parent": parent,
                           "dir_only": sorted(map(str, (results[parent] - per_file).keys())),
                           "files_only": sorted(map(str, (per_file - results[parent]).keys()))})
        want = {("src/a.py"), ("src/pkg/b.py"), ("top.py")}
        got = {k[1] for k in results["plain"]}
        if got != want:
            return [dict(name=name, kind="bounded", verdict="unknown", carries=True, tool="native differential runs", cases=cases,
                         note=f"baseline project does not behave as designed: violations in {sorted(got)}, expected {sorted(want)}")]
        for parent in ("vendor", "work space"):
            if results[parent] != results["plain"]:
                return bad("the same project reports different violations depending on the directory it lives in",
                           {"parent_a": "plain", "parent_b": parent,
                            "only_in_plain": sorted(map(str, (results['plain'] - results[parent]).keys())),
                            f"only_in_{parent}": sorted(map(str, (results[parent] - results['plain']).keys()))})
        # (b) spelling, from inside the project, project root inferred from a relatively spelled --config
        root = os.path.join(base, "plain", "proj")
        os.chdir(root)
        clear_ignore_parser_cache()
        inferred = _infer_root_from_config(".thailint.yaml", False)
        rels = ["src/a.py", "src/generated/g.py", "src/pkg/b.py", "lib/vendor/v.py", "top.py"]
        o = Orchestrator(project_root=inferred)
        abs_run = _rel_key([v for r in rels for v in o.lint_file(pathlib.Path(root) / r)], root)
        clear_ignore_parser_cache()
        o = Orchestrator(project_root=_infer_root_from_config(".thailint.yaml", False))
        rel_run = _rel_key([v for r in rels for v in o.lint_file(pathlib.Path(r))], root)
        cases += 2
        if abs_run != rel_run or abs_run != results["plain"]:
            return bad("absolute and relative spellings of the same files (root inferred from `--config .thailint.yaml`) disagree",
                       {"inferred_root": str(inferred), "absolute_only": sorted(map(str, (abs_run - rel_run).keys())),
                        "relative_only": sorted(map(str, (rel_run - abs_run).keys())),
                        "directory_baseline": sorted(map(str, results['plain'].keys()))})
        # (a') a project directory whose NAME contains dots, given itself as the target (absolute, and relative from its
        # parent), through the CLI plumbing with auto-detected root: same violations as anywhere else
        from src.cli.utils import execute_linting_on_paths, get_or_detect_project_root, setup_base_orchestrator
        for dotted in ("my.site-1.2", "thai-lint-0.15", "v2.final"):
            droot = os.path.join(base, "releases", dotted)
            os.makedirs(droot)
            _make_project(droot)
            for cwd, target in ((base, pathlib.Path(droot)), (os.path.join(base, "releases"), pathlib.Path(dotted)),
                                (droot, pathlib.Path("."))):
                os.chdir(cwd)
                clear_ignore_parser_cache()
                det = get_or_detect_project_root([target], None)
                cases += 1
                if os.path.realpath(str(det)) != os.path.realpath(droot):
                    return bad("project-root detection takes a dotted directory name for a file",
                               {"cwd": cwd, "target": str(target), "detected": str(det), "expected": droot})
                if cwd not in (base, droot):
                    continue  # relative spelling from a directory that is not the root: recorded finding C09-ignore-relative-spelling
                o = setup_base_orchestrator([target], None, False)
                run = _rel_key(execute_linting_on_paths(o, [target], True), droot)
                cases += 1
                if run != results["plain"]:
                    return bad("the same project under a dotted directory name reports different violations",
                               {"directory": dotted, "cwd": cwd, "target": str(target),
                                "only_here": sorted(map(str, (run - results['plain']).keys()))[:6],
                                "only_in_plain": sorted(map(str, (results['plain'] - run).keys()))[:6]})
            os.chdir(cwd0)
        # (a'') project root AND target spelled relative to the working directory (run from the project's parent)
        os.chdir(os.path.join(base, "plain"))
        clear_ignore_parser_cache()
        rel = _rel_key(Orchestrator(project_root=pathlib.Path("proj")).lint_directory(pathlib.Path("proj")), os.path.join(base, "plain", "proj"))
        cases += 1
        if rel != results["plain"]:
            return bad("a relatively spelled project root (with equally spelled targets) gives different violations",
                       {"cwd": "the project's parent", "project_root": "proj", "target": "proj",
                        "only_relative": sorted(map(str, (rel - results['plain']).keys()))[:6],
                        "only_absolute": sorted(map(str, (results['plain'] - rel).keys()))[:6]})
        os.chdir(cwd0)
        # (d) one process, two projects: lint A (its .thailintignore says vendor/), then chdir into B and lint `.` with a
        # root-less Orchestrator() -- B must be judged by B's own patterns (none), exactly as a fresh process does
        import json
        import subprocess
        pa, pb = os.path.join(base, "seqA"), os.path.join(base, "seqB")
        for pth in (pa, pb):
            os.makedirs(os.path.join(pth, "vendor"))
            for rel in ("vendor/mod.py", "app.py"):
                pathlib.Path(pth, rel).write_text(_BODY, encoding="utf-8")
        pathlib.Path(pa, ".thailintignore").write_text("vendor/\n", encoding="utf-8")
        clear_ignore_parser_cache()
        os.chdir(pa)
        Orchestrator(project_root=pathlib.Path(pa)).lint_directory(pathlib.Path(pa))
        os.chdir(pb)
        here = _rel_key(Orchestrator().lint_directory(pathlib.Path(".")), pb)
        code = ("import sys, json, os; sys.path.insert(0, sys.argv[1]); from pathlib import Path; "
                "from src.orchestrator.core import Orchestrator; vs = Orchestrator().lint_directory(Path('.')); "
                "print(json.dumps(sorted([v.rule_id, os.path.relpath(os.path.realpath(v.file_path), os.path.realpath('.')), v.line] for v in vs)))")
        pr = subprocess.run([sys.executable, "-c", code, _native.repo_root()], capture_output=True, text=True, timeout=120, cwd=pb)
        if pr.returncode != 0:
            raise RuntimeError("sub-process failed: " + pr.stderr[-300:])
        fresh = [tuple(x) for x in json.loads(pr.stdout.strip().splitlines()[-1])]
        mine = sorted(k for k, c in here.items() for _ in range(c))
        cases += 2
        if mine != sorted(fresh):
            return bad("after linting project A, a root-less Orchestrator() in project B's directory is filtered by A's ignore patterns",
                       {"sequence": ["lint A (.thailintignore: vendor/)", "chdir B", "Orchestrator().lint_directory('.')"],
                        "same_process_only": sorted(map(str, set(mine) - set(fresh)))[:6],
                        "fresh_process_only": sorted(map(str, set(fresh) - set(mine)))[:6]})
        os.chdir(cwd0)
        # (e) DRY with an inline `# dry: ignore-block` suppression: spellings with an interior `..` (tools/../pkg) agree with
        # the plain spelling (stored and looked-up keys of per-file data must be the same spelling)
        pd = os.path.join(base, "dryproj")
        os.makedirs(os.path.join(pd, "pkg"))
        os.makedirs(os.path.join(pd, "tools"))
        block = ("    total = 0\n    for item in items:\n        if item.value > threshold:\n            total += item.value * factor\n"
                 "        else:\n            total -= item.value / factor\n    result = transform(total, mode=\"fast\")\n"
                 "    return finalize_result(result, items)\n")
        pathlib.Path(pd, "pkg", "alpha.py").write_text("def first(items, threshold, factor):\n" + block, encoding="utf-8")
        pathlib.Path(pd, "pkg", "beta.py").write_text("# dry: ignore-block\ndef second(items, threshold, factor):\n" + block, encoding="utf-8")
        pathlib.Path(pd, "pkg", "gamma.py").write_text("def third(items, threshold, factor):\n" + block, encoding="utf-8")
        dcfg = {"dry": {"enabled": True, "min_duplicate_lines": 3, "storage_mode": "memory"}}
        os.chdir(pd)
        runs = {}
        for spelling in ("pkg", "./pkg", "tools/../pkg", os.path.join(pd, "pkg"), os.path.join(pd, "tools", "..", "pkg")):
            clear_ignore_parser_cache()
            o = Orchestrator(project_root=pathlib.Path(pd), config=json.loads(json.dumps(dcfg)))
            runs[spelling] = _rel_key([v for v in o.lint_directory(pathlib.Path(spelling)) if v.rule_id.startswith("dry")], pd)
            cases += 1
        if not runs["pkg"] or any(k[1].endswith("beta.py") for k in runs["pkg"]):
            raise RuntimeError(f"DRY scenario too weak: baseline {sorted(runs['pkg'])}")
        for spelling, r in runs.items():
            if r != runs["pkg"]:
                return bad("a target spelled with an interior `..` reports different DRY violations (inline suppression lost)",
                           {"spelling": spelling, "baseline": "pkg", "only_here": sorted(map(str, (r - runs['pkg']).keys()))[:6],
                            "only_baseline": sorted(map(str, (runs['pkg'] - r).keys()))[:6]})
        os.chdir(cwd0)
        # (c) project-root detection: every spelling of a target inside the project detects the same root
        real_root = os.path.realpath(root)
        os.chdir(os.path.join(root, "src"))
        spellings = [pathlib.Path(root) / "src" / "a.py", pathlib.Path("a.py"), pathlib.Path("pkg/b.py"), pathlib.Path("."),
                     pathlib.Path(root) / "src" / "pkg", pathlib.Path("../top.py"), pathlib.Path("../src/generated/g.py")]
        for sp in spellings:
            det = get_or_detect_project_root([sp], None)
            cases += 1
            if os.path.realpath(str(det)) != real_root or not os.path.isabs(str(det)):
                return bad("project-root detection depends on how the target is spelled",
                           {"cwd": "proj/src", "target": str(sp), "detected": str(det), "expected": real_root})
    except BaseException as e:  # noqa
        import traceback
        return [dict(name=name, kind="bounded", verdict="unknown", carries=True, tool="native differential runs", cases=cases,
                     note=f"harness error: {e!r} {traceback.format_exc()[-300:]}"[:600])]
    finally:
        os.chdir(cwd0)
        shutil.rmtree(base, ignore_errors=True)
        try:
            from src.linter_config.ignore import clear_ignore_parser_cache as _c
            _c()
        except BaseException:  # noqa
            pass
    return [dict(name=name, kind="bounded", verdict="passed", carries=True, tool="native differential runs (tempfile.mkdtemp, removed)",
                 budget="1 project x 3 locations (one named like its own `vendor/` ignore pattern, one with a space) x directory / "
                        "explicit absolute files, + absolute vs relative spelling with a relatively spelled --config",
                 cases=cases, note=f"{cases} runs agree up to path spelling")]


# =================================================================== key coherence of per-file tables (structural)
@custom("c09-path-keyed-tables", props=["C09", "C04"])
def path_keyed_tables(ctx):
    """Per-file data is kept in dict attributes keyed by a path spelling (inline-ignore ranges, cached file contents, memo of
    ignore verdicts, ...). The key under which an entry is STORED and the key under which it is LOOKED UP must be the same
    function of the path: every key expression built from a path-like parameter must be `str(p)` / `str(Path(p))` / `p`
    (pathlib's spelling, which keeps `..`, and which is what violations carry in file_path). Any other normaliser
    (os.path.normpath / abspath / realpath, .resolve(), .as_posix(), lower() ...) on one side only breaks the coherence
    for some spellings. One obligation per table whose keys are not all of the allowed shapes."""
    import ast
    from contracts.c08_frames import Index, _chain
    idx = Index(ctx["repo"])
    allowed = {"str(P)", "str(Path(P))", "P"}
    tables, written = {}, set()
    for ck, cd in idx.classes.items():
        for fn in [f for f in cd.body if isinstance(f, (ast.FunctionDef, ast.AsyncFunctionDef))]:
            params = {a.arg for a in fn.args.args + fn.args.kwonlyargs if "path" in a.arg.lower() or a.arg in ("file", "filename")}
            if not params:
                continue
            local = {}
            for n in ast.walk(fn):  # one level of local aliases: key = <expr over a path parameter>
                if isinstance(n, ast.Assign) and len(n.targets) == 1 and isinstance(n.targets[0], ast.Name):
                    if any(isinstance(x, ast.Name) and x.id in params for x in ast.walk(n.value)):
                        local[n.targets[0].id] = n.value

            def shape(e):
                if isinstance(e, ast.Name) and e.id in local:
                    e = local[e.id]
                if not any(isinstance(x, ast.Name) and x.id in params for x in ast.walk(e)):
                    return None
                txt = ast.unparse(e)
                for p_ in sorted(params, key=len, reverse=True):
                    txt = txt.replace(p_, "P")
                return txt
            for n in ast.walk(fn):
                key = tab = None
                if isinstance(n, ast.Subscript):
                    c = _chain(n.value)
                    if c and c[0] == "self" and len(c) == 2:
                        tab, key = c[1], n.slice
                elif isinstance(n, ast.Call) and isinstance(n.func, ast.Attribute) and n.func.attr in ("get", "pop", "setdefault") and n.args:
                    c = _chain(n.func.value)
                    if c and c[0] == "self" and len(c) == 2:
                        tab, key = c[1], n.args[0]
                elif isinstance(n, ast.Compare) and len(n.ops) == 1 and isinstance(n.ops[0], (ast.In, ast.NotIn)):
                    c = _chain(n.comparators[0])
                    if c and c[0] == "self" and len(c) == 2:
                        tab, key = c[1], n.left
                if tab is None:
                    continue
                sh = shape(key)
                if sh is not None:
                    tables.setdefault((ck, tab), []).append((sh, f"{fn.name}:{n.lineno}"))
                    if (isinstance(n, ast.Subscript) and isinstance(n.ctx, (ast.Store, ast.Del))) or \
                            (isinstance(n, ast.Call) and n.func.attr in ("setdefault", "pop")):
                        written.add((ck, tab))
    out = []
    for (ck, tab), uses in sorted(tables.items()):
        if (ck, tab) not in written:
            continue  # a constant lookup table (never stored into through a path key) is not per-file data
        bad = sorted({(sh, where) for sh, where in uses if sh not in allowed})
        name = f"custom:c09-path-keyed-tables/{ck[0]}::{ck[1]}.{tab}"
        if bad:
            out.append(dict(name=name, kind="frame", verdict="refuted", carries=True, witness_confirmed=False, solver="ast-scan",
                            note=f"path-keyed table: keys {sorted({sh for sh, _ in uses})}; not pathlib's spelling: {bad[:4]}"))
        else:
            out.append(dict(name=name, kind="frame", verdict="discharged", carries=True, solver="ast-scan", ms=0.0,
                            note=f"all keys are pathlib's spelling of the path: {sorted({sh for sh, _ in uses})} at {[w for _, w in uses][:6]}"))
    if not out:
        out.append(dict(name="custom:c09-path-keyed-tables/none", kind="frame", verdict="unknown", carries=True,
                        note="no path-keyed table found: the scan lost its subject"))
    return out


# =================================================================== parallel worker runs from another working directory
# (the checker's own workers are daemonic, so the process pool is exercised in a sub-process)
_PARALLEL_FROM_ELSEWHERE = r'''
import json, os, sys
sys.path.insert(0, sys.argv[1])
try:
    from loguru import logger; logger.remove()
except Exception:
    pass
from pathlib import Path
from src.orchestrator.core import Orchestrator
root, spell = sys.argv[2], sys.argv[3]
root_arg = Path(root) if spell == "absolute" else Path(os.path.relpath(root))
def key(vs):
    return sorted([v.rule_id, os.path.relpath(os.path.realpath(v.file_path), os.path.realpath(root)), v.line] for v in vs)
seq = key(Orchestrator(project_root=root_arg).lint_directory(root_arg, recursive=True))
par = key(Orchestrator(project_root=root_arg).lint_directory_parallel(root_arg, recursive=True, max_workers=2))
print(json.dumps({"sequential": seq, "parallel": par}))
'''


@custom("c09-parallel-cwd-bounded", props=["C09", "C14", "C04"])
def parallel_cwd_bounded(ctx):
    """BOUNDED: a project with a root-anchored repository ignore pattern and enough files to leave the sequential fallback
    is linted with lint_directory_parallel (real process pool, max_workers=2) from a working directory that is NOT the
    project root, with the root spelled absolutely and relatively; the workers must judge every file exactly like the
    sequential run (same project root => same repository ignores, same project-relative paths)."""
    import json
    import os
    import shutil
    import subprocess
    import sys
    import tempfile
    name = "custom:c09-parallel-cwd-bounded/workers-keep-the-project-root"
    from pyvc import native as _native
    _native._ensure_repo_on_path()
    base = os.path.realpath(tempfile.mkdtemp(prefix="c09par_"))
    cases = 0
    try:
        root = os.path.join(base, "work", "proj")
        os.makedirs(root)
        _make_project(root)
        for i in range(6):
            with open(os.path.join(root, "src", f"m{i}.py"), "w", encoding="utf-8") as fh:
                fh.write(_BODY)
            with open(os.path.join(root, "src", "generated", f"g{i}.py"), "w", encoding="utf-8") as fh:
                fh.write(_BODY)
        for cwd, spell in ((base, "absolute"), (os.path.join(base, "work"), "relative"), (root, "relative")):
            pr = subprocess.run([sys.executable, "-c", _PARALLEL_FROM_ELSEWHERE, _native.repo_root(), root, spell],
                                capture_output=True, text=True, timeout=300, cwd=cwd)
            if pr.returncode != 0:
                raise RuntimeError("sub-process failed: " + pr.stderr[-400:])
            out = json.loads(pr.stdout.strip().splitlines()[-1])
            cases += 2
            gen_reported = [k for k in out["sequential"] if "generated" in k[1]]
            if spell == "absolute" and (gen_reported or not out["sequential"]):
                raise RuntimeError(f"scenario too weak: sequential baseline {out['sequential'][:4]}")
            if out["parallel"] != out["sequential"]:
                w = {"cwd": os.path.relpath(cwd, base) or ".", "root_spelling": spell,
                     "parallel_only": [k for k in out["parallel"] if k not in out["sequential"]][:5],
                     "sequential_only": [k for k in out["sequential"] if k not in out["parallel"]][:5]}
                return [dict(name=name, kind="bounded", verdict="refuted", carries=True, tool="sub-process with a real process pool",
                             cases=cases, budget="1 project, 3 working directories", witness_confirmed=True, witness=w,
                             note=f"parallel workers judge the files differently from the sequential run: {w}"[:900])]
    except BaseException as e:  # noqa
        return [dict(name=name, kind="bounded", verdict="unknown", carries=True, tool="sub-process", cases=cases,
                     note=f"harness error {e!r}"[:400])]
    finally:
        shutil.rmtree(base, ignore_errors=True)
    return [dict(name=name, kind="bounded", verdict="passed", carries=True, tool="sub-process with a real process pool (max_workers=2)",
                 budget="1 project (17 files) x 3 working directories / root spellings", cases=cases,
                 note="parallel == sequential from every working directory")]


# C09 / C14 / C04 depend on the worker building ITS orchestrator for the parent's project root: contracts/c07_parallel.py
# states it (result == fresh_lint(file, root, config)); run that unit under these properties too
try:
    from pyvc import api as _api
    import contracts.c07_parallel  # noqa: F401
    for _t in ("src/orchestrator/core.py::_lint_file_worker",):
        _c = _api.REGISTRY.get(_t)
        if _c is not None:
            for _p in ("C09", "C14", "C04"):
                if _p not in _c.props:
                    _c.props.append(_p)
except BaseException:  # noqa
    pass
