"""C09 -- results do not depend on how paths are spelled or where the project lives.

Every path predicate of the tool gets the lemma "depends only on the project-relative part":
    f(prefix ++ rel) == f(rel)          (components)      /      f(pre + "/" + rel) == f(rel)     (spelling)
for all directory prefixes leading to the project. Predicates that look at `Path.parts` are stated over component
sequences, predicates that look at `str(path)` over strings (str(p / rel) == str(p) + "/" + str(rel) for a relative
`rel`; trusted pathlib fact, checked natively on replay through the normalised-spelling assertions in as_path)."""
from pyvc.api import contract, lemma, Int, Bool, Str, Dict, SeqOf, Rec, Opt, Any, implies, call, mk, ih, reveal, uf
from contracts._common import PathT, path_str, path_name
from contracts.c09_paths import (path_parts, path_of_str, path_of_parts, name_suffix, mkpath, comp_ok, rel_ok, prefix_ok,
                                 name_link, path_is_abs)
from contracts.c14_collect import (any_excluded, code_excluded_dir, hard_excluded, COMPILED_SUFFIXES, ParserT, ign_fresh,
                                   matches_spec, fn_match, norm_str, path_rel, O)

LU = "src/core/linter_utils.py::"
MN = "src/linters/magic_numbers/linter.py::"
CA = "src/linters/magic_numbers/context_analyzer.py::"
PR = "src/linters/print_statements/linter.py::"
SRP = "src/linters/srp/linter.py::"
DRYV = "src/linters/dry/violation_generator.py::"
STI = "src/linters/stringly_typed/ignore_utils.py::"
SLA = "src/linters/stateless_class/python_analyzer.py::"
FPR = "src/linters/file_placement/path_resolver.py::"
IG = "src/linter_config/ignore.py::"

RUST_DEFAULT_IGNORE = ["examples/", "benches/", "tests/"]  # unwrap-abuse / clone-abuse / blocking-async default `ignore`
TEST_MARKERS = [".test.", ".spec.", "test_", "_test.", "/tests/", "/test/"]


# ------------------------------------------------------------------ spelling helpers
def _spelling_ok_native(s):
    import pathlib
    return len(s) > 0 and str(pathlib.PurePosixPath(s)) == s


# "s is a normalised spelling" (str(Path(s)) == s): uninterpreted in the proofs, exact natively
spelling_ok = uf("spelling_ok", [Str], Bool, concrete=_spelling_ok_native)


def as_path(s):
    """The Path spelled `s`; for a normalised spelling str(Path(s)) == s (trusted; checked natively on replay)."""
    p = path_of_str(s)
    assert implies(spelling_ok(s), path_str(p) == s)
    return p


def loc_ok(pre, rel):
    """`pre` spells a directory leading to the project, `rel` a path inside the project (normalised spellings)."""
    return spelling_ok(pre + "/" + rel) and spelling_ok(rel)


# =================================================================== 1. built-in excluded directories (component-wise)
@lemma(props=["C09"], types=dict(pre=SeqOf(Str), rel=SeqOf(Str)), name="any-excluded-distributes-over-prefix")
def any_excluded_concat(pre, rel):
    """any_excluded(pre ++ rel) == any_excluded(pre) or any_excluded(rel)   (induction on pre)."""
    reveal(any_excluded, pre + rel)
    reveal(any_excluded, pre)
    if len(pre) == 0:
        return any_excluded(pre + rel) == (any_excluded(pre) or any_excluded(rel))
    ih(any_excluded_concat, pre[1:], rel)
    return (pre + rel)[1:] == pre[1:] + rel and any_excluded(pre + rel) == (any_excluded(pre) or any_excluded(rel))


@lemma(props=["C09"], types=dict(d=Str), name="hardcoded-exclusion-ignores-project-location")
def hardcoded_exclusion_location(d):
    """Property text: built-in excluded directories are decided by the path inside the project, never by components
    of the path leading to it. Posed for a project directly below a directory `d` and its file `x`.
    EXPECTED TO FAIL (C09-excluded-name-above-project): _is_hardcoded_excluded scans ALL components."""
    if not comp_ok(d):
        return True
    p = mkpath([d, "x"])
    q = mkpath(["x"])
    name_link(p)
    name_link(q)
    assert name_suffix(path_name(p)) == ""  # the file name "x" has no suffix (checked natively on replay)
    reveal(any_excluded, [d, "x"])
    reveal(any_excluded, ["x"])
    reveal(any_excluded, [])
    return call(O + "_is_hardcoded_excluded", p) == call(O + "_is_hardcoded_excluded", q)


@lemma(props=["C09"], types=dict(pre=SeqOf(Str), rel=SeqOf(Str)), name="hardcoded-exclusion-location-adjusted")
def hardcoded_exclusion_location_adjusted(pre, rel):
    """Finding-adjusted, all locations: the verdict for pre/rel is the verdict for rel OR an excluded name among the
    components leading to the project -- the location can only ADD exclusions, and only through those names."""
    if not (prefix_ok(pre) and rel_ok(rel)):
        return True
    p = mkpath(pre + rel)
    q = mkpath(rel)
    name_link(p)
    name_link(q)
    return any_excluded_concat(pre, rel) and \
        call(O + "_is_hardcoded_excluded", p) == (call(O + "_is_hardcoded_excluded", q) or any_excluded(pre))


# =================================================================== 2. substring predicates on the full spelling
def has_test_marker(s):
    return any(pattern in s for pattern in TEST_MARKERS)


# is_ignored_path: contract in contracts/c11_containment.py (value = any(ignored in file_path for ignored in patterns));
# MagicNumberRule._is_test_file: contracts/c02_magic_numbers.py; PrintStatementRule._is_test_file: contracts/c12_sites.py.
# Those files load after this one: import them first so that their registrations win; fall back to an equivalent local
# contract only if the owner's file is currently broken (the lemmas below need a contract to exist).
from pyvc import api as _api  # noqa: E402
for _m in ("contracts.c11_containment", "contracts.c02_magic_numbers", "contracts.c12_sites"):
    try:
        __import__(_m)
    except BaseException:  # noqa
        pass

class IsIgnoredPathFallback:
    def value(file_path, ignore_patterns):
        return any(ignored in file_path for ignored in ignore_patterns)


class MagicNumbersIsTestFileFallback:
    def value(file_path):
        return has_test_marker(path_str(file_path))


class PrintStatementsIsTestFileFallback:
    def value(file_path):
        return has_test_marker(path_str(file_path))


# (contract classes must be module-level; they are REGISTERED only while the owner's file is unavailable)
if LU + "is_ignored_path" not in _api.REGISTRY:
    contract(LU + "is_ignored_path", props=["C09", "C17"], types=dict(file_path=Str, ignore_patterns=SeqOf(Str)),
             returns=Bool)(IsIgnoredPathFallback)
if MN + "MagicNumberRule._is_test_file" not in _api.REGISTRY:
    contract(MN + "MagicNumberRule._is_test_file", props=["C09"], types=dict(file_path=PathT), returns=Bool)(MagicNumbersIsTestFileFallback)
if PR + "PrintStatementRule._is_test_file" not in _api.REGISTRY:
    contract(PR + "PrintStatementRule._is_test_file", props=["C09"], types=dict(file_path=PathT), returns=Bool)(PrintStatementsIsTestFileFallback)


@lemma(props=["C09"], types=dict(pre=Str), name="rust-default-ignore-ignores-project-location")
def rust_default_ignore_location(pre):
    """unwrap-abuse / clone-abuse / blocking-async default ignore list ["examples/", "benches/", "tests/"], posed for a
    project directly below any directory whose name ends in `tests` (pre + "tests") and its file src/x.rs.
    EXPECTED TO FAIL (C09-substring-ignore-sees-parent-dirs)."""
    if "/" in pre:
        return True
    return call(LU + "is_ignored_path", pre + "tests" + "/src/x.rs", RUST_DEFAULT_IGNORE) == \
        call(LU + "is_ignored_path", "src/x.rs", RUST_DEFAULT_IGNORE)


@lemma(props=["C09"], types=dict(pats=SeqOf(Str), pre=Str, rel=Str), name="substring-ignore-location-adjusted")
def substring_ignore_location_adjusted(pats, pre, rel):
    """Finding-adjusted: the location can only ADD ignores (a pattern occurring in the project-relative part still
    occurs in the full spelling); proved for every pattern list by induction."""
    if len(pats) == 0:
        return not call(LU + "is_ignored_path", rel, pats)
    ih(substring_ignore_location_adjusted, pats[1:], pre, rel)
    return implies(call(LU + "is_ignored_path", rel, pats), call(LU + "is_ignored_path", pre + "/" + rel, pats))


@lemma(props=["C09"], types=dict(pre=Str), name="magic-numbers-test-file-ignores-project-location")
def mn_test_file_location(pre):
    """Posed for a project directly below any directory whose name ends in `test_` (e.g. test_area... / my_test_).
    EXPECTED TO FAIL (C09-test-marker-in-parent-dirs): the TypeScript test-file exemption is a substring test."""
    if "/" in pre or not loc_ok(pre + "test_", "src/x.ts"):
        return True
    return call(MN + "MagicNumberRule._is_test_file", None, as_path(pre + "test_" + "/" + "src/x.ts")) == \
        call(MN + "MagicNumberRule._is_test_file", None, as_path("src/x.ts"))


@lemma(props=["C09"], types=dict(pre=Str), name="print-statements-test-file-ignores-project-location")
def pr_test_file_location(pre):
    """EXPECTED TO FAIL (C09-test-marker-in-parent-dirs-print)."""
    if "/" in pre or not loc_ok(pre + "test_", "src/x.ts"):
        return True
    return call(PR + "PrintStatementRule._is_test_file", None, as_path(pre + "test_" + "/" + "src/x.ts")) == \
        call(PR + "PrintStatementRule._is_test_file", None, as_path("src/x.ts"))


@lemma(props=["C09"], types=dict(pre=Str, rel=Str), name="test-file-location-adjusted")
def test_file_location_adjusted(pre, rel):
    """Finding-adjusted: a test marker inside the project still counts; the location can only ADD exemptions."""
    if not loc_ok(pre, rel):
        return True
    return implies(call(MN + "MagicNumberRule._is_test_file", None, as_path(rel)),
                   call(MN + "MagicNumberRule._is_test_file", None, as_path(pre + "/" + rel)))


@lemma(props=["C09"], types=dict(pre=SeqOf(Str), rel=SeqOf(Str)), name="python-test-file-ignores-project-location")
def py_test_file_location(pre, rel):
    """context_analyzer.is_test_file looks at the file NAME only: independent of the location (holds)."""
    if not (prefix_ok(pre) and rel_ok(rel)):
        return True
    p = mkpath(pre + rel)
    q = mkpath(rel)
    name_link(p)
    name_link(q)
    return call(CA + "is_test_file", p) == call(CA + "is_test_file", q)


CtxLite = Rec("ctx", file_path=PathT)
try:
    from contracts.c16_srp import SRPConfigT  # noqa: E402
except BaseException:  # noqa
    SRPConfigT = Rec("SRPConfig", cls="src/linters/srp/config.py::SRPConfig", pycls="src.linters.srp.config:SRPConfig",
                     max_methods=Int, max_loc=Int, enabled=Bool, check_keywords=Bool, keywords=SeqOf(Str), ignore=SeqOf(Str))


# SRPRule._is_file_ignored: contract in contracts/c16_srp.py (value = any(pattern in str(context.file_path) ...)); local
# equivalent only while that file does not provide it
class SrpIsFileIgnoredFallback:
    def value(context, config):
        return any(pattern in path_str(context.file_path) for pattern in config.ignore)


if SRP + "SRPRule._is_file_ignored" not in _api.REGISTRY:
    contract(SRP + "SRPRule._is_file_ignored", props=["C09", "C16"], types=dict(context=CtxLite, config=SRPConfigT),
             returns=Bool)(SrpIsFileIgnoredFallback)


def srp_config(pat):
    return mk(SRPConfigT, max_methods=7, max_loc=200, enabled=True, check_keywords=True, keywords=[], ignore=[pat])


@lemma(props=["C09"], types=dict(d=Str), name="srp-ignore-ignores-project-location")
def srp_ignore_location(d):
    """srp `ignore: [<d>]`-style patterns are substrings of the full path; posed with the pattern equal to the name of
    the directory above the project. EXPECTED TO FAIL (C09-srp-ignore-sees-parent-dirs)."""
    if not comp_ok(d) or not loc_ok(d, "src/x.py"):
        return True
    return call(SRP + "SRPRule._is_file_ignored", None, mk(CtxLite, file_path=as_path(d + "/" + "src/x.py")), srp_config(d)) == \
        call(SRP + "SRPRule._is_file_ignored", None, mk(CtxLite, file_path=as_path("src/x.py")), srp_config(d))


@contract(DRYV + "ViolationGenerator._is_ignored", props=["C09", "C03"], types=dict(file_path=Str, ignore_patterns=SeqOf(Str)),
          returns=Bool)
class DryIsIgnored:
    def value(file_path, ignore_patterns):
        return any(pattern in norm_str(file_path) for pattern in ignore_patterns)


@lemma(props=["C09"], types=dict(d=Str), name="dry-ignore-ignores-project-location")
def dry_ignore_location(d):
    """Posed with the ignore pattern equal to the name of the directory above the project.
    EXPECTED TO FAIL (C09-dry-ignore-sees-parent-dirs)."""
    if not comp_ok(d) or not loc_ok(d, "src/x.py"):
        return True
    as_path(d + "/" + "src/x.py")
    as_path("src/x.py")
    return call(DRYV + "ViolationGenerator._is_ignored", None, d + "/" + "src/x.py", [d]) == \
        call(DRYV + "ViolationGenerator._is_ignored", None, "src/x.py", [d])


def sti_spec(s, pats):
    return any(fn_match(s, p) or p in s for p in pats)


@contract(STI + "is_ignored", props=["C09"], types=dict(file_path=PathT, ignore_patterns=SeqOf(Str), pattern=Str, path_str=Str),
          returns=Bool)
class StringlyIsIgnored:
    def value(file_path, ignore_patterns):
        return sti_spec(path_str(file_path), ignore_patterns)

    def inv0(file_path, ignore_patterns, rest):
        return sti_spec(path_str(file_path), ignore_patterns) == sti_spec(path_str(file_path), rest)


@lemma(props=["C09"], types=dict(d=Str), name="stringly-ignore-ignores-project-location")
def stringly_ignore_location(d):
    """Posed with the ignore pattern equal to the name of the directory above the project.
    EXPECTED TO FAIL (C09-stringly-ignore-sees-parent-dirs)."""
    if not comp_ok(d) or not loc_ok(d, "src/x.py"):
        return True
    return call(STI + "is_ignored", as_path(d + "/" + "src/x.py"), [d]) == call(STI + "is_ignored", as_path("src/x.py"), [d])


@contract(SLA + "_is_in_tests_directory", props=["C09"], types=dict(path_str=Str), returns=Bool)
class StatelessInTestsDirectory:
    def value(path_str):
        return "/tests/" in path_str or "\\tests\\" in path_str or path_str.startswith("tests/") or path_str.startswith("tests\\")


@lemma(props=["C09"], types=dict(pre=Str), name="stateless-tests-dir-ignores-project-location")
def stateless_tests_dir_location(pre):
    """Posed for a project below /<pre>/tests/ (any pre).
    EXPECTED TO FAIL (C09-stateless-tests-dir-in-parent-dirs)."""
    if not comp_ok(pre):
        return True
    return call(SLA + "_is_in_tests_directory", "/" + pre + "/tests/proj/src/x.py") == call(SLA + "_is_in_tests_directory", "src/x.py")


@lemma(props=["C09"], types=dict(pre=Str, rel=Str, pat=Str, config=SRPConfigT), name="per-linter-ignores-location-adjusted")
def per_linter_ignores_adjusted(pre, rel, pat, config):
    """Finding-adjusted (srp / dry / stringly-typed substring part / stateless-class): an ignore that holds for the project-relative
    spelling still holds for the full spelling; the location can only ADD ignores."""
    if not loc_ok(pre, rel) or len(pat) == 0 or config.ignore != [pat]:
        return True
    as_path(pre + "/" + rel)
    as_path(rel)
    return implies(call(SRP + "SRPRule._is_file_ignored", None, mk(CtxLite, file_path=as_path(rel)), config),
                   call(SRP + "SRPRule._is_file_ignored", None, mk(CtxLite, file_path=as_path(pre + "/" + rel)), config)) \
        and implies(call(DRYV + "ViolationGenerator._is_ignored", None, rel, [pat]),
                    call(DRYV + "ViolationGenerator._is_ignored", None, pre + "/" + rel, [pat])) \
        and implies("/tests/" in rel, call(SLA + "_is_in_tests_directory", pre + "/" + rel)) \
        and implies(pat in rel, call(STI + "is_ignored", as_path(pre + "/" + rel), [pat]))


# =================================================================== 3. repository ignore patterns (.thailintignore / ignore:)
from contracts.c09_paths import str_link, rel_link, abs_link, parts_str  # noqa: E402


@lemma(props=["C09"], types=dict(r1=SeqOf(Str), r2=SeqOf(Str), rel=SeqOf(Str), pats=SeqOf(Str), c1=Dict, c2=Dict),
       name="repo-ignore-ignores-project-location")
def repo_ignore_location(r1, r2, rel, pats, c1, c2):
    """The same project checked out at two places r1, r2: a file given by its path BELOW the project root gets the
    same repository-ignore verdict (is_ignored matches the patterns against the root-relative path). Holds."""
    if not (prefix_ok(r1) and prefix_ok(r2) and rel_ok(rel)):
        return True
    f1 = mkpath(r1 + rel)
    f2 = mkpath(r2 + rel)
    root1 = mkpath(r1)
    root2 = mkpath(r2)
    if path_str(f1) in c1 or path_str(f2) in c2:
        return True  # fresh parsers: no memo entry for the file yet
    rel_link(f1, root1)
    rel_link(f2, root2)
    str_link(path_rel(f1, root1))
    str_link(path_rel(f2, root2))
    a = call(IG + "IgnoreDirectiveParser.is_ignored", mk(ParserT, project_root=root1, repo_patterns=pats, _ignore_cache=c1), f1)
    b = call(IG + "IgnoreDirectiveParser.is_ignored", mk(ParserT, project_root=root2, repo_patterns=pats, _ignore_cache=c2), f2)
    return bool(a) == bool(b)


@lemma(props=["C09"], types=dict(r=Str, s=Str, c1=Dict, c2=Dict), name="repo-ignore-ignores-path-spelling")
def repo_ignore_spelling(r, s, c1, c2):
    """Property text: the same file given as an absolute path or relative to the working directory gets the same
    verdict. Posed for the project /r, the working directory /r/s, the file /r/s/x.py spelled absolutely and as
    `x.py`, and the repository pattern `s/*.py`.
    EXPECTED TO FAIL (C09-ignore-relative-spelling): a relative spelling is not below the (absolute) project root, so
    is_ignored falls back to matching the path AS SPELLED, i.e. relative to the working directory."""
    if not (comp_ok(r) and comp_ok(s)):
        return True
    root = mkpath(["/", r])
    f_abs = mkpath(["/", r, s, "x.py"])
    f_rel = mkpath(["x.py"])
    if path_str(f_abs) in c1 or path_str(f_rel) in c2:
        return True
    rel_link(f_abs, root)
    str_link(path_rel(f_abs, root))
    str_link(f_rel)
    a = call(IG + "IgnoreDirectiveParser.is_ignored", mk(ParserT, project_root=root, repo_patterns=[s + "/*.py"], _ignore_cache=c1), f_abs)
    b = call(IG + "IgnoreDirectiveParser.is_ignored", mk(ParserT, project_root=root, repo_patterns=[s + "/*.py"], _ignore_cache=c2), f_rel)
    return bool(a) == bool(b)


# =================================================================== 4. file-placement: project-relative path
ResolverT = Rec("PathResolver", cls=FPR + "PathResolver", project_root=PathT)


@contract(FPR + "PathResolver.get_relative_path", props=["C09", "C18"], types=dict(self=ResolverT, file_path=PathT), returns=PathT)
class GetRelativePath:
    def value(self, file_path):
        return path_rel(file_path, self.project_root) \
            if path_is_abs(file_path) and is_prefix_parts(path_parts(self.project_root), path_parts(file_path)) else file_path


def is_prefix_parts(a, b):
    return len(a) <= len(b) and b[:len(a)] == a


@lemma(props=["C09"], types=dict(r=Str, s=Str), name="file-placement-relative-path-ignores-spelling")
def fp_relative_path_spelling(r, s):
    """Property text: absolute and working-directory-relative spellings of the same file are judged alike, so the
    project-relative path handed to the placement rules must be the same. Project /r, working directory /r/s, file x.py.
    EXPECTED TO FAIL (C09-file-placement-relative-spelling): a relative input is returned unchanged (cwd-relative)."""
    if not (comp_ok(r) and comp_ok(s)):
        return True
    root = mkpath(["/", r])
    f_abs = mkpath(["/", r, s, "x.py"])
    f_rel = mkpath(["x.py"])
    rel_link(f_abs, root)
    abs_link(f_abs)
    abs_link(f_rel)
    a = call(FPR + "PathResolver.get_relative_path", mk(ResolverT, project_root=root), f_abs)
    b = call(FPR + "PathResolver.get_relative_path", mk(ResolverT, project_root=root), f_rel)
    return path_parts(a) == path_parts(b)


@lemma(props=["C09"], types=dict(r1=SeqOf(Str), r2=SeqOf(Str), rel=SeqOf(Str)), name="file-placement-relative-path-ignores-location")
def fp_relative_path_location(r1, r2, rel):
    """Absolute spellings: the project-relative path does not depend on where the project lives (holds)."""
    if not (prefix_ok(r1) and prefix_ok(r2) and rel_ok(rel) and r1[0] == "/" and r2[0] == "/"):
        return True
    f1 = mkpath(r1 + rel)
    f2 = mkpath(r2 + rel)
    rel_link(f1, mkpath(r1))
    rel_link(f2, mkpath(r2))
    abs_link(f1)
    abs_link(f2)
    a = call(FPR + "PathResolver.get_relative_path", mk(ResolverT, project_root=mkpath(r1)), f1)
    b = call(FPR + "PathResolver.get_relative_path", mk(ResolverT, project_root=mkpath(r2)), f2)
    return path_parts(a) == rel and path_parts(b) == rel


# =================================================================== 5. project root inferred from --config
CU = "src/cli/utils.py::"
from contracts.c09_paths import path_resolve, path_parent, resolve_facts  # noqa: E402


@contract(CU + "_infer_root_from_config", props=["C09", "C05"], types=dict(config_path=Str, verbose=Bool), returns=PathT)
class InferRootFromConfig:
    def reveals(config_path, verbose):
        return resolve_facts(path_of_str(config_path))

    def value(config_path, verbose):
        return path_parent(path_resolve(path_of_str(config_path)))

    def ensures_root_is_absolute(config_path, verbose, result):
        # C09: the project root does not depend on how --config was spelled: it is an ABSOLUTE directory, so that
        # file_path.relative_to(root) works for absolutely spelled targets
        return path_is_abs(result)


# =================================================================== 6. project-root detection (src/utils/project_root.py)
PRJ = "src/utils/project_root.py::"
from pyvc.api import Opaque  # noqa: E402
from pyvc.ex_call import EXTERNALS as _EXT  # noqa: E402
from pyvc.ty import VOpaque as _VOpaque, VList as _VList  # noqa: E402
from contracts.c09_paths import fs_is_file, fs_is_dir, path_div  # noqa: E402
import z3 as _z3  # noqa: E402

CriterionT = Opaque("RootCriterion")
crit_dir = uf("root_criterion_has_dir", [Str], CriterionT)
crit_file = uf("root_criterion_has_file", [Str], CriterionT)
path_parents = uf("path_parents", [PathT], SeqOf(PathT), concrete=lambda p: list(__import__("pathlib").PurePosixPath(p).parents))
path_cwd = uf("path_cwd", [], PathT)
pyproj_find = uf("pyprojroot_find_root", [CriterionT, PathT], Opt(PathT))


def _x_parents(ex, args, kwargs, lineno):
    ex.ufs_used.add("path_parents")
    return _VList(PathT, seq=_z3.Function("uf.path_parents", PathT.sort(), _z3.SeqSort(PathT.sort()))(args[0].t))


def _x_has_dir(ex, args, kwargs, lineno):
    return ex.call_uf("root_criterion_has_dir", list(args))


def _x_has_file(ex, args, kwargs, lineno):
    return ex.call_uf("root_criterion_has_file", list(args))


def _x_cwd(ex, args, kwargs, lineno):
    ex.ufs_used.add("path_cwd")
    return _VOpaque(_z3.Const("uf.path_cwd", PathT.sort()), PathT)


_EXT.setdefault("Path.@parents", _x_parents)
_EXT.setdefault("pyprojroot.has_dir", _x_has_dir)
_EXT.setdefault("pyprojroot.has_file", _x_has_file)
_EXT.setdefault("pathlib.Path.cwd", _x_cwd)


def marked(p):
    """A directory carries a project marker: .git/ directory, .thailint.yaml or pyproject.toml file."""
    return fs_is_dir(path_div(p, ".git")) or fs_is_file(path_div(p, ".thailint.yaml")) or fs_is_file(path_div(p, "pyproject.toml"))


def first_marked(chain: SeqOf(PathT), default: PathT) -> PathT:
    """The NEAREST directory of the chain (the start directory first, then its ancestors outwards) that carries a marker."""
    if len(chain) == 0:
        return default
    if marked(chain[0]):
        return chain[0]
    return first_marked(chain[1:], default)


@contract(PRJ + "_has_marker", props=["C09"], types=dict(path=PathT, marker_name=Str, is_dir=Bool, marker_path=PathT), returns=Bool)
class HasMarker:
    def value(path, marker_name, is_dir):
        return fs_is_dir(path_div(path, marker_name)) if is_dir else fs_is_file(path_div(path, marker_name))


@contract(PRJ + "_check_root_with_markers", props=["C09"], types=dict(path=PathT), returns=Bool)
class CheckRootWithMarkers:
    def value(path):
        return marked(path)


@contract(PRJ + "_find_root_manual", props=["C09"], types=dict(start_path=PathT, current=PathT, parent=PathT), returns=PathT)
class FindRootManual:
    def value(start_path):
        # C09: a function of the RESOLVED start directory and of the markers on its ancestor chain only -- not of how the
        # start path was spelled; the nearest marked directory wins, the start directory itself if none is marked
        return first_marked([path_resolve(start_path)] + path_parents(path_resolve(start_path)), path_resolve(start_path))

    def inv0(start_path, current, rest):
        return current == path_resolve(start_path) and \
            first_marked([current] + path_parents(current), current) == first_marked(rest, current)


@contract(PRJ + "_try_find_with_criterion", props=["C09"], types=dict(criterion=CriterionT, start_path=PathT), returns=Opt(PathT),
          assumed="pyprojroot.find_root(criterion, start): third-party upward marker search (None when it raises)")
class TryFindWithCriterion:
    def value(criterion, start_path):
        return pyproj_find(criterion, start_path)


@contract(PRJ + "_find_root_with_pyprojroot", props=["C09"], types=dict(current=PathT, root=Opt(PathT), criterion=CriterionT),
          returns=PathT)
class FindRootWithPyprojroot:
    def value(current):
        # marker PRIORITY, not proximity: the nearest .git/ anywhere above wins over a nearer .thailint.yaml / pyproject.toml
        return pyproj_find(crit_dir(".git"), current) if pyproj_find(crit_dir(".git"), current) is not None else (
            pyproj_find(crit_file(".thailint.yaml"), current) if pyproj_find(crit_file(".thailint.yaml"), current) is not None else (
                pyproj_find(crit_file("pyproject.toml"), current) if pyproj_find(crit_file("pyproject.toml"), current) is not None
                else current))


def pyproj_root(current):
    return pyproj_find(crit_dir(".git"), current) if pyproj_find(crit_dir(".git"), current) is not None else (
        pyproj_find(crit_file(".thailint.yaml"), current) if pyproj_find(crit_file(".thailint.yaml"), current) is not None else (
            pyproj_find(crit_file("pyproject.toml"), current) if pyproj_find(crit_file("pyproject.toml"), current) is not None
            else current))


@contract(PRJ + "get_project_root", props=["C09"], types=dict(start_path=Opt(PathT), current=PathT), returns=PathT)
class GetProjectRoot:
    def requires(start_path):
        return start_path is not None   # (None means Path.cwd(): the working directory is an input of the run)

    def value(start_path):
        # C09: the detected root is a function of the RESOLVED start directory (and of the markers above it) -- relative
        # and absolute spellings of the same directory give the same root
        return pyproj_root(path_resolve(start_path))


# =================================================================== 7. where the CLI starts the project-root search
@contract(CU + "get_or_detect_project_root~c09", props=["C09", "C05"],
          types=dict(path_objs=SeqOf(PathT), project_root=Opt(PathT), first_path=PathT, search_start=PathT), returns=PathT)
class GetOrDetectProjectRootSearchStart:
    """Second view (contracts/c06_cli.py holds the assumed 'a function of the paths' view for C06): the marker search
    starts AT a directory target and at the parent of a file target -- decided by the file system, not by the spelling of
    the name (a project directory called proj-1.2 or my.site is a directory)."""
    def requires(path_objs, project_root):
        return len(path_objs) > 0   # (no target: Path.cwd(), the working directory is an input of the run)

    def value(path_objs, project_root):
        return project_root if project_root is not None else \
            pyproj_root(path_resolve(path_objs[0] if fs_is_dir(path_objs[0]) else path_parent(path_objs[0])))
