"""Path model shared by C08/C09/C10/C14 (POSIX pathlib, trusted).

A `pathlib.Path` is an opaque value observed through
  path_parts(p)  -- `p.parts`, a sequence of component strings (an absolute path starts with the anchor "/"),
  path_str(p)    -- `str(p)`,
  path_name(p)   -- `p.name`  (last component, "" for the empty path / a bare anchor),
  p.suffix       -- name_suffix(p.name).
`mkpath(parts)` builds the path with exactly these components (natively `PurePosixPath(*parts)`; the fact
parts(mkpath(s)) == s is asserted, i.e. assumed symbolically and CHECKED natively on replay: it holds for
normalised component lists -- no empty / "." components, no separator inside a component).
The facts instantiated by the handlers below are the trusted description of pathlib; they are listed in the evidence."""
import pathlib as _pl

import z3

from pyvc.api import Bool, Int, Opt, SeqOf, Str, uf, implies
from pyvc.ex_call import EXTERNALS
from pyvc.ty import Unsupported, VBool, VList, VOpaque, VStr
from contracts._common import PathT, path_name, path_str

S = z3.StringSort()
SS = z3.SeqSort(S)

path_parts = uf("path_parts", [PathT], SeqOf(Str), concrete=lambda p: list(_pl.PurePosixPath(p).parts))
path_of_parts = uf("path_of_parts", [SeqOf(Str)], PathT, concrete=lambda ps: _pl.PurePosixPath(*ps))
path_of_str = uf("path_of_str", [Str], PathT, concrete=lambda s: _pl.PurePosixPath(s))
name_suffix = uf("name_suffix", [Str], Str, concrete=lambda n: _pl.PurePosixPath(n).suffix if "/" not in n else "")
path_is_abs = uf("path_is_abs", [PathT], Bool, concrete=lambda p: _pl.PurePosixPath(p).is_absolute())
path_div = uf("path_div", [PathT, Str], PathT, concrete=lambda p, s: _pl.PurePosixPath(p) / s)
# file-system state (one uninterpreted snapshot per verification unit: the proofs never assume the FS changes or not)
fs_is_file = uf("fs_is_file", [PathT], Bool, concrete=lambda p: _pl.Path(p).is_file())
fs_is_dir = uf("fs_is_dir", [PathT], Bool, concrete=lambda p: _pl.Path(p).is_dir())
fs_exists = uf("fs_exists", [PathT], Bool, concrete=lambda p: _pl.Path(p).exists())

_parts = z3.Function("uf.path_parts", PathT.sort(), SS)
_name = z3.Function("uf.path_name", PathT.sort(), S)
_pstr = z3.Function("uf.path_str", PathT.sort(), S)
_nsuf = z3.Function("uf.name_suffix", S, S)
_isabs = z3.Function("uf.path_is_abs", PathT.sort(), z3.BoolSort())
_ofstr = z3.Function("uf.path_of_str", S, PathT.sort())
_div = z3.Function("uf.path_div", PathT.sort(), S, PathT.sort())
_rel = z3.Function("uf.path_relative_to", PathT.sort(), PathT.sort(), PathT.sort())
_isfile = z3.Function("uf.fs_is_file", PathT.sort(), z3.BoolSort())
_isdir = z3.Function("uf.fs_is_dir", PathT.sort(), z3.BoolSort())
_exists = z3.Function("uf.fs_exists", PathT.sort(), z3.BoolSort())


def _name_facts(ex, p):
    """p.name is the last component unless the path is empty or a bare anchor."""
    ps = _parts(p)
    n = z3.Length(ps)
    ex.ufs_used.add("pathlib: name == parts[-1] (\"\" for the empty path or a bare anchor)")
    ex.assume(z3.Implies(n == 0, _name(p) == z3.StringVal("")))
    ex.assume(z3.Implies(z3.And(n > 0, ps[n - 1] != z3.StringVal("/")), _name(p) == ps[n - 1]))
    ex.assume(z3.Implies(z3.And(n > 0, ps[n - 1] == z3.StringVal("/")), _name(p) == z3.StringVal("")))


def _reg(name):
    def deco(fn):
        EXTERNALS.setdefault(name, fn)
        return fn
    return deco


@_reg("Path.@parts")
def _x_parts(ex, args, kwargs, lineno):
    ex.ufs_used.add("path_parts")
    return VList(Str, seq=_parts(args[0].t))


@_reg("Path.@suffix")
def _x_suffix(ex, args, kwargs, lineno):
    """p.suffix is a function of p.name only."""
    p = args[0].t
    ex.ufs_used.add("pathlib: suffix == name_suffix(name)")
    return VStr(_nsuf(_name(p)))


@_reg("Path.is_absolute")
def _x_is_abs(ex, args, kwargs, lineno):
    p = args[0].t
    ps = _parts(p)
    ex.ufs_used.add("pathlib(posix): is_absolute == (parts[0] == '/')")
    ex.assume(_isabs(p) == z3.And(z3.Length(ps) > 0, ps[0] == z3.StringVal("/")))
    return VBool(_isabs(p))


@_reg("Path.relative_to")
def _x_relative_to(ex, args, kwargs, lineno):
    """p.relative_to(root): ValueError unless root's components are a prefix of p's; the result has the remaining ones."""
    if len(args) != 2 or kwargs or not isinstance(args[1], VOpaque):
        raise Unsupported("Path.relative_to with other than one Path argument")
    p, r = args[0].t, args[1].t
    pp, rp = _parts(p), _parts(r)
    ex.ufs_used.add("pathlib: relative_to(root) strips root's components, ValueError if they are not a prefix")
    ex.maybe_raise(z3.PrefixOf(rp, pp), "ValueError", lineno)
    q = _rel(p, r)
    ex.assume(_parts(q) == z3.SubSeq(pp, z3.Length(rp), z3.Length(pp) - z3.Length(rp)))
    return VOpaque(q, PathT)


@_reg("Path.is_file")
def _x_is_file(ex, args, kwargs, lineno):
    p = args[0].t
    ex.ufs_used.add("fs: is_file / is_dir are exclusive and imply exists (symlink-free snapshot)")
    ex.assume(z3.Not(z3.And(_isfile(p), _isdir(p))))
    ex.assume(z3.Implies(_isfile(p), _exists(p)))
    return VBool(_isfile(p))


@_reg("Path.is_dir")
def _x_is_dir(ex, args, kwargs, lineno):
    p = args[0].t
    ex.ufs_used.add("fs: is_file / is_dir are exclusive and imply exists (symlink-free snapshot)")
    ex.assume(z3.Not(z3.And(_isfile(p), _isdir(p))))
    ex.assume(z3.Implies(_isdir(p), _exists(p)))
    return VBool(_isdir(p))


@_reg("Path.exists")
def _x_exists(ex, args, kwargs, lineno):
    return VBool(_exists(args[0].t))


@_reg("pathlib.Path")
def _x_Path(ex, args, kwargs, lineno):
    """Path(x): identity on a Path; Path(str) is the opaque path with that spelling (str(Path(s)) is NOT assumed
    to be s: pathlib normalises)."""
    if len(args) != 1 or kwargs:
        raise Unsupported("Path() with other than one argument")
    a = args[0]
    from pyvc.ty import VOpt
    if isinstance(a, VOpt):
        ex.safety(z3.Not(a.isnone), "Path(None)", lineno)
        a = a.val
    if isinstance(a, VOpaque) and a.ty is PathT:
        return a
    if isinstance(a, VStr):
        ex.ufs_used.add("path_of_str")
        return VOpaque(_ofstr(a.t), PathT)
    raise Unsupported(f"Path({a})")


@_reg("Path.__truediv__")
def _x_div(ex, args, kwargs, lineno):
    p, s = args
    if not isinstance(s, VStr):
        raise Unsupported("Path / non-str")
    ex.ufs_used.add("path_div")
    q = _div(p.t, s.t)
    return VOpaque(q, PathT)


# resolve() / .parent: same uninterpreted symbols as contracts/c06_cli.py (uf.path_resolved) and contracts/c05_parse.py
# (uf.path_parent), whose handlers are registered first; the handlers below are fallbacks with the same meaning
_resolve = z3.Function("uf.path_resolved", PathT.sort(), PathT.sort())
_parent = z3.Function("uf.path_parent", PathT.sort(), PathT.sort())
path_resolve = uf("path_resolved", [PathT], PathT, concrete=lambda p: _pl.Path(p).resolve())
path_parent = uf("path_parent", [PathT], PathT, concrete=lambda p: _pl.PurePosixPath(p).parent)


@_reg("Path.resolve")
def _x_resolve(ex, args, kwargs, lineno):
    ex.ufs_used.add("path_resolved")
    return VOpaque(_resolve(args[0].t), PathT)


@_reg("Path.@parent")
def _x_parent(ex, args, kwargs, lineno):
    ex.ufs_used.add("path_parent")
    return VOpaque(_parent(args[0].t), PathT)


# ------------------------------------------------------------------------------------------------ spec helpers
def mkpath(parts):
    """The path whose components are exactly `parts` (trusted; checked natively on replay)."""
    p = path_of_parts(parts)
    assert path_parts(p) == parts
    return p


def name_link(p):
    """Trusted: p.name is the last component ("" for the empty path or a bare anchor). Checked natively."""
    assert path_name(p) == (path_parts(p)[-1] if len(path_parts(p)) > 0 and path_parts(p)[-1] != "/" else "")
    return True


def comp_ok(c):
    """A normalised path component: non-empty, not '.', no separator inside."""
    return len(c) > 0 and c != "." and "/" not in c


def rel_ok(parts):
    """A normalised, non-empty relative component list."""
    return len(parts) > 0 and all(comp_ok(c) for c in parts)


def prefix_ok(parts):
    """A normalised directory prefix: relative, or absolute (first component is the anchor '/')."""
    return len(parts) > 0 and (parts[0] == "/" or comp_ok(parts[0])) and all(comp_ok(c) for c in parts[1:])


# ---- str(p) and relative_to in terms of components (trusted pathlib facts, checked natively on replay)
def _parts_str_native(ps):
    return str(_pl.PurePosixPath(*ps))


parts_str = uf("parts_str", [SeqOf(Str)], Str, concrete=_parts_str_native)
path_rel_to = uf("path_relative_to", [PathT, PathT], PathT, concrete=lambda p, r: _pl.PurePosixPath(p).relative_to(r))


def str_link(p):
    """Trusted: str(p) is a function of p.parts."""
    assert path_str(p) == parts_str(path_parts(p))
    return True


def rel_link(p, root):
    """Trusted: when root's components are a prefix of p's, p.relative_to(root) has the remaining components."""
    assert implies(len(path_parts(root)) <= len(path_parts(p)) and path_parts(p)[:len(path_parts(root))] == path_parts(root),
                   path_parts(path_rel_to(p, root)) == path_parts(p)[len(path_parts(root)):])
    return True


def abs_link(p):
    """Trusted (POSIX): a path is absolute iff its first component is the anchor '/'."""
    assert path_is_abs(p) == (len(path_parts(p)) > 0 and path_parts(p)[0] == "/")
    return True


def resolve_facts(p):
    """Trusted: p.resolve() is absolute, and so is its parent (checked natively on replay)."""
    assert path_is_abs(path_resolve(p))
    assert path_is_abs(path_parent(path_resolve(p)))
    return True
