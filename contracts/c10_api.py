"""C10 -- library API (src/api.py) vs. the CLI's use of the orchestrator.

Property text: for the same target, configuration and rule, Linter.lint and the CLI command report the same
violations, for single files as well as for directories and for cross-file rules. The CLI lints explicit files with
Orchestrator.lint_files([...]) (src/cli/utils.py::execute_linting_on_paths), the API with Orchestrator.lint_file."""
from pyvc.api import contract, lemma, Int, Bool, Str, Dict, SeqOf, Rec, Opt, implies, call, mk, reveal
from contracts._common import ViolationT, PathT
from contracts.c09_paths import fs_is_file, fs_is_dir, fs_exists
from contracts.c10_orchestrator import (OrchT, Viols, O, lf_out, lf_gs, lf_disc, lf_cache, run_out, run_gs, fin_all, rules_of,
                                        S_out, S_gs, walk_files)

API = "src/api.py::"
LinterT = Rec("Linter", cls=API + "Linter", orchestrator=OrchT, project_root=PathT, config=Dict)
MOD = ["self.orchestrator.registry.gs", "self.orchestrator._rules_discovered", "self.orchestrator.ignore_parser._ignore_cache"]


def one_file(orch, f):
    """What Linter._lint_path returns for a file target: Orchestrator.lint_files([f]) -- the per-file rules on f followed
    by finalize() of every rule, exactly what the CLI runs for an explicit file (since the fix recorded in
    known_findings.json under C10-api-single-file-no-finalize; before it: lint_file(f) without finalize)."""
    return S_out(orch, [f]) + fin_all(rules_of(S_gs(orch, [f])))


def one_file_step(orch, f):
    """Orchestrator.lint_file(f) alone (no finalize) from the orchestrator's current state."""
    return lf_out(f, orch.registry.gs, orch._rules_discovered, orch.ignore_parser._ignore_cache, orch.project_root, orch.config,
                  orch.ignore_parser.project_root, orch.ignore_parser.repo_patterns)


def one_file_state(orch, f):
    return lf_gs(f, orch.registry.gs, orch._rules_discovered, orch.ignore_parser._ignore_cache, orch.project_root, orch.config,
                 orch.ignore_parser.project_root, orch.ignore_parser.repo_patterns)


def directory(orch, d):
    """What Orchestrator.lint_directory(d, recursive=True) returns: the fold over the collected files + finalize."""
    return S_out(orch, walk_files(d, True)) + fin_all(rules_of(S_gs(orch, walk_files(d, True))))


@contract(API + "Linter._lint_path", props=["C10", "C08"], types=dict(self=LinterT, path_obj=PathT), returns=Viols,
          raises=["ValueError", "OSError"], modifies=MOD)
class LintPath:
    def ensures_file(self, path_obj, result, old):
        return implies(fs_is_file(path_obj), result == one_file(old.self.orchestrator, path_obj))

    def ensures_directory(self, path_obj, result, old):
        return implies(fs_is_dir(path_obj), result == directory(old.self.orchestrator, path_obj))

    def ensures_neither(self, path_obj, result, old):
        return implies(not fs_is_file(path_obj) and not fs_is_dir(path_obj), result == [])


def keep(violations, rules):
    """Property text / docstring: `rules`: optional list of rule names to run; None (or empty) runs all rules."""
    return [v for v in violations if v.rule_id in rules]


@contract(API + "Linter._filter_violations", props=["C10", "C15"],
          types=dict(self=LinterT, violations=Viols, rules=Opt(SeqOf(Str))), returns=Viols)
class FilterViolations:
    def ensures_exact_rule_id_membership(violations, rules, result):
        return implies(rules is not None and len(rules) > 0, result == keep(violations, rules))

    def ensures_all_when_no_filter(violations, rules, result):
        return implies(rules is None or len(rules) == 0, result == violations)


# ------------------------------------------------------------------ API vs CLI on one explicit file
def same_orch(a, b):
    return a.registry.gs == b.registry.gs and a._rules_discovered == b._rules_discovered \
        and a.ignore_parser._ignore_cache == b.ignore_parser._ignore_cache and a.project_root == b.project_root \
        and a.config == b.config and a.ignore_parser.project_root == b.ignore_parser.project_root \
        and a.ignore_parser.repo_patterns == b.ignore_parser.repo_patterns


def reveal_single(o, f):
    """Unfold the file fold on the one-element list [f] and on the empty list."""
    return reveal(run_out, [f], o.registry.gs, o._rules_discovered, o.ignore_parser._ignore_cache, o.project_root, o.config,
                  o.ignore_parser.project_root, o.ignore_parser.repo_patterns) \
        and reveal(run_gs, [f], o.registry.gs, o._rules_discovered, o.ignore_parser._ignore_cache, o.project_root, o.config,
                   o.ignore_parser.project_root, o.ignore_parser.repo_patterns) \
        and reveal(run_out, [], one_file_state(o, f),
                   lf_disc(f, o._rules_discovered, o.ignore_parser._ignore_cache, o.ignore_parser.project_root,
                           o.ignore_parser.repo_patterns),
                   lf_cache(f, o.ignore_parser._ignore_cache, o.ignore_parser.project_root, o.ignore_parser.repo_patterns),
                   o.project_root, o.config, o.ignore_parser.project_root, o.ignore_parser.repo_patterns) \
        and reveal(run_gs, [], one_file_state(o, f),
                   lf_disc(f, o._rules_discovered, o.ignore_parser._ignore_cache, o.ignore_parser.project_root,
                           o.ignore_parser.repo_patterns),
                   lf_cache(f, o.ignore_parser._ignore_cache, o.ignore_parser.project_root, o.ignore_parser.repo_patterns),
                   o.project_root, o.config, o.ignore_parser.project_root, o.ignore_parser.repo_patterns)


@lemma(props=["C10"], types=dict(api_orch=OrchT, cli_orch=OrchT, f=PathT), name="api-equals-cli-on-a-single-file")
def api_equals_cli_single_file(api_orch, cli_orch, f):
    """Property text: Linter.lint(f) == CLI on f, from identical states, also for cross-file rules."""
    if not same_orch(api_orch, cli_orch) or not fs_is_file(f):
        return True
    try:
        a = call(API + "Linter._lint_path", mk(LinterT, orchestrator=api_orch, project_root=api_orch.project_root,
                                                 config=api_orch.config), f)
        b = call(O + "Orchestrator.lint_files", cli_orch, [f])
    except (ValueError, OSError):
        return True
    return a == b


@lemma(props=["C10"], types=dict(orch=OrchT, f=PathT), name="single-file-run-is-the-file-then-finalize")
def single_file_run(orch, f):
    """Both entry points on one explicit file: the per-file verdicts of lint_file(f) followed by finalize() of every
    rule in the state the file left behind (so intra-file findings of cross-file rules are reported, and no evidence of
    the file outlives the call)."""
    reveal_single(orch, f)
    st = one_file_state(orch, f)
    return one_file(orch, f) == one_file_step(orch, f) + fin_all(rules_of(st))


@lemma(props=["C10"], types=dict(api_orch=OrchT, cli_orch=OrchT, d=PathT), name="api-equals-cli-on-a-directory")
def api_equals_cli_directory(api_orch, cli_orch, d):
    """Property text: for a directory target both entry points run the same fold and the same finalize."""
    if not same_orch(api_orch, cli_orch) or not fs_is_dir(d):
        return True
    try:
        a = call(API + "Linter._lint_path", mk(LinterT, orchestrator=api_orch, project_root=api_orch.project_root,
                                                 config=api_orch.config), d)
        b = call(O + "Orchestrator.lint_directory", cli_orch, d, True)
    except (ValueError, OSError):
        return True
    return a == b


def filtered(violations, rules):
    return violations if rules is None or len(rules) == 0 else keep(violations, rules)


@contract(API + "Linter.lint", props=["C10"], types=dict(self=LinterT, path=PathT, rules=Opt(SeqOf(Str)), path_obj=PathT,
                                                          violations=Viols),
          returns=Viols, raises=["ValueError", "OSError"], modifies=MOD)
class LinterLint:
    def ensures_missing_path_is_empty(self, path, rules, result, old):
        return implies(not fs_exists(path), result == [])

    def ensures_file(self, path, rules, result, old):
        return implies(fs_exists(path) and fs_is_file(path), result == filtered(one_file(old.self.orchestrator, path), rules))

    def ensures_directory(self, path, rules, result, old):
        return implies(fs_exists(path) and fs_is_dir(path), result == filtered(directory(old.self.orchestrator, path), rules))


# ------------------------------------------------------------------ configuration discovery of the library entry point
from contracts.c09_paths import path_of_str, path_div  # noqa: E402


@contract(API + "Linter._resolve_config_path", props=["C10", "C05"], types=dict(self=LinterT, config_file=Opt(Str), yaml_path=PathT),
          returns=PathT)
class ResolveConfigPath:
    def value(self, config_file):
        # an explicit file IS the configuration; otherwise <root>/.thailint.yaml if it exists, else <root>/.thailint.json
        # (the same discovery order as Orchestrator.__init__ for the CLI: .thailint.yaml -> .thailint.json)
        return path_of_str(config_file) if config_file is not None and len(config_file) > 0 else \
            (path_div(self.project_root, ".thailint.yaml") if fs_exists(path_div(self.project_root, ".thailint.yaml"))
             else path_div(self.project_root, ".thailint.json"))


# ------------------------------------------------------------------ the library entry point builds ITS orchestrator
try:
    from contracts.c05_parse import LoaderT, yaml_doc, file_of, toml_doc, tool_thailint, dict_items, pyproject_of
    from contracts.c05_config import norm_fold
    from contracts import c07_parallel as _c07  # noqa: F401  (Orchestrator.__init__ contract)
    _INIT_DEPS = True
except BaseException:  # noqa
    _INIT_DEPS = False


def resolved_config(root, config_file):
    return path_of_str(config_file) if config_file is not None and len(config_file) > 0 else \
        (path_div(root, ".thailint.yaml") if fs_exists(path_div(root, ".thailint.yaml")) else path_div(root, ".thailint.json"))


class LinterInit:
    """C10: the library's orchestrator lints with exactly the configuration the Linter loaded (explicit file, else the
    root's .thailint.yaml / .thailint.json) and with the Linter's project root -- nothing is re-discovered."""
    def requires(config_file, project_root):
        return project_root is not None and (
            isinstance(yaml_doc(file_of(resolved_config(project_root, config_file))), dict)
            or yaml_doc(file_of(resolved_config(project_root, config_file))) is None)

    def ensures_pyproject_fallback_reaches_the_library(self, config_file, project_root):
        # C10: the configuration is loader.load(<resolved path>) UNCONDITIONALLY -- also when that path does not exist,
        # because the pyproject.toml [tool.thailint] fallback lives inside load() (the CLI's Orchestrator.__init__ calls
        # load() unconditionally too): a project configured only through pyproject.toml is configured for both entry points
        return implies(not fs_exists(resolved_config(project_root, config_file)),
                       self.config == norm_fold(dict_items(tool_thailint(toml_doc(file_of(pyproject_of(
                           resolved_config(project_root, config_file)))))), {})
                       or self.config == {"rules": {}, "ignore": []})

    def ensures_one_configuration_one_root(self, config_file, project_root):
        return self.project_root == project_root and self.orchestrator.project_root == project_root \
            and self.orchestrator.config == self.config


if _INIT_DEPS:
    LinterInitT = LinterT.extend(config_loader=LoaderT)
    contract(API + "Linter.__init__", props=["C10", "C05"],
             types=dict(self=LinterInitT, config_file=Opt(Str), project_root=Opt(PathT), config_path=PathT),
             raises=["ConfigParseError", "OSError"], no_selftest=True,
             modifies=["self.project_root", "self.config_loader", "self.config", "self.orchestrator"],
             inline=["src/linter_config/loader.py::LinterConfigLoader.__init__"])(LinterInit)
