"""C10 -- BOUNDED differential checks at the property's observation points (never counted as proved).

The deductive part (contracts/c10_orchestrator.py, c10_api.py) proves the composition laws from the source; a harmless
refactoring of the orchestrator can make those units UNDECIDED. This file adds the same laws as native differential
runs on small real projects, so that a behavioural deviation is reported as a VIOLATION with a replayable witness:
  (1) directory run == concatenation of per-file runs over the collected files (per-file rules), for every directory
      target of the tree -- including targets whose own name is an always-excluded name;
  (2) library API == CLI plumbing (setup_base_orchestrator + execute_linting_on_paths) for directory targets and for
      single files, all rules (DRY is switched on with intra-file duplicates in every file);
  (3) the same with an explicit config file next to an auto-discovered root config (the explicit file wins entirely
      in both entry points)."""
from pyvc.api import custom

_DIRS = ["src", "pkg", "build", "dist", "gen", ".venv", "node_modules", "lib"]
_FILES = ["a.py", "b.py", "c.py", "build", "d.pyc", "w.ts", "v.ts", "r.rs"]
_BLOCK = ("    total = 0\n    for item in items:\n        if item.value > threshold:\n            if item.value > factor:\n"
          "                total += item.value * 3.14159\n        else:\n            total -= item.value / 4242\n"
          "    result = transform(total, mode=\"fast\")\n    return finalize_result(result, items)\n")
# two functions with the same body: every file carries nesting / magic-number findings AND an intra-file duplicate
_BODY = "def planted(items, threshold, factor):\n" + _BLOCK + "\n\ndef planted_again(items, threshold, factor):\n" + _BLOCK


_PYPROJECT = ("[project]\nname = \"demo\"\nversion = \"0.0.1\"\n\n[tool.thailint.nesting]\nmax_nesting_depth = 2\n\n"
              "[tool.thailint.magic-numbers]\nallowed_numbers = [0, 1, 4242]\n\n[tool.thailint.srp]\nmax_methods = 1\n")
_IGNORE_POOL = ["lib", "pkg", "gen", "src/gen", "lib/lib", "*gen", "lib/", "a.py", "*/b.py", "src"]


def _tree(rng, depth):
    t = {}
    for _ in range(rng.randint(1, 3)):
        if depth > 0 and rng.random() < 0.5:
            nm = rng.choice(_DIRS)
            if nm not in t:
                t[nm] = _tree(rng, depth - 1)
        else:
            nm = rng.choice(_FILES)
            if nm not in t:
                t[nm] = None
    return t


_TS_BODY = ("export class Widget {\n  a(): number { return 4242; }\n  b(): number[] { return Array(15).fill(0); }\n"
            "  c(x: number, y: number): number {\n    if (x) {\n      if (y) {\n        if (x > y) {\n          return 77;\n"
            "        }\n      }\n    }\n    return 0;\n  }\n  d(): number { return 15; }\n}\n")
_RS_BODY = ("pub fn work(x: i32, y: i32) -> i32 {\n    if x > 0 {\n        if y > 0 {\n            if x > y {\n                return 4242;\n"
            "            }\n        }\n    }\n    15\n}\n")
# per-language override sections: a file's verdict must not depend on which other languages were linted before it
_ROOT_CONFIG = ("nesting:\n  max_nesting_depth: 3\n  python:\n    max_nesting_depth: 2\n"
                "magic-numbers:\n  allowed_numbers: [0, 1]\n  python:\n    allowed_numbers: [0, 1, 4242]\n  typescript:\n    max_small_integer: 20\n"
                "srp:\n  max_methods: 5\n  python:\n    max_methods: 1\n"
                "dry:\n  enabled: true\n  min_duplicate_lines: 3\n"
                "file-placement:\n  directories:\n    lib:\n      deny:\n        - pattern: '.*\\.py$'\n          reason: 'no python below lib'\n"
                "  global_deny:\n    - pattern: 'c\\.py$'\n      reason: 'no c.py anywhere'\n")


def _write(base, t):
    import os
    for nm, sub in t.items():
        p = os.path.join(base, nm)
        if sub is None:
            with open(p, "w", encoding="utf-8") as fh:
                fh.write(_TS_BODY if nm.endswith(".ts") else _RS_BODY if nm.endswith(".rs") else _BODY)
        else:
            os.mkdir(p)
            _write(p, sub)


def _dirs_of(t, prefix=()):
    out = [prefix]
    for nm, sub in t.items():
        if sub is not None:
            out += _dirs_of(sub, prefix + (nm,))
    return out


def _key(vs, root, only_per_file):
    import collections
    import os
    c = collections.Counter()
    for v in vs:
        if only_per_file and (v.rule_id.startswith("dry.") or v.rule_id.startswith("stringly-typed")):
            continue
        c[(v.rule_id, os.path.relpath(os.path.abspath(v.file_path), root), v.line, v.column, v.message)] += 1
    return c


def _refuted(name, cases, what, witness):
    return [dict(name=name, kind="bounded", verdict="refuted", carries=True, tool="native differential runs", cases=cases,
                 budget="small real projects", witness_confirmed=True, witness=witness, note=f"{what}: {witness}"[:900])]


@custom("c10-entrypoints-bounded", props=["C10"])
def entrypoints_bounded(ctx):
    import os
    import pathlib
    import random
    import shutil
    import sys
    import tempfile
    n = 60 if ctx.get("tier", "quick") == "quick" else 600
    rng = random.Random(104729 * int(ctx.get("seed", 0)) + 10)
    name = "custom:c10-entrypoints-bounded/directory-files-api-cli"
    from pyvc import native as _native
    _native._ensure_repo_on_path()  # `import src` must be the tree under verification ($VERIF_REPO), not an installed copy
    base = tempfile.mkdtemp(prefix="c10diff_")
    cases = excluded_targets = double_seen = pyproject_seen = 0
    try:
        try:
            from loguru import logger as _lg
            _lg.remove()  # the CLI plumbing logs at DEBUG to stderr
        except BaseException:  # noqa
            pass
        from src.api import Linter
        from src.cli.utils import execute_linting_on_paths, setup_base_orchestrator
        from src.linter_config.ignore import clear_ignore_parser_cache
        from src.orchestrator.core import Orchestrator, _collect_files_fast
        for i in range(n):
            root = pathlib.Path(base) / f"p{i}"
            root.mkdir()
            t = _tree(rng, 2)
            _write(str(root), t)
            src_kind = rng.choice(["yaml", "json", "pyproject"])
            if src_kind == "pyproject":  # configuration carried ONLY by pyproject.toml ([tool.thailint.<linter>] tables)
                (root / "pyproject.toml").write_text(_PYPROJECT, encoding="utf-8")
                pyproject_seen += 1
            elif src_kind == "yaml":
                (root / ".thailint.yaml").write_text(_ROOT_CONFIG, encoding="utf-8")
            else:  # the same configuration discovered as .thailint.json
                import json as _json
                import yaml as _yaml
                (root / ".thailint.json").write_text(_json.dumps(_yaml.safe_load(_ROOT_CONFIG)), encoding="utf-8")
            pats = [rng.choice(_IGNORE_POOL) for _ in range(rng.randint(0, 2))]
            if pats:
                (root / ".thailintignore").write_text("\n".join(pats) + "\n", encoding="utf-8")
            clear_ignore_parser_cache()
            for parts in _dirs_of(t):
                d = root.joinpath(*parts)
                excluded_targets += any(p in ("build", "dist", ".venv", "node_modules") for p in parts)
                # (1) directory == concatenation of per-file runs
                a = _key(Orchestrator(project_root=root).lint_directory(d, recursive=True), str(root), True)
                files = _collect_files_fast(d, True)
                # "each contained file on its own": a FRESH orchestrator per file (no shared state between the files)
                b = _key([v for f in files for v in Orchestrator(project_root=root).lint_file(f)], str(root), True)
                cases += 1
                if a != b:
                    return _refuted(name, cases, "directory run differs from the per-file runs over its collected files",
                                    {"tree": t, "target": "/".join(parts) or ".", "directory_only": sorted(map(str, (a - b).keys())),
                                     "files_only": sorted(map(str, (b - a).keys()))})
                # (2) API == CLI plumbing on the directory (all rules)
                api = _key(Linter(project_root=str(root)).lint(d), str(root), False)
                orch = setup_base_orchestrator([d], None, False, project_root=root)
                cli = _key(execute_linting_on_paths(orch, [d], True), str(root), False)
                cases += 1
                locs = {}
                for k in api:
                    locs.setdefault(k[:4], set()).add(k[4])
                double_seen += any(len(m) > 1 for m in locs.values())
                if api != cli:
                    return _refuted(name, cases, "Linter.lint(directory) differs from the CLI plumbing",
                                    {"tree": t, "target": "/".join(parts) or ".", "api_only": sorted(map(str, (api - cli).keys())),
                                     "cli_only": sorted(map(str, (cli - api).keys()))})
            # (2') single files, all rules (cross-file rules included: both entry points finalize)
            for f in _collect_files_fast(root, True)[:3]:
                api = _key(Linter(project_root=str(root)).lint(f), str(root), False)
                orch = setup_base_orchestrator([f], None, False, project_root=root)
                cli = _key(execute_linting_on_paths(orch, [f], True), str(root), False)
                cases += 1
                if api != cli:
                    return _refuted(name, cases, "Linter.lint(file) differs from the CLI plumbing",
                                    {"tree": t, "file": os.path.relpath(str(f), str(root)), "api_only": sorted(map(str, (api - cli).keys())),
                                     "cli_only": sorted(map(str, (cli - api).keys()))})
            # (3) explicit config file next to an auto-discovered root config: the explicit file is THE configuration
            cfg = pathlib.Path(base) / f"explicit{i}.yaml"
            cfg.write_text("magic-numbers:\n  allowed_numbers: [0, 1]\n", encoding="utf-8")
            api = _key(Linter(config_file=str(cfg), project_root=str(root)).lint(root), str(root), False)
            orch = setup_base_orchestrator([root], str(cfg), False, project_root=root)
            cli = _key(execute_linting_on_paths(orch, [root], True), str(root), False)
            cases += 1
            if api != cli:
                return _refuted(name, cases, "with --config FILE / config_file=FILE the two entry points use different configurations",
                                {"tree": t, "root_config": "per-language sections for nesting / magic-numbers / srp", "explicit_config": "magic-numbers only",
                                 "api_only": sorted(map(str, (api - cli).keys()))[:6], "cli_only": sorted(map(str, (cli - api).keys()))[:6]})
            shutil.rmtree(str(root), ignore_errors=True)
    except BaseException as e:  # noqa
        import traceback
        return [dict(name=name, kind="bounded", verdict="unknown", carries=True, tool="native differential runs", cases=cases,
                     budget=f"{n} projects", note=f"harness error: {e!r} {traceback.format_exc()[-300:]}"[:600])]
    finally:
        shutil.rmtree(base, ignore_errors=True)
        try:
            clear_ignore_parser_cache()
        except BaseException:  # noqa
            pass
    if pyproject_seen == 0:
        return [dict(name=name, kind="bounded", verdict="unknown", carries=True, tool="native differential runs", cases=cases,
                     budget=f"{n} projects", note="generator too weak: no pyproject-only project")]
    if double_seen == 0:
        return [dict(name=name, kind="bounded", verdict="unknown", carries=True, tool="native differential runs", cases=cases,
                     budget=f"{n} projects", note="generator too weak: no run with two different violations at one location")]
    if excluded_targets < n // 5:
        return [dict(name=name, kind="bounded", verdict="unknown", carries=True, tool="native differential runs", cases=cases,
                     budget=f"{n} projects", note=f"generator too weak: only {excluded_targets} targets with an excluded name")]
    return [dict(name=name, kind="bounded", verdict="passed", carries=True, tool="native differential runs (tempfile.mkdtemp, removed)",
                 budget=f"{n} projects, seed {ctx.get('seed', 0)}", cases=cases,
                 note=f"{cases} comparisons agree (directory vs files, API vs CLI on directories and files, explicit config); "
                      f"{excluded_targets} directory targets carry an always-excluded name; {double_seen} runs with two different "
                      f"violations at one location (file-placement directory deny + global deny)")]


# =================================================================== CLI --parallel vs library (sub-process: real process pool)
_PARALLEL_CLI = r'''
import json, os, sys
sys.path.insert(0, sys.argv[1])
try:
    from loguru import logger; logger.remove()
except Exception:
    pass
from pathlib import Path
from src.api import Linter
from src.cli.utils import execute_linting_on_paths, setup_base_orchestrator
root = Path(sys.argv[2])
def key(vs):
    return sorted([v.rule_id, os.path.relpath(v.file_path if os.path.isabs(v.file_path) else os.path.join(str(root), v.file_path), str(root)),
                   v.line, v.column, v.message.replace(str(root), "<root>")] for v in vs)
api = key(Linter(project_root=str(root)).lint(root))
orch = setup_base_orchestrator([root], None, False, project_root=root)
seq = key(execute_linting_on_paths(orch, [root], True, parallel=False))
orch = setup_base_orchestrator([root], None, False, project_root=root)
par = key(execute_linting_on_paths(orch, [root], True, parallel=True))
print(json.dumps({"api": api, "cli": seq, "cli_parallel": par}))
'''


@custom("c10-parallel-cli-bounded", props=["C10", "C07"])
def parallel_cli_bounded(ctx):
    """BOUNDED: library API == CLI plumbing == CLI plumbing with --parallel on a project large enough to leave the
    sequential fallback (real process pool, in a sub-process), with per-language configuration, cross-file duplicates,
    and files that only PATH-based rules can judge: EMPTY files and files of unknown language whose path violates a
    file-placement rule (a rule that needs no content must still see every file)."""
    import json
    import os
    import pathlib
    import random
    import shutil
    import subprocess
    import sys
    import tempfile
    name = "custom:c10-parallel-cli-bounded/api-cli-parallel-agree"
    from pyvc import native as _native
    _native._ensure_repo_on_path()
    rng = random.Random(7177 * int(ctx.get("seed", 0)) + 10)
    base = os.path.realpath(tempfile.mkdtemp(prefix="c10par_"))
    try:
        root = pathlib.Path(base) / "proj"
        for d in ("lib", "src", "pkg/deep"):
            (root / d).mkdir(parents=True)
        (root / ".thailint.yaml").write_text(_ROOT_CONFIG, encoding="utf-8")
        n_empty = 0
        for i in range(26):
            d = rng.choice(["lib", "src", "pkg/deep", "."])
            nm = rng.choice([f"m{i}.py", f"w{i}.ts", f"r{i}.rs", "c.py", f"note{i}.txt", f"e{i}.py"])
            body = "" if (nm.startswith("e") or nm.startswith("note") or rng.random() < 0.15) else (
                _TS_BODY if nm.endswith(".ts") else _RS_BODY if nm.endswith(".rs") else _BODY)
            p = root / d / nm
            if not p.exists():
                p.write_text(body, encoding="utf-8")
                n_empty += (body == "" and (d == "lib" and nm.endswith(".py") or nm == "c.py"))
        (root / "lib" / "empty.py").write_text("", encoding="utf-8")
        pr = subprocess.run([sys.executable, "-c", _PARALLEL_CLI, _native.repo_root(), str(root)], capture_output=True, text=True,
                            timeout=400, cwd=base)
        if pr.returncode != 0:
            raise RuntimeError("sub-process failed: " + pr.stderr[-400:])
        out = json.loads(pr.stdout.strip().splitlines()[-1])
        if not any(k[0] == "file-placement" and k[1] == "lib/empty.py" for k in out["api"]):
            raise RuntimeError("scenario too weak: the empty file lib/empty.py carries no file-placement violation in the library run")
        for other in ("cli", "cli_parallel"):
            # --parallel loses the findings of cross-file rules (recorded finding C07-parallel-cross-file): compare the rest
            keep = (lambda k: True) if other == "cli" else (lambda k: not k[0].startswith(("dry.", "stringly-typed")))
            a, b = [k for k in out["api"] if keep(k)], [k for k in out[other] if keep(k)]
            if a != b:
                w = {"entry_point": other, "only_api": [k[:4] for k in a if k not in b][:6],
                     "only_" + other: [k[:4] for k in b if k not in a][:6]}
                return [dict(name=name, kind="bounded", verdict="refuted", carries=True, tool="sub-process with a real process pool",
                             cases=3, budget="1 project", witness_confirmed=True, witness=w,
                             note=f"Linter.lint(dir) and the CLI plumbing ({other}) disagree: {w}"[:900])]
    except BaseException as e:  # noqa
        return [dict(name=name, kind="bounded", verdict="unknown", carries=True, tool="sub-process", cases=0, note=f"harness error {e!r}"[:400])]
    finally:
        shutil.rmtree(base, ignore_errors=True)
    return [dict(name=name, kind="bounded", verdict="passed", carries=True, tool="sub-process with a real process pool", cases=3,
                 budget=f"1 project (~27 files, empty files under file-placement rules), seed {ctx.get('seed', 0)}",
                 note="library, CLI and CLI --parallel report the same violations (messages included)")]
