"""C10 / C14 / C08 -- the orchestrator (src/orchestrator/core.py) and its composition laws.

Model of the plug-in layer (dynamic dispatch to arbitrary rules is outside any proof, so it is an INTERFACE contract):
  * the registry carries a ghost field `gs` -- the abstract state of ALL rule objects (their cross-file evidence);
  * `rules_of(gs)` is the list registry.list_all() returns; each element is a record (key, ev): the rule's identity
    and ITS OWN evidence inside gs;
  * one rule's check on one file:  chk_out(gs, key, path, language, config, root) / chk_gs(...)  (assumed contract of
    Orchestrator._safe_check_rule: "a rule's verdict is a function of the rule state, the file, the language, the
    configuration and the project root"; which violations a rule reports is the business of C01..C05, C16..C18);
  * finalize of one rule:  fin_out(key, ev)  (assumed contract of BaseLintRule.finalize; a rule's finalize touches
    only its own state -- rules are separate objects registered under distinct ids).
Everything the ORCHESTRATOR does with these -- which files it skips, in which order it runs and concatenates, when it
finalizes -- is proved from the real source. The file system is one uninterpreted snapshot per verification unit."""
from pyvc import api
from pyvc.api import (contract, lemma, Int, Bool, Str, Dict, SeqOf, Rec, Opt, Opaque, implies, call, ih, opaque, reveal,
                      uf, dict_put)
from contracts._common import ViolationT, PathT, path_str, path_name
from contracts.c09_paths import path_parts, mkpath
from contracts.c14_collect import (ParserT, hard_excluded, ign_now, ign_fresh, cache_after, cache_coherent, matches_spec,
                                   below_root, path_rel)

O = "src/orchestrator/core.py::"
BASE = "src/core/base.py::"
REG = "src/core/registry.py::"
LD = "src/orchestrator/language_detector.py::"

RStateT = Opaque("RuleState")
EvT = Opaque("Evidence")
RuleT = Rec("BaseLintRule", cls=BASE + "BaseLintRule", key=Int, ev=EvT)
RegistryT = Rec("RuleRegistry", cls=REG + "RuleRegistry", gs=RStateT)
OrchT = Rec("Orchestrator", cls=O + "Orchestrator", project_root=PathT, registry=RegistryT, ignore_parser=ParserT,
            config=Dict, _rules_discovered=Bool)
CtxT = Rec("FileLintContext", cls=O + "FileLintContext", _path=PathT, _language=Str, _content=Opt(Str),
           _lines=Opt(SeqOf(Str)), metadata=Dict)
Viols = SeqOf(ViolationT)

rules_of = uf("rules_of", [RStateT], SeqOf(RuleT))
discovered = uf("rules_discovered", [RStateT], RStateT)
chk_out = uf("rule_check_out", [RStateT, Int, PathT, Str, Dict, PathT], Viols)
chk_gs = uf("rule_check_state", [RStateT, Int, PathT, Str, Dict, PathT], RStateT)
fin_out = uf("rule_finalize_out", [Int, EvT], Viols)
fin_ev = uf("rule_finalize_evidence", [Int, EvT], EvT)
walk_files = uf("walk_files", [PathT, Bool], SeqOf(PathT))

# ---- language detection is a C15 target (contracts/c15_language.py); while that file is unavailable: an assumed stand-in
try:
    from contracts.c15_language import detect_language_spec as lang_of  # noqa: F401
    C15_AVAILABLE = True
except BaseException:  # noqa
    C15_AVAILABLE = False
    lang_of = uf("detected_language", [PathT], Str)


class DetectLanguageStandIn:
    def value(file_path):
        return lang_of(file_path)


if not C15_AVAILABLE and LD + "detect_language" not in api.REGISTRY:
    contract(LD + "detect_language", props=["C10", "C14"], types=dict(file_path=PathT), returns=Str,
             assumed="stand-in while contracts/c15_language.py is unavailable: the language is a function of the path (and of "
                     "the file's first line in the FS snapshot)")(DetectLanguageStandIn)


# =================================================================== interface contracts (assumed)
@contract(REG + "RuleRegistry.list_all", props=["C10", "C08", "C07"], types=dict(self=RegistryT), returns=SeqOf(RuleT),
          assumed="plug-in interface: the registered rule objects (dict values, distinct ids) seen through the ghost state")
class RegistryListAll:
    def value(self):
        return rules_of(self.gs)


@contract(REG + "RuleRegistry.discover_rules", props=["C10", "C08"], types=dict(self=RegistryT, package_path=Str),
          returns=Int, modifies=["self.gs"],
          assumed="plug-in discovery (importlib / pkgutil scan of src.linters): outside the subset")
class RegistryDiscoverRules:
    def ensures(self, package_path, old):
        return self.gs == discovered(old.self.gs)


@contract(BASE + "BaseLintRule.finalize", props=["C10", "C08", "C07"], types=dict(self=RuleT), returns=Viols,
          modifies=["self.ev"],
          assumed="plug-in interface (dynamic dispatch): finalize of a rule is a function of that rule's own evidence and "
                  "touches only that rule's state")
class RuleFinalize:
    def value(self, old):
        return fin_out(self.key, old.self.ev)

    def ensures_state(self, old):
        return self.ev == fin_ev(self.key, old.self.ev)


@contract(O + "Orchestrator._safe_check_rule", props=["C10", "C08", "C14"],
          types=dict(self=OrchT, rule=RuleT, context=CtxT), returns=Viols, raises=["ValueError"],
          modifies=["self.registry.gs"],
          assumed="plug-in interface (dynamic dispatch to rule.check + containment of rule errors, ValueError re-raised): "
                  "the verdict is a function of the rule state, the file, the language, the configuration and the root; "
                  "valid for contexts built by lint_file (metadata == config + _project_root)")
class SafeCheckRule:
    def ensures_out(self, rule, context, result, old):
        return result == chk_out(old.self.registry.gs, rule.key, context._path, context._language, self.config,
                                 self.project_root)

    def ensures_state(self, rule, context, old):
        return self.registry.gs == chk_gs(old.self.registry.gs, rule.key, context._path, context._language, self.config,
                                          self.project_root)


@contract(O + "FileLintContext.__init__", props=["C10"],
          types=dict(self=CtxT, path=PathT, lang=Str, content=Opt(Str), metadata=Opt(Dict)),
          modifies=["self._path", "self._language", "self._content", "self._lines", "self.metadata"],
          assumed="plain field initialisation (self._path = path, self._language = lang, ...); `metadata or {}` mixes "
                  "two dict representations")
class FileLintContextInit:
    def ensures(self, path, lang, content, metadata):
        return self._path == path and self._language == lang and self._content == content and self._lines is None \
            and implies(metadata is not None and metadata != {}, self.metadata == metadata)


@contract(O + "_collect_files_fast", props=["C14", "C10", "C07"], types=dict(dir_path=PathT, recursive=Bool),
          returns=SeqOf(PathT),
          assumed="os.walk with in-place pruning (generator protocol) is outside the subset; the contract -- all regular "
                  "files below dir_path none of whose directory components below dir_path is excluded, minus compiled "
                  "suffixes, only depth 0 when not recursive -- is checked by the bounded enumeration c14-walk-bounded")
class CollectFilesFast:
    def value(dir_path, recursive):
        return walk_files(dir_path, recursive)


# =================================================================== specification: one file, a list of files, finalize
@opaque
def exec_out(gs: RStateT, rules: SeqOf(RuleT), f: PathT, lang: Str, cfg: Dict, root: PathT) -> Viols:
    """Concatenation of the rules' verdicts, each rule seeing the state its predecessors left."""
    if len(rules) == 0:
        return []
    return chk_out(gs, rules[0].key, f, lang, cfg, root) + exec_out(chk_gs(gs, rules[0].key, f, lang, cfg, root),
                                                                   rules[1:], f, lang, cfg, root)


@opaque
def exec_gs(gs: RStateT, rules: SeqOf(RuleT), f: PathT, lang: Str, cfg: Dict, root: PathT) -> RStateT:
    if len(rules) == 0:
        return gs
    return exec_gs(chk_gs(gs, rules[0].key, f, lang, cfg, root), rules[1:], f, lang, cfg, root)


def ready(gs, disc):
    """Rule state after lazy discovery."""
    return gs if disc else discovered(gs)


def lf_skip(f, cache, iroot, pats):
    """Property text: the file is inside an always-excluded directory / a compiled artefact / repository-ignored."""
    return hard_excluded(f) or ign_now(cache, iroot, pats, f)


@opaque
def lf_out(f: PathT, gs: RStateT, disc: Bool, cache: Dict, oroot: PathT, cfg: Dict, iroot: PathT, pats: SeqOf(Str)) -> Viols:
    """lint_file: nothing for skipped files, otherwise every registered rule on the file."""
    return [] if lf_skip(f, cache, iroot, pats) else \
        exec_out(ready(gs, disc), rules_of(ready(gs, disc)), f, lang_of(f), cfg, oroot)


@opaque
def lf_gs(f: PathT, gs: RStateT, disc: Bool, cache: Dict, oroot: PathT, cfg: Dict, iroot: PathT, pats: SeqOf(Str)) -> RStateT:
    return gs if lf_skip(f, cache, iroot, pats) else \
        exec_gs(ready(gs, disc), rules_of(ready(gs, disc)), f, lang_of(f), cfg, oroot)


@opaque
def lf_disc(f: PathT, disc: Bool, cache: Dict, iroot: PathT, pats: SeqOf(Str)) -> Bool:
    return disc or not lf_skip(f, cache, iroot, pats)


@opaque
def lf_cache(f: PathT, cache: Dict, iroot: PathT, pats: SeqOf(Str)) -> Dict:
    return cache if hard_excluded(f) else cache_after(cache, iroot, pats, f)


@opaque
def run_out(files: SeqOf(PathT), gs: RStateT, disc: Bool, cache: Dict, oroot: PathT, cfg: Dict, iroot: PathT,
            pats: SeqOf(Str)) -> Viols:
    """Concatenation of lint_file over the files, in order, threading the orchestrator state."""
    if len(files) == 0:
        return []
    return lf_out(files[0], gs, disc, cache, oroot, cfg, iroot, pats) + \
        run_out(files[1:], lf_gs(files[0], gs, disc, cache, oroot, cfg, iroot, pats), lf_disc(files[0], disc, cache, iroot, pats),
                lf_cache(files[0], cache, iroot, pats), oroot, cfg, iroot, pats)


@opaque
def run_gs(files: SeqOf(PathT), gs: RStateT, disc: Bool, cache: Dict, oroot: PathT, cfg: Dict, iroot: PathT,
           pats: SeqOf(Str)) -> RStateT:
    if len(files) == 0:
        return gs
    return run_gs(files[1:], lf_gs(files[0], gs, disc, cache, oroot, cfg, iroot, pats), lf_disc(files[0], disc, cache, iroot, pats),
                  lf_cache(files[0], cache, iroot, pats), oroot, cfg, iroot, pats)


@opaque
def run_disc(files: SeqOf(PathT), disc: Bool, cache: Dict, iroot: PathT, pats: SeqOf(Str)) -> Bool:
    if len(files) == 0:
        return disc
    return run_disc(files[1:], lf_disc(files[0], disc, cache, iroot, pats), lf_cache(files[0], cache, iroot, pats), iroot, pats)


@opaque
def run_cache(files: SeqOf(PathT), cache: Dict, iroot: PathT, pats: SeqOf(Str)) -> Dict:
    if len(files) == 0:
        return cache
    return run_cache(files[1:], lf_cache(files[0], cache, iroot, pats), iroot, pats)


@opaque
def fin_all(rules: SeqOf(RuleT)) -> Viols:
    """Concatenation of finalize() over the rules (each rule's finalize sees only its own evidence)."""
    if len(rules) == 0:
        return []
    return fin_out(rules[0].key, rules[0].ev) + fin_all(rules[1:])


def S_out(self, files):
    """run_out from the orchestrator's state."""
    return run_out(files, self.registry.gs, self._rules_discovered, self.ignore_parser._ignore_cache, self.project_root,
                   self.config, self.ignore_parser.project_root, self.ignore_parser.repo_patterns)


def S_gs(self, files):
    return run_gs(files, self.registry.gs, self._rules_discovered, self.ignore_parser._ignore_cache, self.project_root,
                  self.config, self.ignore_parser.project_root, self.ignore_parser.repo_patterns)


def S_disc(self, files):
    return run_disc(files, self._rules_discovered, self.ignore_parser._ignore_cache, self.ignore_parser.project_root,
                    self.ignore_parser.repo_patterns)


def S_cache(self, files):
    return run_cache(files, self.ignore_parser._ignore_cache, self.ignore_parser.project_root,
                     self.ignore_parser.repo_patterns)


def same_env(self, old):
    """The parts of the orchestrator a lint run never changes."""
    return self.project_root == old.self.project_root and self.config == old.self.config \
        and self.ignore_parser.project_root == old.self.ignore_parser.project_root \
        and self.ignore_parser.repo_patterns == old.self.ignore_parser.repo_patterns


# =================================================================== orchestrator functions (verified)
@contract(O + "Orchestrator._ensure_rules_discovered", props=["C10", "C08"], types=dict(self=OrchT),
          modifies=["self.registry.gs", "self._rules_discovered"])
class EnsureRulesDiscovered:
    def ensures(self, old):
        return self._rules_discovered and self.registry.gs == ready(old.self.registry.gs, old.self._rules_discovered)


@contract(O + "Orchestrator._get_rules_for_file", props=["C10", "C15"], types=dict(self=OrchT, file_path=PathT, language=Str),
          returns=SeqOf(RuleT), modifies=["self.registry.gs", "self._rules_discovered"])
class GetRulesForFile:
    def ensures(self, file_path, language, result, old):
        # every registered rule, whatever the file and the language (language filtering is each rule's own business)
        return self._rules_discovered and self.registry.gs == ready(old.self.registry.gs, old.self._rules_discovered) \
            and result == rules_of(self.registry.gs)


@contract(O + "Orchestrator._execute_rules", props=["C10", "C08", "C11"],
          types=dict(self=OrchT, rules=SeqOf(RuleT), context=CtxT, violations=Viols, rule_violations=Viols, rule=RuleT),
          returns=Viols, raises=["ValueError"], modifies=["self.registry.gs"])
class ExecuteRules:
    def ensures_concatenation_in_order(self, rules, context, result, old):
        return result == exec_out(old.self.registry.gs, rules, context._path, context._language, self.config, self.project_root)

    def ensures_state(self, rules, context, old):
        return self.registry.gs == exec_gs(old.self.registry.gs, rules, context._path, context._language, self.config,
                                           self.project_root)

    def inv0(self, rules, context, violations, rest, old):
        return reveal(exec_out, self.registry.gs, rest, context._path, context._language, self.config, self.project_root) \
            and reveal(exec_gs, self.registry.gs, rest, context._path, context._language, self.config, self.project_root) \
            and same_env(self, old) and self._rules_discovered == old.self._rules_discovered \
            and self.ignore_parser._ignore_cache == old.self.ignore_parser._ignore_cache \
            and context._path == old.context._path and context._language == old.context._language \
            and context._content == old.context._content and context._lines == old.context._lines \
            and context.metadata == old.context.metadata \
            and exec_out(old.self.registry.gs, rules, context._path, context._language, self.config, self.project_root) \
            == violations + exec_out(self.registry.gs, rest, context._path, context._language, self.config, self.project_root) \
            and exec_gs(old.self.registry.gs, rules, context._path, context._language, self.config, self.project_root) \
            == exec_gs(self.registry.gs, rest, context._path, context._language, self.config, self.project_root)


@contract(O + "Orchestrator.lint_file", props=["C10", "C14", "C08", "C07", "C15"], types=dict(self=OrchT, file_path=PathT),
          returns=Viols, raises=["ValueError", "OSError"],
          modifies=["self.registry.gs", "self._rules_discovered", "self.ignore_parser._ignore_cache"])
class LintFile:
    def reveals(self, file_path):
        return reveal(lf_out, file_path, self.registry.gs, self._rules_discovered, self.ignore_parser._ignore_cache,
                      self.project_root, self.config, self.ignore_parser.project_root, self.ignore_parser.repo_patterns) \
            and reveal(lf_gs, file_path, self.registry.gs, self._rules_discovered, self.ignore_parser._ignore_cache,
                       self.project_root, self.config, self.ignore_parser.project_root, self.ignore_parser.repo_patterns) \
            and reveal(lf_disc, file_path, self._rules_discovered, self.ignore_parser._ignore_cache,
                       self.ignore_parser.project_root, self.ignore_parser.repo_patterns) \
            and reveal(lf_cache, file_path, self.ignore_parser._ignore_cache, self.ignore_parser.project_root,
                       self.ignore_parser.repo_patterns)

    def ensures_result(self, file_path, result, old):
        return result == lf_out(file_path, old.self.registry.gs, old.self._rules_discovered,
                                old.self.ignore_parser._ignore_cache, self.project_root, self.config,
                                self.ignore_parser.project_root, self.ignore_parser.repo_patterns)

    def ensures_state(self, file_path, old):
        return self.registry.gs == lf_gs(file_path, old.self.registry.gs, old.self._rules_discovered,
                                         old.self.ignore_parser._ignore_cache, self.project_root, self.config,
                                         self.ignore_parser.project_root, self.ignore_parser.repo_patterns) \
            and self._rules_discovered == lf_disc(file_path, old.self._rules_discovered, old.self.ignore_parser._ignore_cache,
                                                  self.ignore_parser.project_root, self.ignore_parser.repo_patterns) \
            and self.ignore_parser._ignore_cache == lf_cache(file_path, old.self.ignore_parser._ignore_cache,
                                                             self.ignore_parser.project_root, self.ignore_parser.repo_patterns)

    def ensures_excluded_or_ignored_contributes_nothing(self, file_path, result, old):
        # property text (C14): an excluded or ignored file never contributes a violation, even when named explicitly;
        # and no rule runs on it (the rule state is untouched, rules are not even discovered for it)
        return implies(hard_excluded(file_path)
                       or (cache_coherent(old.self.ignore_parser._ignore_cache, self.ignore_parser.project_root,
                                          self.ignore_parser.repo_patterns, file_path)
                           and ign_fresh(self.ignore_parser.project_root, self.ignore_parser.repo_patterns, file_path)),
                       result == [] and self.registry.gs == old.self.registry.gs
                       and self._rules_discovered == old.self._rules_discovered)

    def ensures_other_files_get_every_rule(self, file_path, result, old):
        # property text (C14): every other file is judged by every registered rule
        return implies(not lf_skip(file_path, old.self.ignore_parser._ignore_cache, self.ignore_parser.project_root,
                                   self.ignore_parser.repo_patterns),
                       result == exec_out(ready(old.self.registry.gs, old.self._rules_discovered),
                                          rules_of(ready(old.self.registry.gs, old.self._rules_discovered)),
                                          file_path, lang_of(file_path), self.config, self.project_root))


@contract(O + "Orchestrator.lint_files", props=["C10", "C08", "C07", "C14"],
          types=dict(self=OrchT, file_paths=SeqOf(PathT), violations=Viols, file_path=PathT, rule=RuleT),
          returns=Viols, raises=["ValueError", "OSError"],
          modifies=["self.registry.gs", "self._rules_discovered", "self.ignore_parser._ignore_cache"])
class LintFiles:
    def ensures_files_then_finalize(self, file_paths, result, old):
        # C10: concatenation of lint_file over the files, in order, followed by finalize() of every registered rule
        return result == S_out(old.self, file_paths) + fin_all(rules_of(S_gs(old.self, file_paths)))

    def inv0(self, file_paths, violations, rest, old):
        return files_invariant(self, file_paths, violations, rest, old)

    def inv1(self, file_paths, violations, rest, old):
        return reveal(fin_all, rest) and same_env(self, old) \
            and S_out(old.self, file_paths) + fin_all(rules_of(S_gs(old.self, file_paths))) == violations + fin_all(rest)


def files_invariant(self, files, violations, rest, old):
    """Loop invariant of the per-file loop of lint_files / lint_directory (phrased over the unprocessed suffix)."""
    return reveal(run_out, rest, self.registry.gs, self._rules_discovered, self.ignore_parser._ignore_cache, self.project_root,
                  self.config, self.ignore_parser.project_root, self.ignore_parser.repo_patterns) \
        and reveal(run_gs, rest, self.registry.gs, self._rules_discovered, self.ignore_parser._ignore_cache, self.project_root,
                   self.config, self.ignore_parser.project_root, self.ignore_parser.repo_patterns) \
        and same_env(self, old) \
        and S_out(old.self, files) == violations + S_out(self, rest) \
        and S_gs(old.self, files) == S_gs(self, rest)


@contract(O + "Orchestrator.lint_directory", props=["C10", "C08", "C07", "C14"],
          types=dict(self=OrchT, dir_path=PathT, recursive=Bool, violations=Viols, file_path=PathT, rule=RuleT,
                     file_paths=SeqOf(PathT)),
          returns=Viols, raises=["ValueError", "OSError"],
          modifies=["self.registry.gs", "self._rules_discovered", "self.ignore_parser._ignore_cache"])
class LintDirectory:
    def ensures_directory_is_its_files(self, dir_path, recursive, result, old):
        # C10: linting a directory == linting the list of collected files (same fold, same finalize)
        return result == S_out(old.self, walk_files(dir_path, recursive)) \
            + fin_all(rules_of(S_gs(old.self, walk_files(dir_path, recursive))))

    def inv0(self, dir_path, recursive, violations, rest, old):
        return files_invariant(self, walk_files(dir_path, recursive), violations, rest, old)

    def inv1(self, dir_path, recursive, violations, rest, old):
        return reveal(fin_all, rest) and same_env(self, old) \
            and S_out(old.self, walk_files(dir_path, recursive)) + fin_all(rules_of(S_gs(old.self, walk_files(dir_path, recursive)))) \
            == violations + fin_all(rest)
