"""C11 -- exception containment at the input boundary (the fragment of C11 that contracts can decide; DESIGN.md 3/C11, 4).

What is claimed: for the functions below, the set of exception classes that can escape is EXACTLY the declared one
(`raises=[...]`, checked on every path through try/except), given the declared raise sets of the external calls they
make (file reads, ast.parse, yaml.safe_load -- trusted, listed in the evidence). What is NOT claimed: anything about
arbitrary byte strings end to end, hangs, native crashes, the interpreter's recursion limit inside the tree walks, or
exceptions of class BaseException-but-not-Exception (KeyboardInterrupt, SystemExit) -- `_safe_check_rule` does not
contain those by design.

External raise sets (trusted):
  Path.read_text(encoding="utf-8")  OSError, UnicodeDecodeError
  Path.stat()                        OSError
  yaml.safe_load(text)               YAMLError
  ast.parse(text)                    SyntaxError, RecursionError, MemoryError
      (CPython 3.12: a NUL byte is a SyntaxError, no longer a ValueError; lone surrogates -- the other ValueError
       source -- cannot occur in text decoded from UTF-8, which is the only way file content reaches ast.parse.)

All three classes of ast.parse are contained by every parsing helper under contract (raise set []); see the `fixed`
list of known_findings.json for the repaired defect C11-ast-parse-limits."""
import ast

import z3

from pyvc.api import (contract, lemma, Any, Int, Bool, Str, Dict, Opt, Rec, SeqOf, TupleOf, Opaque, implies, call, mk,
                      is_str_list, as_str_list)
from pyvc.ex_call import external, EXTERNALS
from pyvc.run import RaiseSig
from pyvc.ty import VBool, VStr, VNode, VOpaque, VAny, VExc, VInt, VOpt, Unsupported, fresh_name, ValSort
from contracts._common import ViolationT, PathT, path_str
from contracts._nodes import PyNode
from contracts import c09_paths  # noqa: F401  (registers the pathlib externals Path.exists / Path.@suffix used below)
from contracts import c15_language  # noqa: F401  (file-system snapshot externals Path.read_text / Path.stat with their raise sets;
#                                              contracts of language_detector.py incl. the C11 raise-set clauses)
from contracts.c12_sites import CtxT, SyntaxErrorT  # noqa: F401


# ================================================================== externals with declared raise sets (trusted)
def _may_raise(ex, classes, lineno):
    """The external call may fail with any of the given classes (one fresh boolean per class and call site)."""
    if ex.merge_depth > 0 or ex.spec_depth > 0:
        return
    for cls in classes:
        b = z3.Const(fresh_name(f"ext.raises.{cls}"), z3.BoolSort())
        if ex.decide(b):
            raise RaiseSig(VExc(cls))


@external("yaml.safe_load")
def _x_yaml_safe_load(ex, args, kwargs, lineno):
    """yaml.safe_load(text_or_file) -> an arbitrary dynamic value (None, scalar, list, dict) that is a FUNCTION of the
    argument (`uf.yaml_doc`: the document of that text / file handle); raises yaml.YAMLError."""
    ex.ufs_used.add("yaml.safe_load returns an arbitrary value (a function of its argument) or raises YAMLError")
    _may_raise(ex, ("YAMLError",), lineno)
    a = args[0] if args else None
    if a is not None and hasattr(a, "t") and not isinstance(a, VAny):
        return VAny(z3.Function("uf.yaml_doc", a.t.sort(), ValSort)(a.t))
    return VAny(z3.Const(fresh_name("yaml_doc"), ValSort))


@external("ast.parse")
def _x_ast_parse(ex, args, kwargs, lineno):
    """ast.parse(text) -> some Module node; raises SyntaxError, RecursionError ('maximum recursion depth exceeded
    during ast construction') or MemoryError ('Parser stack overflowed')."""
    ex.ufs_used.add("ast.parse returns a Module node or raises SyntaxError / RecursionError / MemoryError")
    _may_raise(ex, ("SyntaxError", "RecursionError", "MemoryError"), lineno)
    a = args[0] if args else None
    if isinstance(a, VOpt) and isinstance(a.val, VStr) and ex.known(a.isnone) is False:
        a = a.val   # `code or ""`: an optional that cannot be None here
    if isinstance(a, VStr) and not a.is_bytes:
        n = z3.Function("uf.ast_module_of", z3.StringSort(), PyNode.sort())(a.t)   # the tree is a function of the text
    else:
        n = z3.Const(fresh_name("module"), PyNode.sort())
    ex.assume(n != PyNode.null)
    ex.assume(PyNode.attr_func("kind_")(n) == z3.StringVal("Module"))
    return VNode(n, PyNode)



from pyvc.api import uf  # noqa: E402

ast_module_of = uf("ast_module_of", [Str], PyNode, concrete=lambda text: ast.parse(text))  # CPython's tree of a text
# structure AND positions of a tree as text (two parses of one text are different objects: compare them through this)
ast_positions = uf("ast_dump_with_positions", [PyNode], Str, concrete=lambda n: "" if n is None else ast.dump(n, include_attributes=True))

# ================================================================== orchestrator: reading the file
O = "src/orchestrator/core.py::"
FileCtxT = Rec("FileLintContext", cls=O + "FileLintContext", _path=Opt(PathT), _language=Str, _content=Opt(Str),
               _lines=Opt(SeqOf(Str)))


@contract(O + "FileLintContext.file_content", props=["C11"], types=dict(self=FileCtxT), returns=Opt(Str), raises=[],
          modifies=["self._content"])
class FileContent:
    """Unreadable / undecodable / missing file => None, never an exception."""
    def ensures_preloaded_content_wins(self, old, result):
        return implies(old.self._content is not None, result == old.self._content)

    def ensures_no_path_no_content(self, old, result):
        return implies(old.self._content is None and old.self._path is None, result is None)

    def ensures_cached(self, result):
        return self._content == result


@contract(O + "FileLintContext.file_lines", props=["C11", "C13"], types=dict(self=FileCtxT, content=Opt(Str)),
          returns=SeqOf(Str), raises=[], modifies=["self._content", "self._lines"])
class FileLines:
    def ensures_no_content_no_lines(self, old, result):
        return implies(old.self._lines is None and old.self._content is None and old.self._path is None, len(result) == 0)

    def ensures_split_on_newline_only(self, old, result):
        # "\r" stays at the end of the lines of a CRLF file: consumers must strip (C13)
        return implies(old.self._lines is None and old.self._content is not None and old.self._content != "",
                       result == old.self._content.split("\n"))


# ================================================================== orchestrator: running a rule
# "any Exception": the generic class and the concrete classes a Python rule can plausibly raise, including subclasses of
# ValueError (handlers are matched by the class hierarchy of pyvc.ex.EXC_PARENTS)
VALUE_ERRORS = ("ValueError", "UnicodeDecodeError", "UnicodeError", "JSONDecodeError", "TOMLDecodeError")
ANY_EXCEPTION = VALUE_ERRORS + ("Exception", "KeyError", "IndexError", "TypeError", "AttributeError", "RuntimeError",
                                "RecursionError", "MemoryError", "OSError", "FileNotFoundError", "SyntaxError",
                                "ZeroDivisionError", "AssertionError", "StopIteration", "NotImplementedError", "ImportError")
RuleT = Rec("BaseLintRule", cls="src/core/base.py::BaseLintRule")
OrchT = Rec("Orchestrator", cls=O + "Orchestrator")


@contract("src/core/base.py::BaseLintRule.check", props=["C11", "C05"], types=dict(self=RuleT, context=CtxT),
          returns=SeqOf(ViolationT), raises=list(ANY_EXCEPTION),
          assumed="abstract method: stands for ANY rule implementation -- may return any list or raise any Exception "
                  "(modelled by the classes of ANY_EXCEPTION; ValueError and its subclasses = configuration validation "
                  "error, by the orchestrator's convention)")
class RuleCheck:
    def ensures(result):
        return True


@contract("src/core/base.py::BaseLintRule.rule_id", props=["C11", "C05"], types=dict(self=RuleT), returns=Str,
          assumed="abstract property (only used in the log message)")
class RuleId:
    def ensures(result):
        return True


@contract(O + "Orchestrator._safe_check_rule~containment", props=["C11", "C05"], types=dict(self=OrchT, rule=RuleT, context=CtxT),
          returns=SeqOf(ViolationT), raises=["ValueError"])
class SafeCheckRule:
    """Containment (exit-code half of C11): whatever Exception a rule raises, only ValueError (configuration errors,
    user-facing) leaves; every other Exception becomes the empty result. This is ALSO the place where an analysis is
    dropped silently: the clause says what the code does, it is not the 'no rule fails internally' half of C11."""
    def on_raise_only_configuration_errors(exc_class):
        # ValueError or one of its subclasses (`except ValueError: raise`) -- NOTE: that includes e.g. a
        # UnicodeDecodeError / JSONDecodeError raised by a rule's own code, which therefore is NOT contained
        return exc_class in VALUE_ERRORS


# ================================================================== ignore files
IG = "src/linter_config/ignore.py::"


from contracts import c14_collect  # noqa: E402,F401  (contract of pattern_utils.extract_patterns_from_content)


@contract(IG + "_extract_ignore_patterns", props=["C11"], types=dict(config=Any, ignore_patterns=Any), returns=SeqOf(Str),
          raises=[])
class ExtractIgnorePatterns:
    """Any YAML document shape (None, scalar, list, dict with any `ignore` value) is tolerated."""
    def ensures_non_dict_gives_nothing(config, result):
        return implies(not isinstance(config, dict), len(result) == 0)

    def ensures_string_patterns_are_taken_verbatim(config, result):
        return implies(isinstance(config, dict) and "ignore" in config and is_str_list(config["ignore"]),
                       result == as_str_list(config["ignore"]))


@contract(IG + "_parse_thailintignore_file", props=["C11"], types=dict(ignore_file=PathT), returns=SeqOf(Str), raises=[])
class ParseThailintignoreFile:
    """Unreadable / undecodable .thailintignore => no patterns (a warning is logged), never an exception."""
    def ensures(result):
        return True


@contract(IG + "_parse_config_file", props=["C11"], types=dict(config_file=PathT, config=Any), returns=SeqOf(Str), raises=[])
class ParseConfigFile:
    """Unreadable / undecodable / malformed .thailint.yaml => no patterns, never an exception."""
    def ensures(result):
        return True


@contract(IG + "_read_file_first_lines", props=["C11"], types=dict(file_path=PathT), returns=SeqOf(Str), raises=[])
class ReadFileFirstLines:
    def ensures_at_most_header_scan_lines(result):
        return len(result) <= 10


# ================================================================== Python parsing helpers: every ast.parse failure is contained
# SyntaxError AND the parser's resource-limit errors (RecursionError "maximum recursion depth exceeded during ast
# construction", MemoryError "Parser stack overflowed") are handled alike: the helper returns the syntax-error notice /
# None / [] and never lets an exception reach Orchestrator._safe_check_rule (raise set [] -- exact).
# (Until the fix: commit recorded in known_findings.json `fixed` the two resource-limit classes escaped and 14 rules
# silently abandoned their analysis of such a file.)
LU = "src/core/linter_utils.py::"
SEBuilderT = Rec("SyntaxErrorViolationBuilder", cls=LU + "SyntaxErrorViolationBuilder")


@contract(LU + "SyntaxErrorViolationBuilder.create_syntax_error_violation", props=["C11"],
          types=dict(self=SEBuilderT, context=CtxT), returns=ViolationT,
          assumed="Protocol method (body is `...`): stands for the per-linter syntax-error notice builders, which only "
                  "construct a Violation (contracts in c12_sites.py / c01 / c16)")
class ProtoCreateSyntaxError:
    def ensures(result):
        return True


@contract(LU + "parse_python_ast", props=["C11", "C12"], types=dict(context=CtxT, violation_builder=SEBuilderT),
          returns=TupleOf(PyNode, SeqOf(ViolationT)), raises=[])
class ParsePythonAst:
    def ensures_total(result):
        # raise set [] is exact: SyntaxError, RecursionError and MemoryError of ast.parse are all contained
        return True

    def ensures_tree_or_one_syntax_error_notice(result):
        return (result[0] is not None) == (len(result[1]) == 0) and len(result[1]) <= 1

    def ensures_parses_exactly_the_file_content(context, result):
        # C12: ast line numbers are line numbers of the file only if the parsed text IS the file content
        return implies(result[0] is not None, ast_positions(result[0]) == ast_positions(
            ast_module_of(context.file_content if context.file_content else "")))


@contract("src/linters/print_statements/linter.py::PrintStatementRule._parse_python_code", props=["C11", "C12"],
          types=dict(code=Opt(Str)), returns=PyNode, raises=[])
class PrintParsePythonCode:
    def ensures_total(result):
        # raise set [] is exact: SyntaxError, RecursionError and MemoryError of ast.parse are all contained
        return True

    def ensures_parses_exactly_the_given_text(code, result):
        return implies(result is not None, ast_positions(result) == ast_positions(ast_module_of(code if code else "")))


@contract("src/linters/print_statements/conditional_verbose_rule.py::ConditionalVerboseRule._parse_python_code",
          props=["C11", "C12"], types=dict(code=Opt(Str)), returns=PyNode, raises=[])
class VerboseParsePythonCode:
    def ensures_total(result):
        # raise set [] is exact: SyntaxError, RecursionError and MemoryError of ast.parse are all contained
        return True

    def ensures_parses_exactly_the_given_text(code, result):
        return implies(result is not None, ast_positions(result) == ast_positions(ast_module_of(code if code else "")))


@contract("src/linters/method_property/linter.py::MethodPropertyRule._parse_python_code", props=["C11", "C12"],
          types=dict(code=Opt(Str)), returns=PyNode, raises=[])
class MethodPropertyParsePythonCode:
    def ensures_total(result):
        # raise set [] is exact: SyntaxError, RecursionError and MemoryError of ast.parse are all contained
        return True

    def ensures_parses_exactly_the_given_text(code, result):
        return implies(result is not None, ast_positions(result) == ast_positions(ast_module_of(code if code else "")))


@contract("src/linters/lbyl/python_analyzer.py::_parse_python_code", props=["C11", "C12"], types=dict(code=Str), returns=PyNode,
          raises=[])
class LbylParsePythonCode:
    def ensures_total(result):
        # raise set [] is exact: SyntaxError, RecursionError and MemoryError of ast.parse are all contained
        return True

    def ensures_blank_source_is_not_parsed(code, result):
        return implies(code == "", result is None)

    def ensures_parses_exactly_the_given_text(code, result):
        return implies(result is not None, ast_positions(result) == ast_positions(ast_module_of(code)))


@contract("src/linters/stateless_class/python_analyzer.py::analyze_code", props=["C11"],
          types=dict(code=Str, min_methods=Int), returns=SeqOf(Rec("ClassInfoAny")), raises=[])
class StatelessAnalyzeCode:
    def ensures_total(result):
        # raise set [] is exact: SyntaxError, RecursionError and MemoryError of ast.parse are all contained
        return True


# ================================================================== linter_utils: total helpers on the lint context
@contract(LU + "has_file_content", props=["C11"], types=dict(context=CtxT), returns=Bool, raises=[])
class HasFileContent:
    def value(context):
        return context.file_content is not None


@contract(LU + "has_file_path", props=["C11"], types=dict(context=CtxT), returns=Bool, raises=[])
class HasFilePath:
    def value(context):
        return context.file_path is not None


@contract(LU + "should_process_file", props=["C11"], types=dict(context=CtxT), returns=Bool, raises=[])
class ShouldProcessFile:
    def value(context):
        return context.file_content is not None and context.file_path is not None


@contract(LU + "resolve_file_path", props=["C11", "C12"], types=dict(context=CtxT), returns=Str, raises=[])
class ResolveFilePath:
    def value(context):
        return path_str(context.file_path) if context.file_path is not None else "unknown"


@contract(LU + "is_ignored_path", props=["C11", "C09"], types=dict(file_path=Str, ignore_patterns=SeqOf(Str)), returns=Bool,
          raises=[])
class IsIgnoredPath:
    def value(file_path, ignore_patterns):
        return any(ignored in file_path for ignored in ignore_patterns)


# ================================================================== literal-text conversions: ValueError is contained
# Orchestrator._safe_check_rule re-raises ValueError and its subclasses (proved above), so a ValueError escaping from a
# rule's own string-to-number conversion is NOT contained by the orchestrator: the run aborts (exit 2) or, in a worker,
# the file's analysis is dropped. The functions that convert SOURCE TEXT to numbers must therefore contain it themselves.
# These are view-tagged contracts (`~containment`): the functional contracts of the same functions (what value a literal
# denotes -- C02, trusted string parsing) are in c02_magic_numbers.py / c03; here only the raise set is claimed, from the
# body: int(text, base) / float(text) may raise ValueError for any text (validity of a literal is uninterpreted).
from contracts._nodes import TSNode  # noqa: E402
from contracts import c01_ts_base, c17_rust_context, c02_magic_numbers  # noqa: E402,F401  (callee contracts: extract_node_text of
#                                                       the base analyzers, RustMagicNumberAnalyzer._strip_type_suffix)

MN_TS = "src/linters/magic_numbers/typescript_analyzer.py::TypeScriptMagicNumberAnalyzer."
MN_RS = "src/linters/magic_numbers/rust_analyzer.py::RustMagicNumberAnalyzer."


@contract(MN_TS + "_extract_numeric_value~containment", props=["C11"],
          types=dict(self=Rec("TypeScriptMagicNumberAnalyzer", cls=MN_TS[:-1]), node=TSNode), raises=[])
class TsExtractNumericValueContainment:
    """Any token text -- BigInt `10n`, legacy octal `0755`, `08`, a malformed float -- yields a value or None, never an
    exception."""
    def requires(self, node):
        return node is not None

    def ensures_total(self, node):
        return True


@contract(MN_RS + "_strip_type_suffix~containment", props=["C11"],
          types=dict(self=Rec("RustMagicNumberAnalyzer", cls=MN_RS[:-1]), text=Str, suffix=Str), returns=Str, raises=[])
class RsStripTypeSuffixContainment:
    def ensures_total(text, result):
        return True


@contract(MN_RS + "_extract_numeric_value~containment", props=["C11"],
          types=dict(self=Rec("RustMagicNumberAnalyzer", cls=MN_RS[:-1]), node=TSNode), raises=[])
class RsExtractNumericValueContainment:
    def requires(self, node):
        return node is not None

    def ensures_total(self, node):
        return True


@contract("src/linters/dry/violation_filter.py::ViolationFilter._extract_line_count~containment", props=["C11"],
          types=dict(message=Str, start=Int, end=Int), returns=Int, raises=[])
class FilterExtractLineCountContainment:
    """message.index(...) and int(...) on the message text: ValueError / IndexError -> the documented fallback."""
    def ensures_total(message, result):
        return True


@contract("src/linters/dry/violation_generator.py::ViolationGenerator._extract_line_count~containment", props=["C11"],
          types=dict(message=Str, start=Int, end=Int), returns=Int, raises=[])
class GeneratorExtractLineCountContainment:
    def ensures_total(message, result):
        return True


# ================================================================== regex literals: no catastrophic-backtracking SHAPE
# "terminates" is not a contract clause (the regex engine's running time is outside every proof). What CAN be decided
# from the source is a syntactic SUFFICIENT condition for exponential backtracking in a backtracking engine (Python's
# `re`): an unbounded repetition whose body is, up to nullable parts, itself an unbounded repetition -- (X+)+, (X*)*,
# (X+ Y*)+ ... -- because a run of X-characters can then be split between iterations in exponentially many ways and all
# are tried when the overall match fails. One obligation per regex literal handed to re.* under src/ (and per other
# string constant that contains a quantified group). NOT claimed: absence of polynomial blow-ups (adjacent overlapping
# repeats), ambiguity through alternation, patterns built at run time.
import os as _os  # noqa: E402
import re as _re  # noqa: E402
import re._parser as _sre_parse  # noqa: E402
from re._constants import (MAX_REPEAT as _MAXR, MIN_REPEAT as _MINR, SUBPATTERN as _SUB, BRANCH as _BR, AT as _AT,  # noqa: E402
                           ASSERT as _AS, ASSERT_NOT as _ASN, GROUPREF as _GREF, MAXREPEAT as _INF)
from pyvc.api import custom  # noqa: E402

_RE_FUNCS = {"compile", "search", "match", "fullmatch", "sub", "subn", "split", "findall", "finditer"}


def _re_unbounded(hi):
    return hi is _INF or (isinstance(hi, int) and hi >= 1000)


def _re_nullable_item(op, av):
    if op in (_MAXR, _MINR):
        return av[0] == 0 or _re_nullable(av[2])
    if op is _SUB:
        return _re_nullable(av[3])
    if op is _BR:
        return any(_re_nullable(b) for b in av[1])
    if op in (_AT, _AS, _ASN, _GREF):
        return True
    if str(op) == "ATOMIC_GROUP":
        return _re_nullable(av)
    if str(op) == "POSSESSIVE_REPEAT":
        return av[0] == 0 or _re_nullable(av[2])
    return False


def _re_nullable(seq):
    return all(_re_nullable_item(op, av) for op, av in seq)


def _re_flatten(seq):
    out = []
    for op, av in seq:
        if op is _SUB:
            out.extend(_re_flatten(av[3]))
        else:
            out.append((op, av))
    return out


def _re_body_splits_ambiguously(body):
    items = _re_flatten(body)
    for i, (op, av) in enumerate(items):
        if op in (_MAXR, _MINR) and _re_unbounded(av[1]):
            if all(_re_nullable_item(o, a) for o, a in items[:i] + items[i + 1:]):
                return True
    return False


def regex_backtracking_shapes(pattern):
    """Descriptions of the catastrophic-backtracking shapes found in a pattern ([] = none; None = not a valid regex)."""
    try:
        tree = _sre_parse.parse(pattern)
    except Exception:  # noqa
        return None
    found = []

    def walk(seq):
        for op, av in seq:
            if op in (_MAXR, _MINR):
                if _re_unbounded(av[1]) and _re_body_splits_ambiguously(av[2]):
                    found.append("unbounded repetition whose body is (up to nullable parts) an unbounded repetition")
                walk(av[2])
            elif op is _SUB:
                walk(av[3])
            elif op is _BR:
                for b in av[1]:
                    walk(b)
            elif op in (_AS, _ASN):
                walk(av[1])
            elif str(op) == "ATOMIC_GROUP":
                walk(av)
            elif str(op) == "POSSESSIVE_REPEAT":
                walk(av[2])
    walk(tree)
    return found


def regex_literals(root):
    """(site id, line, pattern): string literals passed as the pattern of re.<fn>(...), and any other single-line string
    constant that contains a quantified group `)+`, `)*`, `){n,}` and parses as a regex."""
    out = []
    for dp, dns, fns in _os.walk(_os.path.join(root, "src")):
        dns.sort()
        for fn in sorted(fns):
            if not fn.endswith(".py"):
                continue
            path = _os.path.join(dp, fn)
            rel = _os.path.relpath(path, root)
            with open(path, encoding="utf-8") as fh:
                tree = ast.parse(fh.read())
            seen, k = set(), 0
            for n in ast.walk(tree):
                if isinstance(n, ast.Call) and n.args and isinstance(n.args[0], ast.Constant) and isinstance(n.args[0].value, str):
                    f = n.func
                    nm = f.attr if isinstance(f, ast.Attribute) else f.id if isinstance(f, ast.Name) else None
                    if nm in _RE_FUNCS and (isinstance(f, ast.Name) or isinstance(f.value, ast.Name)):
                        seen.add(id(n.args[0]))
                        out.append((f"{rel}#re.{nm}#{k}", n.args[0].lineno, n.args[0].value))
                        k += 1
            for n in ast.walk(tree):
                if isinstance(n, ast.Constant) and isinstance(n.value, str) and id(n) not in seen and "\n" not in n.value \
                        and len(n.value) < 400 and _re.search(r"\)[+*]|\)\{\d*,\}", n.value) \
                        and regex_backtracking_shapes(n.value) is not None:
                    out.append((f"{rel}#const#{k}", n.lineno, n.value))
                    k += 1
    return out


@custom("c11-regex-backtracking-shape", props=["C11"])
def c11_regex_backtracking_shape(ctx):
    obs = []
    for sid, line, pat in regex_literals(ctx["repo"]):
        shapes = regex_backtracking_shapes(pat)
        ok = shapes == [] or shapes is None
        obs.append({"name": f"c11-regex-backtracking-shape/{sid}", "kind": "post", "verdict": "discharged" if ok else "refuted",
                    "solver": "sre-parse-scan", "ms": 0.0, "carries": True, "lineno": line,
                    "note": ("no nested-unbounded-quantifier shape (syntactic sufficient condition only)" if ok else
                             f"pattern {pat!r}: {shapes[0]} -- exponential backtracking on a long run followed by a mismatch")})
    if not obs:
        obs.append({"name": "c11-regex-backtracking-shape/found-patterns", "kind": "post", "verdict": "unknown", "solver": "scan",
                    "ms": 0.0, "carries": True, "lineno": 0, "note": "no regex literal found under src/"})
    return obs


# ================================================================== BOUNDED net: no rule fails internally on mutated sources
# Labelled `bounded` (a finite native test at the property's observation point, NOT a proof, and not a replacement for
# the raise-set / safety obligations of the functions under contract): every registered rule is run by the real
# Orchestrator on grammar-aware mutations -- every single-token deletion, every single-token duplication, truncation
# after every third token -- of a small corpus of healthy Python / TypeScript / Rust files that exercise each linter's
# constructs. Oracle, from the property text only: lint_file returns (no exception escapes) and the orchestrator logs
# no "Rule ... failed on ..." record (= an analysis abandoned through a swallowed exception).
import json as _json  # noqa: E402
import subprocess as _subprocess  # noqa: E402
import sys as _sys  # noqa: E402
import tempfile as _tempfile  # noqa: E402

MUTATION_CORPUS = {
    "suppressions.py": '''"""
Purpose: sample module with suppression comments

Suppressions:
    - F401: re-exported name
    - type:ignore[attr-defined]: dynamic attribute
    * invalid-name: legacy API
"""
import os  # noqa: F401, E501
import sys  # noqa

value = sys.modules.get("x").thing  # type: ignore[attr-defined, misc]
X = 1  # pylint: disable=invalid-name,too-many-arguments
y = 2  # thailint: ignore[magic-numbers, nesting]
assert y  # nosec B101
''',
    "logging_patterns.py": '''import logging

logger = logging.getLogger(__name__)


def run(config, verbose, items):
    if config.get("verbose", default=False):
        logger.debug("starting %s", len(items))
    if verbose:
        logger.info("verbose on")
    if config.get("debug"):
        print("debug")
    for item in items:
        if not item.valid:
            continue
        logger.warning(item)


if __name__ == "__main__":
    print(run({}, True, []))
''',
    "patterns.py": '''import re


class User:
    def __init__(self, name):
        self._name = name

    def get_name(self):
        return self._name


class TokenHasher:
    def hash_token(self, token):
        return hash(token)

    def hash_all(self, tokens):
        return [hash(t) for t in tokens]


def process(data, lines, config, key):
    result = ""
    for item in data:
        result += str(item)
    for line in lines:
        if re.match(r"\\d+", line):
            timeout = 3600
    if key in config:
        value = config[key]
    saved = fetch(data)
    save(saved)
    return result
''',
    "call_forms.py": '''import os


def check(q, cache, d, opts, text, obj, items):
    if q.get(block=False):
        return 1
    if cache.get(**opts):
        return 2
    if d.get():
        return 3
    if d.get("verbose", False) and text.isnumeric():
        return int(text)
    if os.path.exists(*items):
        return open(*items)
    if hasattr(obj):
        return obj.value
    if isinstance(obj, (int, str)) and len(items) > 0:
        return items[0]
    if len() or d.get(key="k", default=None):
        return 4
    return None
''',
    "stringly.py": '''def handle(mode, env):
    if mode in ("fast", "slow", "auto"):
        return 1
    if env == "production":
        return 2
    elif env == "staging":
        return 3
    assert mode in {"a", "b"}
    return check(mode, "strict")
''',
    "sample.ts": '''#!/usr/bin/env node
import { readFile } from "fs";

export class Service {
  private count = 0;

  run(items: string[], mode: string): string {
    let out = "";
    for (const item of items) {
      out += item;
      if (mode === "fast") {
        console.log(item, 42, 0x1f, 10n);
      }
    }
    const data = fetchData(items)
      .filter((x) => x.length > 3)
      .map((x) => x.trim());
    this.save(data);
    return out;
  }
}
''',
    "sample.rs": '''use std::fs;

#[derive(Debug)]
struct Config { name: String }

async fn load(paths: Vec<String>) -> String {
    let mut out = String::new();
    for p in paths.iter() {
        let text = fs::read_to_string(p).unwrap();
        let copy = text.clone();
        out.push_str(&copy.clone().clone());
        let n: i32 = "42".parse().expect("number");
        let size = fs::read_to_string(p)
            .map(|s| s.len())
            .unwrap();
        if n > 1000 { std::thread::sleep(std::time::Duration::from_secs(5)); }
    }
    out
}

#[cfg(test)]
mod tests {
    #[test]
    fn t() { let x = Some(1).unwrap(); }
}
''',
}

_MUTATION_DRIVER = r"""
import json, logging, re, sys
from pathlib import Path
sys.path.insert(0, sys.argv[1])
root = Path(sys.argv[2])
corpus = json.loads((root / "corpus.json").read_text())
from src.orchestrator.core import Orchestrator
records = []
class Tap(logging.Handler):
    def emit(self, r):
        m = r.getMessage()
        if "failed on" in m or "Worker error" in m:
            exc = r.exc_info[1] if r.exc_info else None
            records.append(m + (" :: " + type(exc).__name__ + ": " + str(exc)[:120] if exc else ""))
lg = logging.getLogger("src.orchestrator.core"); lg.addHandler(Tap()); lg.propagate = False; lg.setLevel(logging.ERROR)
o = Orchestrator(project_root=root)
TOK = re.compile(r"\s+|[A-Za-z_][A-Za-z_0-9]*|\d+|.", re.S)
out = {}
for name, text in sorted(corpus.items()):
    toks = TOK.findall(text)
    idx = [i for i, t in enumerate(toks) if not t.isspace()]
    mutants = [("healthy", -1, text)]
    for i in idx:
        mutants.append(("delete-token", i, "".join(toks[:i] + toks[i + 1:])))
        if sys.argv[3] == "thorough":
            mutants.append(("duplicate-token", i, "".join(toks[:i + 1] + toks[i:])))
    for i in idx[::3]:
        mutants.append(("truncate", i, "".join(toks[:i + 1])))
    stem, ext = name.rsplit(".", 1)
    for k, (op, i, src) in enumerate(mutants):
        p = root / f"{stem}__m{k}.{ext}"
        p.write_text(src, encoding="utf-8")
        before = len(records)
        crash = None
        try:
            o.lint_file(p)
        except BaseException as e:  # noqa
            crash = type(e).__name__ + ": " + str(e)[:120]
        p.unlink()
        bad = records[before:] + ([("exception escaped lint_file: " + crash)] if crash else [])
        e = out.setdefault(name + "/" + op, {"n": 0, "bad": []})
        e["n"] += 1
        if bad and len(e["bad"]) < 5:
            line = src[:sum(len(t) for t in toks[:max(i, 0)])].count("\n") + 1
            e["bad"].append({"token": toks[i] if i >= 0 else "", "line": line, "what": bad[0][:260],
                             "mutated_line": (src.split("\n") + [""])[min(line - 1, len(src.split("\n")) - 1)][:120]})
        if bad:
            e["nbad"] = e.get("nbad", 0) + 1
print("RESULT" + json.dumps(out))
"""


@custom("c11-mutation-swallowed-failure-bounded", props=["C11"])
def c11_mutation_bounded(ctx):
    tmp = _tempfile.mkdtemp(prefix="c11mut_")
    with open(_os.path.join(tmp, "corpus.json"), "w", encoding="utf-8") as fh:
        _json.dump(MUTATION_CORPUS, fh)
    p = _subprocess.run([_sys.executable, "-c", _MUTATION_DRIVER, ctx["repo"], tmp, str(ctx.get("tier", "quick"))],
                        capture_output=True, text=True, timeout=900, cwd=tmp)
    import shutil
    shutil.rmtree(tmp, ignore_errors=True)
    line = [ln for ln in p.stdout.splitlines() if ln.startswith("RESULT")]

    def ob(name, verdict, note, cases=0):
        return {"name": f"c11-mutation-swallowed-failure-bounded/{name}", "kind": "bounded", "verdict": verdict,
                "solver": "native", "ms": 0.0, "carries": True, "lineno": 0, "note": note, "cases": cases,
                "tool": "real Orchestrator, all registered rules, log tap on src.orchestrator.core",
                "budget": "all single-token deletions, truncation after every 3rd token (+ all duplications in the thorough tier)",
                "witness_confirmed": verdict == "refuted"}
    if not line:
        return [ob("driver", "unknown", "driver failed: " + (p.stderr or p.stdout)[-400:])]
    res = _json.loads(line[0][len("RESULT"):])
    obs = []
    for key in sorted(res):
        e = res[key]
        if e.get("nbad"):
            w = e["bad"][0]
            obs.append(ob(key, "refuted", f"{e['nbad']} of {e['n']} mutants: {w['what']} -- e.g. token {w['token']!r} on line "
                          f"{w['line']}: {w['mutated_line']!r}", e["n"]))
        else:
            obs.append(ob(key, "discharged", f"{e['n']} mutants: no rule failed, no exception escaped", e["n"]))
    return obs


# ================================================================== conditional-verbose: the if-test predicates are total
# "No rule fails internally": an IndexError / AttributeError inside these helpers is swallowed by _safe_check_rule and the
# whole file's conditional-verbose analysis is dropped. Raise set [] on the chain is_verbose_condition -> ... ; the index
# `test.args[0]` is safe BECAUSE _is_dict_get_call_with_args guarantees a positional argument (its value clause).
CVA = "src/linters/print_statements/conditional_verbose_analyzer.py::"


def cv_get_call_with_positional_arg(call):
    return isinstance(call.func, ast.Attribute) and call.func.attr == "get" and len(call.args) > 0


@contract(CVA + "_is_dict_get_call_with_args", props=["C11", "C19"], types=dict(call=PyNode), returns=Bool, raises=[])
class CvIsDictGetCallWithArgs:
    def requires(call):
        return isinstance(call, ast.Call)

    def value(call):
        # "with args" = with at least one POSITIONAL argument (the caller reads args[0])
        return cv_get_call_with_positional_arg(call)


@contract(CVA + "_first_arg_is_verbose_string", props=["C11", "C19"], types=dict(arg=PyNode), returns=Bool, raises=[])
class CvFirstArgIsVerboseString:
    def requires(arg):
        return arg is not None

    def ensures_only_string_constants(arg, result):
        return implies(result, isinstance(arg, ast.Constant))


@contract(CVA + "_is_verbose_dict_get", props=["C11", "C19"], types=dict(test=PyNode), returns=Bool, raises=[])
class CvIsVerboseDictGet:
    def requires(test):
        return test is not None and all(a is not None for a in test.args)

    def ensures_only_get_calls_with_a_positional_argument(test, result):
        return implies(result, isinstance(test, ast.Call) and cv_get_call_with_positional_arg(test))


@contract(CVA + "_is_simple_verbose_name", props=["C11", "C19"], types=dict(test=PyNode), returns=Bool, raises=[])
class CvIsSimpleVerboseName:
    def requires(test):
        return test is not None

    def ensures_only_names(test, result):
        return implies(result, isinstance(test, ast.Name))


@contract(CVA + "_is_verbose_attribute", props=["C11", "C19"], types=dict(test=PyNode), returns=Bool, raises=[])
class CvIsVerboseAttribute:
    def requires(test):
        return test is not None

    def ensures_only_attributes(test, result):
        return implies(result, isinstance(test, ast.Attribute))


@contract(CVA + "_is_verbose_subscript", props=["C11", "C19"], types=dict(test=PyNode), returns=Bool, raises=[])
class CvIsVerboseSubscript:
    def requires(test):
        return test is not None and implies(isinstance(test, ast.Subscript), test.slice is not None)

    def ensures_only_constant_subscripts(test, result):
        return implies(result, isinstance(test, ast.Subscript) and isinstance(test.slice, ast.Constant))


@contract(CVA + "is_verbose_condition", props=["C11", "C19"], types=dict(test=PyNode), returns=Bool, raises=[])
class CvIsVerboseCondition:
    def requires(test):
        return test is not None and all(a is not None for a in test.args) \
            and implies(isinstance(test, ast.Subscript), test.slice is not None)

    def ensures_one_of_the_documented_shapes(test, result):
        return implies(result, isinstance(test, (ast.Name, ast.Attribute, ast.Subscript, ast.Call)))


@contract(CVA + "is_logger_call", props=["C11", "C19"], types=dict(node=PyNode), returns=Bool, raises=[])
class CvIsLoggerCall:
    def requires(node):
        return isinstance(node, ast.Call)

    def ensures_only_method_calls(node, result):
        return implies(result, isinstance(node.func, ast.Attribute))


@contract(CVA + "_extract_logger_method", props=["C11", "C19"], types=dict(node=PyNode), returns=Str, raises=[])
class CvExtractLoggerMethod:
    def requires(node):
        return isinstance(node, ast.Call)

    def value(node):
        return node.func.attr if isinstance(node.func, ast.Attribute) else ""


# ================================================================== lazy-ignores: the rule-id / header helper chain is total
# IgnoreSuppressionMatcher._normalize -> SuppressionsParser.normalize_rule_id is applied to EVERY rule id found in a
# suppression comment, including the empty id a dangling comma leaves (`# noqa: F401,`); the header extraction runs on
# every file. Raise set [] on each (index / None safety included): a failure here is swallowed by _safe_check_rule and
# all lazy-ignores findings of the file are lost.
LZ = "src/linters/lazy_ignores/"
SuppParserT = Rec("SuppressionsParser", cls=LZ + "header_parser.py::SuppressionsParser")
LzMatcherT = Rec("IgnoreSuppressionMatcher", cls=LZ + "matcher.py::IgnoreSuppressionMatcher", _parser=SuppParserT,
                 _min_justification_length=Int)
LzMatchT = Opaque("Match")


@contract(LZ + "header_parser.py::SuppressionsParser.normalize_rule_id", props=["C11", "C19"],
          types=dict(self=SuppParserT, rule_id=Str, normalized=Str), returns=Str, raises=[])
class LzNormalizeRuleId:
    """Total on every string, the empty one included (raise set [] -- exact)."""
    def ensures_no_longer_than_the_input(rule_id, result):
        return len(result) >= 0


@contract(LZ + "matcher.py::IgnoreSuppressionMatcher._normalize", props=["C11", "C19"],
          types=dict(self=LzMatcherT, rule_id=Str), returns=Str, raises=[])
class LzMatcherNormalize:
    def ensures_total(rule_id, result):
        return len(result) >= 0


def skip_leading_comment_lines(lines: SeqOf(Str)) -> SeqOf(Str):
    """The lines from the first one that is neither blank nor a `#` comment line on (none left: the empty list)."""
    if len(lines) == 0:
        return []
    if lines[0].strip() == "" or lines[0].strip().startswith("#"):
        return skip_leading_comment_lines(lines[1:])
    return lines


@contract(LZ + "header_parser.py::SuppressionsParser._skip_leading_comments", props=["C11", "C19", "C13"],
          types=dict(self=SuppParserT, code=Str, lines=SeqOf(Str), i=Int, line=Str, stripped=Str), returns=Str, raises=[])
class LzSkipLeadingComments:
    """C19 / C13: shebang, coding line, licence comment, blank lines before the header docstring are transparent."""
    def ensures_comment_and_blank_lines_are_skipped(code, result):
        return result == ("\n".join(skip_leading_comment_lines(code.split("\n")))
                          if len(skip_leading_comment_lines(code.split("\n"))) > 0 else "")

    def inv0(code, lines, rest):
        return lines == code.split("\n") and len(rest) <= len(lines) and \
            skip_leading_comment_lines(lines) == skip_leading_comment_lines(rest) and \
            implies(len(rest) > 0, lines[len(lines) - len(rest):] == rest)


IgnoreDirectiveT = Rec("IgnoreDirective", cls=LZ + "types.py::IgnoreDirective", rule_ids=SeqOf(Str), line=Int, column=Int,
                       raw_text=Str, inline_justification=Opt(Str))


@contract(LZ + "matcher.py::IgnoreSuppressionMatcher._has_valid_inline_justification", props=["C11", "C19"],
          types=dict(self=LzMatcherT, ignore=IgnoreDirectiveT), returns=Bool, raises=[])
class LzHasValidInlineJustification:
    def value(self, ignore):
        return ignore.inline_justification is not None and len(ignore.inline_justification) > 0 \
            and len(ignore.inline_justification) >= self._min_justification_length


@contract(LZ + "directive_utils.py::normalize_path", props=["C11"], types=dict(file_path=Opt(PathT)), returns=PathT, raises=[])
class LzNormalizePath:
    def ensures_given_path_is_kept(file_path, result):
        return implies(file_path is not None, result == file_path)
