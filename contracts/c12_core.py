"""Core violation construction (src/core/violation_builder.py): every field is copied unchanged (C12, C06, C18...)."""
from pyvc.api import contract, Int, Bool, Str, Opt, Rec, mk
from contracts._common import ViolationT

SeverityT = ViolationT.fields["severity"]   # the Severity enum member (same SMT sort as Str; natively the real member)

VB = "src/core/violation_builder.py::"
ViolationInfoT = Rec("ViolationInfo", cls=VB + "ViolationInfo", pycls="src.core.violation_builder:ViolationInfo",
                     rule_id=Str, file_path=Str, line=Int, message=Str, column=Int, severity=SeverityT, suggestion=Opt(Str))
PROPS = ["C12", "C06", "C18", "C16", "C01", "C02", "C17"]


def violation_of(rule_id, file_path, line, column, message, severity, suggestion):
    return mk(ViolationT, rule_id=rule_id, file_path=file_path, line=line, column=column, message=message,
              severity=severity, suggestion=suggestion)


@contract(VB + "build_violation", props=PROPS, types=dict(info=ViolationInfoT), returns=ViolationT)
class BuildViolation:
    def value(info):
        return violation_of(info.rule_id, info.file_path, info.line, info.column, info.message, info.severity, info.suggestion)


@contract(VB + "build_violation_from_params", props=PROPS,
          types=dict(rule_id=Str, file_path=Str, line=Int, message=Str, column=Int, severity=SeverityT, suggestion=Opt(Str)),
          returns=ViolationT)
class BuildViolationFromParams:
    def value(rule_id, file_path, line, message, column, severity, suggestion):
        return violation_of(rule_id, file_path, line, column, message, severity, suggestion)


@contract(VB + "BaseViolationBuilder.build_from_params", props=PROPS,
          types=dict(rule_id=Str, file_path=Str, line=Int, message=Str, column=Int, severity=SeverityT, suggestion=Opt(Str)),
          returns=ViolationT)
class BuilderBuildFromParams:
    def value(rule_id, file_path, line, message, column, severity, suggestion):
        return violation_of(rule_id, file_path, line, column, message, severity, suggestion)


@contract(VB + "BaseViolationBuilder.build", props=PROPS, types=dict(info=ViolationInfoT), returns=ViolationT)
class BuilderBuild:
    def value(info):
        return violation_of(info.rule_id, info.file_path, info.line, info.column, info.message, info.severity, info.suggestion)
