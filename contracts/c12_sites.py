"""C12 -- every violation points at the construct: location post-conditions of the violation construction sites.

What is decided here (DESIGN.md 3/C12 and 4): for every function that constructs a Violation (directly, through
ViolationInfo or build_from_params) the location fields of the result are exactly the location the function was
given (pass-through builders); for the functions that *produce* a location from a parse-tree node the location is
the node's own position (Python ast: lineno / col_offset; tree-sitter: start_point[0] + 1 / start_point[1]).
Which node a source text yields, and that 1 <= lineno <= number of lines of the file, are parser facts and are NOT
decided. Builders of nesting / srp / magic_numbers / dry live in the files of C01 / C16 / C02 / C03; the
file-placement factory is in c18_file_placement.py. The custom check `c12-site-scan` lists every construction
site under src/ and whether its enclosing function is under contract."""
import ast
import json
import os

from pyvc.api import contract, lemma, custom, Int, Bool, Str, Opt, Rec, SeqOf, TupleOf, implies, call, mk, ih, reveal
from contracts._common import ViolationT, PathT, path_str, py_unparse, py_walk
from contracts._nodes import TSNode, PyNode
from contracts import c12_core  # noqa: F401  (contracts of the core builders these sites call)

L = "src/linters/"


def at(result, file_path, line, column):
    """The violation carries exactly this location."""
    return result.file_path == file_path and result.line == line and result.column == column


# ================================================================== Rust safety linters: pass-through builders
UW = L + "unwrap_abuse/violation_builder.py::"
CL = L + "clone_abuse/violation_builder.py::"
BA = L + "blocking_async/violation_builder.py::"
RUST_TYPES = dict(file_path=Str, line=Int, column=Int, context=Str)


@contract(UW + "build_unwrap_violation", props=["C12", "C17"], types=RUST_TYPES, returns=ViolationT)
class BuildUnwrapViolation:
    def ensures_location(file_path, line, column, context, result):
        return at(result, file_path, line, column)

    def ensures_rule_and_message(file_path, line, column, context, result):
        return result.rule_id == "unwrap-abuse.unwrap-call" and \
            result.message == f".unwrap() call may panic at runtime: {context}"


@contract(UW + "build_expect_violation", props=["C12", "C17"], types=RUST_TYPES, returns=ViolationT)
class BuildExpectViolation:
    def ensures_location(file_path, line, column, context, result):
        return at(result, file_path, line, column)

    def ensures_rule_and_message(file_path, line, column, context, result):
        return result.rule_id == "unwrap-abuse.expect-call" and \
            result.message == f".expect() call may panic at runtime: {context}"


@contract(CL + "build_clone_in_loop_violation", props=["C12", "C17"], types=RUST_TYPES, returns=ViolationT)
class BuildCloneInLoopViolation:
    def ensures_location(file_path, line, column, context, result):
        return at(result, file_path, line, column)

    def ensures_rule_and_message(file_path, line, column, context, result):
        return result.rule_id == "clone-abuse.clone-in-loop" and \
            result.message == f".clone() called inside a loop body may cause performance issues: {context}"


@contract(CL + "build_clone_chain_violation", props=["C12", "C17"], types=RUST_TYPES, returns=ViolationT)
class BuildCloneChainViolation:
    def ensures_location(file_path, line, column, context, result):
        return at(result, file_path, line, column)

    def ensures_rule_and_message(file_path, line, column, context, result):
        return result.rule_id == "clone-abuse.clone-chain" and \
            result.message == f"Chained .clone().clone() is redundant: {context}"


@contract(CL + "build_unnecessary_clone_violation", props=["C12", "C17"], types=RUST_TYPES, returns=ViolationT)
class BuildUnnecessaryCloneViolation:
    def ensures_location(file_path, line, column, context, result):
        return at(result, file_path, line, column)

    def ensures_rule_and_message(file_path, line, column, context, result):
        return result.rule_id == "clone-abuse.unnecessary-clone" and \
            result.message == f".clone() may be unnecessary when the original is not used afterward: {context}"


@contract(BA + "build_fs_in_async_violation", props=["C12", "C17"], types=RUST_TYPES, returns=ViolationT)
class BuildFsInAsyncViolation:
    def ensures_location(file_path, line, column, context, result):
        return at(result, file_path, line, column)

    def ensures_rule_and_message(file_path, line, column, context, result):
        return result.rule_id == "blocking-async.fs-in-async" and \
            result.message == f"Blocking std::fs operation inside async function: {context}"


@contract(BA + "build_sleep_in_async_violation", props=["C12", "C17"], types=RUST_TYPES, returns=ViolationT)
class BuildSleepInAsyncViolation:
    def ensures_location(file_path, line, column, context, result):
        return at(result, file_path, line, column)

    def ensures_rule_and_message(file_path, line, column, context, result):
        return result.rule_id == "blocking-async.sleep-in-async" and \
            result.message == f"Blocking std::thread::sleep inside async function: {context}"


@contract(BA + "build_net_in_async_violation", props=["C12", "C17"], types=RUST_TYPES, returns=ViolationT)
class BuildNetInAsyncViolation:
    def ensures_location(file_path, line, column, context, result):
        return at(result, file_path, line, column)

    def ensures_rule_and_message(file_path, line, column, context, result):
        return result.rule_id == "blocking-async.net-in-async" and \
            result.message == f"Blocking std::net operation inside async function: {context}"


# ================================================================== LBYL: pass-through builders
LB = L + "lbyl/violation_builder.py::"


@contract(LB + "build_dict_key_violation", props=["C12"],
          types=dict(file_path=Str, line=Int, column=Int, dict_name=Str, key_expression=Str), returns=ViolationT)
class BuildDictKeyViolation:
    def ensures_location(file_path, line, column, result):
        return at(result, file_path, line, column)

    def ensures_rule_and_message(dict_name, key_expression, result):
        # the message quotes the key / dict expressions of the reported `if`
        return result.rule_id == "lbyl.dict-key-check" and result.message == (
            f"LBYL pattern: 'if {key_expression} in {dict_name}' followed by '{dict_name}[{key_expression}]'")


@contract(LB + "build_hasattr_violation", props=["C12"],
          types=dict(file_path=Str, line=Int, column=Int, object_name=Str, attribute_name=Str), returns=ViolationT)
class BuildHasattrViolation:
    def ensures_location(file_path, line, column, result):
        return at(result, file_path, line, column)

    def ensures_rule_and_message(object_name, attribute_name, result):
        return result.rule_id == "lbyl.hasattr-check" and result.message == (
            f"LBYL pattern: 'if hasattr({object_name}, '{attribute_name}')' followed by "
            f"'{object_name}.{attribute_name}'")


@contract(LB + "build_isinstance_violation", props=["C12"],
          types=dict(file_path=Str, line=Int, column=Int, object_name=Str, type_name=Str), returns=ViolationT)
class BuildIsinstanceViolation:
    def ensures_location(file_path, line, column, result):
        return at(result, file_path, line, column)

    def ensures_rule_and_message(object_name, type_name, result):
        return result.rule_id == "lbyl.isinstance-check" and result.message == (
            f"LBYL pattern: 'if isinstance({object_name}, {type_name})' before type-specific operation")


@contract(LB + "build_file_exists_violation", props=["C12"],
          types=dict(file_path=Str, line=Int, column=Int, path_expression=Str, check_type=Str), returns=ViolationT)
class BuildFileExistsViolation:
    def ensures_location(file_path, line, column, result):
        return at(result, file_path, line, column)

    def ensures_rule_and_message(path_expression, check_type, result):
        return result.rule_id == "lbyl.file-exists-check" and result.message == (
            f"LBYL pattern: 'if {check_type}({path_expression})' followed by file operation on '{path_expression}'")


@contract(LB + "build_len_check_violation", props=["C12"],
          types=dict(file_path=Str, line=Int, column=Int, collection_name=Str, index_expression=Str),
          returns=ViolationT)
class BuildLenCheckViolation:
    def ensures_location(file_path, line, column, result):
        return at(result, file_path, line, column)

    def ensures_rule_and_message(collection_name, index_expression, result):
        return result.rule_id == "lbyl.len-check" and result.message == (
            f"LBYL pattern: 'if len({collection_name}) > {index_expression}' followed by '{collection_name}[...]'")


@contract(LB + "build_none_check_violation", props=["C12"],
          types=dict(file_path=Str, line=Int, column=Int, variable_name=Str), returns=ViolationT)
class BuildNoneCheckViolation:
    def ensures_location(file_path, line, column, result):
        return at(result, file_path, line, column)

    def ensures_rule_and_message(variable_name, result):
        return result.rule_id == "lbyl.none-check" and result.message == (
            f"LBYL pattern: 'if {variable_name} is not None' followed by '{variable_name}.<method>()'")


@contract(LB + "build_string_validator_violation", props=["C12"],
          types=dict(file_path=Str, line=Int, column=Int, string_name=Str, validator_method=Str, conversion_func=Str),
          returns=ViolationT)
class BuildStringValidatorViolation:
    def ensures_location(file_path, line, column, result):
        return at(result, file_path, line, column)

    def ensures_rule_and_message(string_name, validator_method, conversion_func, result):
        return result.rule_id == "lbyl.string-validator" and result.message == (
            f"LBYL pattern: 'if {string_name}.{validator_method}()' followed by '{conversion_func}({string_name})'")


@contract(LB + "build_division_check_violation", props=["C12"],
          types=dict(file_path=Str, line=Int, column=Int, divisor_name=Str, operation=Str), returns=ViolationT)
class BuildDivisionCheckViolation:
    def ensures_location(file_path, line, column, result):
        return at(result, file_path, line, column)

    def ensures_rule_and_message(divisor_name, operation, result):
        return result.rule_id == "lbyl.division-check" and result.message == (
            f"LBYL pattern: 'if {divisor_name} != 0' followed by '{operation}' operation with '{divisor_name}'")


# ================================================================== shared: the lint context as seen by builders
CtxT = Rec("LintContext", cls="src/core/base.py::BaseLintContext", file_path=Opt(PathT), file_content=Opt(Str),
           language=Str)


def path_or(p, default):
    """`str(p) if p else default` -- a Path object is always truthy."""
    return path_str(p) if p is not None else default


# ================================================================== print-statements
PS = L + "print_statements/violation_builder.py::"
PSBuilderT = Rec("PrintViolationBuilder", cls=PS + "ViolationBuilder", rule_id=Str)


@contract(PS + "ViolationBuilder.create_python_violation", props=["C12"],
          types=dict(self=PSBuilderT, node=PyNode, line=Int, file_path=Opt(PathT)), returns=ViolationT)
class PrintCreatePythonViolation:
    def requires(self, node, line, file_path):
        return isinstance(node, ast.Call)

    def ensures_location(self, node, line, file_path, result):
        # column of the print() call node itself
        return at(result, path_or(file_path, ""), line, node.col_offset)

    def ensures_rule(self, result):
        return result.rule_id == self.rule_id


@contract(PS + "ViolationBuilder.create_typescript_violation", props=["C12"],
          types=dict(self=PSBuilderT, method=Str, line=Int, file_path=Opt(PathT)), returns=ViolationT)
class PrintCreateTypescriptViolation:
    def ensures_location(self, method, line, file_path, result):
        # the TypeScript builder reports column 0 (start of the line of the call), not the call's own column
        return at(result, path_or(file_path, ""), line, 0)

    def ensures_rule_and_message(self, method, result):
        return result.rule_id == self.rule_id and \
            result.message == f"console.{method}() should be replaced with proper logging"


# ================================================================== method-property
MP = L + "method_property/violation_builder.py::"
MPBuilderT = Rec("MPViolationBuilder", cls=MP + "ViolationBuilder", rule_id=Str)


def mp_message(method_name, is_get_prefix, class_name):
    """The message names the method (and its class) whose `def` line is reported."""
    if is_get_prefix:
        if class_name:
            return f"Method '{method_name}' in class '{class_name}' should be a @property named '{method_name[4:]}'"
        return f"Method '{method_name}' should be a @property named '{method_name[4:]}'"
    if class_name:
        return f"Method '{method_name}' in class '{class_name}' should be a @property"
    return f"Method '{method_name}' should be a @property"


@contract(MP + "ViolationBuilder._build_message", props=["C12"],
          types=dict(self=MPBuilderT, method_name=Str, is_get_prefix=Bool, class_name=Opt(Str)), returns=Str)
class MPBuildMessage:
    def value(method_name, is_get_prefix, class_name):
        return mp_message(method_name, is_get_prefix, class_name)


@contract(MP + "ViolationBuilder._build_suggestion", props=["C12"],
          types=dict(self=MPBuilderT, method_name=Str, is_get_prefix=Bool), returns=Str)
class MPBuildSuggestion:
    def value(method_name, is_get_prefix):
        if is_get_prefix:
            return f"Add @property decorator and rename to '{method_name[4:]}' for Pythonic attribute access"
        return "Add @property decorator for Pythonic attribute access"


@contract(MP + "ViolationBuilder.create_violation", props=["C12"],
          types=dict(self=MPBuilderT, method_name=Str, line=Int, column=Int, file_path=Opt(PathT), is_get_prefix=Bool,
                     class_name=Opt(Str)), returns=ViolationT)
class MPCreateViolation:
    def ensures_location(line, column, file_path, result):
        return at(result, path_or(file_path, ""), line, column)

    def ensures_rule_and_message(self, method_name, is_get_prefix, class_name, result):
        return result.rule_id == self.rule_id and result.message == mp_message(method_name, is_get_prefix, class_name)


# ================================================================== CQS
CQ = L + "cqs/"
InputOpT = Rec("InputOperation", cls=CQ + "types.py::InputOperation", pycls="src.linters.cqs.types:InputOperation",
               line=Int, column=Int, expression=Str, target=Str)
OutputOpT = Rec("OutputOperation", cls=CQ + "types.py::OutputOperation", pycls="src.linters.cqs.types:OutputOperation",
                line=Int, column=Int, expression=Str)
CQSPatternT = Rec("CQSPattern", cls=CQ + "types.py::CQSPattern", pycls="src.linters.cqs.types:CQSPattern",
                  function_name=Str, line=Int, column=Int, file_path=Str, inputs=SeqOf(InputOpT),
                  outputs=SeqOf(OutputOpT), is_method=Bool, is_async=Bool, class_name=Opt(Str))


def cqs_full_name(pattern):
    return f"{pattern.class_name}.{pattern.function_name}" if pattern.class_name else pattern.function_name


@contract(CQ + "types.py::CQSPattern.get_full_name", props=["C12"], types=dict(self=CQSPatternT), returns=Str)
class CQSGetFullName:
    def value(self):
        return cqs_full_name(self)


@contract(CQ + "violation_builder.py::_format_inputs", props=["C12"], types=dict(pattern=CQSPatternT), returns=Str,
          assumed="message detail ('; '.join over the operations); no location clause depends on it")
class CQSFormatInputs:
    def ensures(result):
        return True


@contract(CQ + "violation_builder.py::_format_outputs", props=["C12"], types=dict(pattern=CQSPatternT), returns=Str,
          assumed="message detail ('; '.join over the operations); no location clause depends on it")
class CQSFormatOutputs:
    def ensures(result):
        return True


@contract(CQ + "violation_builder.py::build_cqs_violation", props=["C12"], types=dict(pattern=CQSPatternT),
          returns=ViolationT)
class BuildCqsViolation:
    def ensures_location(pattern, result):
        # the pattern's own location: the `def` of the function the message names
        return at(result, pattern.file_path, pattern.line, pattern.column)

    def ensures_rule_and_name(pattern, result):
        return result.rule_id == "cqs" and \
            result.message.startswith(f"Function '{cqs_full_name(pattern)}' violates CQS: mixes queries and commands. ")


# ================================================================== lazy-ignores (text-based: lines come from a line scan)
LI = L + "lazy_ignores/violation_builder.py::"


@contract(LI + "_build_unjustified_suggestion", props=["C12"], types=dict(rule_id=Str), returns=Str,
          assumed="suggestion text only (split/strip/join over rule ids); no C12 clause depends on it")
class LIUnjustifiedSuggestion:
    def ensures(result):
        return True


@contract(LI + "_build_orphaned_suggestion", props=["C12"], types=dict(rule_id=Str), returns=Str,
          assumed="suggestion text only; no C12 clause depends on it")
class LIOrphanedSuggestion:
    def ensures(result):
        return True


@contract(LI + "build_unjustified_violation", props=["C12"],
          types=dict(file_path=Str, line=Int, column=Int, rule_id=Str, raw_text=Str), returns=ViolationT)
class BuildUnjustifiedViolation:
    def ensures_location(file_path, line, column, result):
        return at(result, file_path, line, column)

    def ensures_rule_and_message(raw_text, result):
        # the message quotes the directive text found on the reported line
        return result.rule_id == "lazy-ignores.unjustified" and result.message == (
            f"Unjustified suppression found: {raw_text} (ASK PERMISSION before adding Suppressions header)")


@contract(LI + "build_orphaned_violation", props=["C12"],
          types=dict(file_path=Str, header_line=Int, rule_id=Str, justification=Str), returns=ViolationT)
class BuildOrphanedViolation:
    def ensures_location(file_path, header_line, result):
        return at(result, file_path, header_line, 0)

    def ensures_rule_and_message(rule_id, justification, result):
        return result.rule_id == "lazy-ignores.orphaned" and \
            result.message == f"Orphaned suppression in header: {rule_id}: {justification}"


# ================================================================== file-header (file-level rule: line defaults to 1)
FH = L + "file_header/violation_builder.py::"
FHBuilderT = Rec("FHViolationBuilder", cls=FH + "ViolationBuilder", rule_id=Str)


@contract(FH + "ViolationBuilder.build_missing_field", props=["C12"],
          types=dict(self=FHBuilderT, field_name=Str, file_path=Str, line=Int), returns=ViolationT)
class FHBuildMissingField:
    def ensures_location(file_path, line, result):
        return at(result, file_path, line, 1)

    def ensures_rule_and_message(self, field_name, result):
        return result.rule_id == self.rule_id and result.message == f"Missing mandatory field: {field_name}"


@lemma(props=["C12"], types=dict(b=FHBuilderT, field_name=Str, file_path=Str), name="file-header-missing-field-defaults-to-line-1")
def fh_default_line(b, field_name, file_path):
    """File-level finding: called without a line, the violation is at line 1 (SARIF-valid, C06)."""
    v = call(FH + "ViolationBuilder.build_missing_field", b, field_name, file_path)
    return v.line == 1 and v.column == 1 and v.file_path == file_path


@contract(FH + "ViolationBuilder.build_atemporal_violation", props=["C12"],
          types=dict(self=FHBuilderT, pattern=Str, description=Str, file_path=Str, line=Int), returns=ViolationT)
class FHBuildAtemporal:
    def ensures_location(file_path, line, result):
        return at(result, file_path, line, 1)

    def ensures_rule_and_message(self, description, result):
        return result.rule_id == self.rule_id and result.message == f"Temporal language detected: {description}"


# ================================================================== performance (string-concat / regex in loop)
PF = L + "performance/violation_builder.py::"
PFBuilderT = Rec("PerformanceViolationBuilder", cls=PF + "PerformanceViolationBuilder", rule_id=Str)
SyntaxErrorT = Rec("SyntaxError", lineno=Opt(Int), offset=Opt(Int), msg=Str)


@contract(PF + "PerformanceViolationBuilder._generate_suggestion", props=["C12"],
          types=dict(self=PFBuilderT, variable_name=Str), returns=Str,
          assumed="suggestion text only; no C12 clause depends on it")
class PFGenerateSuggestion:
    def ensures(result):
        return True


@contract(PF + "PerformanceViolationBuilder._generate_regex_suggestion", props=["C12"],
          types=dict(self=PFBuilderT, method_name=Str), returns=Str,
          assumed="suggestion text only (uses str.split); no C12 clause depends on it")
class PFGenerateRegexSuggestion:
    def ensures(result):
        return True


@contract(PF + "PerformanceViolationBuilder.create_string_concat_violation", props=["C12"],
          types=dict(self=PFBuilderT, variable_name=Str, line_number=Int, column=Int, loop_type=Str, context=CtxT),
          returns=ViolationT)
class PFCreateStringConcat:
    def ensures_location(line_number, column, context, result):
        return at(result, path_or(context.file_path, ""), line_number, column)

    def ensures_rule_and_message(self, variable_name, loop_type, result):
        return result.rule_id == self.rule_id and result.message == (
            f"String concatenation in {loop_type} loop: '{variable_name} +=' creates O(n²) complexity")


@contract(PF + "PerformanceViolationBuilder.create_regex_in_loop_violation", props=["C12"],
          types=dict(self=PFBuilderT, method_name=Str, line_number=Int, column=Int, loop_type=Str, context=CtxT),
          returns=ViolationT)
class PFCreateRegexInLoop:
    def ensures_location(line_number, column, context, result):
        return at(result, path_or(context.file_path, ""), line_number, column)

    def ensures_rule_and_message(self, method_name, loop_type, result):
        return result.rule_id == self.rule_id and result.message == (
            f"Regex compilation in {loop_type} loop: '{method_name}()' recompiles pattern on each iteration")


@contract(PF + "PerformanceViolationBuilder.create_syntax_error_violation", props=["C12", "C11"],
          types=dict(self=PFBuilderT, error=SyntaxErrorT, context=CtxT), returns=ViolationT)
class PFCreateSyntaxError:
    # a syntax-error notice is exempt from C12's location clause; what is stated is what the code does
    def ensures_location(error, context, result):
        return at(result, path_or(context.file_path, ""), error.lineno if error.lineno else 0,
                  error.offset if error.offset else 0)

    def ensures_is_a_syntax_error_notice(self, error, result):
        return result.rule_id == self.rule_id and result.message == f"Syntax error: {error.msg}"


# ================================================================== stringly-typed (cross-file: locations come from storage rows)
ST = L + "stringly_typed/"
StoredCallT = Rec("StoredFunctionCall", cls=ST + "storage.py::StoredFunctionCall", file_path=PathT, line_number=Int,
                  column=Int, function_name=Str, param_index=Int, string_value=Str)
StoredPatternT = Rec("StoredPattern", cls=ST + "storage.py::StoredPattern", file_path=PathT, line_number=Int, column=Int,
                     variable_name=Opt(Str), string_set_hash=Int, string_values=SeqOf(Str), pattern_type=Str)
StoredComparisonT = Rec("StoredComparison", cls=ST + "storage.py::StoredComparison", file_path=PathT, line_number=Int,
                        column=Int, variable_name=Str, compared_value=Str, operator=Str)
MSG_ONLY = "message/suggestion text only (sets, sorted(), join over cross-references); no location clause depends on it"


@contract(ST + "function_call_violation_builder.py::_build_message", props=["C12"], returns=Str, assumed=MSG_ONLY,
          types=dict(call=StoredCallT, all_calls=SeqOf(StoredCallT), unique_values=SeqOf(Str)))
class STCallMessage:
    def ensures(result):
        return True


@contract(ST + "function_call_violation_builder.py::_build_suggestion", props=["C12"], returns=Str, assumed=MSG_ONLY,
          types=dict(call=StoredCallT, unique_values=SeqOf(Str)))
class STCallSuggestion:
    def ensures(result):
        return True


@contract(ST + "function_call_violation_builder.py::_build_violation", props=["C12"], returns=ViolationT,
          types=dict(call=StoredCallT, all_calls=SeqOf(StoredCallT), unique_values=SeqOf(Str)))
class STCallBuildViolation:
    def ensures_location(call, result):
        # the stored call site this violation is for (not one of the cross-referenced ones)
        return at(result, path_str(call.file_path), call.line_number, call.column)

    def ensures_rule(result):
        return result.rule_id == "stringly-typed.limited-values"


@contract(ST + "violation_generator.py::_build_message", props=["C12"], returns=Str, assumed=MSG_ONLY,
          types=dict(pattern=StoredPatternT, all_patterns=SeqOf(StoredPatternT)))
class STPatternMessage:
    def ensures(result):
        return True


@contract(ST + "violation_generator.py::_build_suggestion", props=["C12"], returns=Str, assumed=MSG_ONLY,
          types=dict(pattern=StoredPatternT))
class STPatternSuggestion:
    def ensures(result):
        return True


@contract(ST + "violation_generator.py::_build_violation", props=["C12"], returns=ViolationT,
          types=dict(pattern=StoredPatternT, all_patterns=SeqOf(StoredPatternT), rule_id=Str))
class STPatternBuildViolation:
    def ensures_location(pattern, result):
        return at(result, path_str(pattern.file_path), pattern.line_number, pattern.column)

    def ensures_rule(rule_id, result):
        return result.rule_id == rule_id


@contract(ST + "violation_generator.py::_build_comparison_message", props=["C12"], returns=Str, assumed=MSG_ONLY,
          types=dict(comparison=StoredComparisonT, all_comparisons=SeqOf(StoredComparisonT), unique_values=SeqOf(Str)))
class STComparisonMessage:
    def ensures(result):
        return True


@contract(ST + "violation_generator.py::_build_comparison_suggestion", props=["C12"], returns=Str, assumed=MSG_ONLY,
          types=dict(comparison=StoredComparisonT, unique_values=SeqOf(Str)))
class STComparisonSuggestion:
    def ensures(result):
        return True


@contract(ST + "violation_generator.py::_build_comparison_violation", props=["C12"], returns=ViolationT,
          types=dict(comparison=StoredComparisonT, all_comparisons=SeqOf(StoredComparisonT), unique_values=SeqOf(Str)))
class STComparisonBuildViolation:
    def ensures_location(comparison, result):
        return at(result, path_str(comparison.file_path), comparison.line_number, comparison.column)

    def ensures_rule(result):
        return result.rule_id == "stringly-typed.scattered-comparison"


# ================================================================== collection-pipeline, stateless-class, conditional-verbose
CP = L + "collection_pipeline/"
PatternMatchT = Rec("PatternMatch", cls=CP + "detector.py::PatternMatch", line_number=Int, loop_var=Str, iterable=Str,
                    conditions=SeqOf(Str), has_side_effects=Bool, suggestion=Str)
CPRuleT = Rec("CollectionPipelineRule", cls=CP + "linter.py::CollectionPipelineRule")


def cp_message(match):
    if len(match.conditions) == 1:
        return f"For loop over '{match.iterable}' has embedded filtering. Consider using a generator expression."
    return (f"For loop over '{match.iterable}' has {len(match.conditions)} filter conditions. "
            f"Consider combining into a collection pipeline.")


@contract(CP + "linter.py::CollectionPipelineRule._build_message", props=["C12"],
          types=dict(self=CPRuleT, match=PatternMatchT), returns=Str)
class CPBuildMessage:
    def value(match):
        return cp_message(match)


@contract(CP + "linter.py::CollectionPipelineRule.rule_id", props=["C12", "C15"], types=dict(self=CPRuleT), returns=Str)
class CPRuleId:
    def value(self):
        return "collection-pipeline.embedded-filter"


@contract(CP + "linter.py::CollectionPipelineRule._create_violation", props=["C12"],
          types=dict(self=CPRuleT, match=PatternMatchT, context=CtxT), returns=ViolationT)
class CPCreateViolation:
    def ensures_location(match, context, result):
        # line of the `for` statement; column fixed at 0 (start of that line)
        return at(result, path_or(context.file_path, "unknown"), match.line_number, 0)

    def ensures_rule_and_message(match, result):
        return result.rule_id == "collection-pipeline.embedded-filter" and result.message == cp_message(match)


SC = L + "stateless_class/"
ClassInfoT = Rec("ClassInfo", cls=SC + "python_analyzer.py::ClassInfo",
                 pycls="src.linters.stateless_class.python_analyzer:ClassInfo")
ClassInfoT.fields = dict(name=Str, line=Int, column=Int)  # (a field called `name` cannot be passed as a keyword to Rec)
SCRuleT = Rec("StatelessClassRule", cls=SC + "linter.py::StatelessClassRule")


@contract(SC + "linter.py::StatelessClassRule.rule_id", props=["C12", "C15"], types=dict(self=SCRuleT), returns=Str)
class SCRuleId:
    def value(self):
        return "stateless-class.violation"


@contract(SC + "linter.py::StatelessClassRule._create_violation", props=["C12"],
          types=dict(self=SCRuleT, info=ClassInfoT, context=CtxT), returns=ViolationT)
class SCCreateViolation:
    def ensures_location(info, context, result):
        # `class` header of the class the message names
        return result.line == info.line and result.column == info.column and \
            result.file_path == (path_str(context.file_path) if context.file_path is not None else "None")

    def ensures_rule_and_message(info, result):
        return result.rule_id == "stateless-class.violation" and result.message == (
            f"Class '{info.name}' has no state and should be refactored to module-level functions")


CV = L + "print_statements/conditional_verbose_rule.py::"
CVRuleT = Rec("ConditionalVerboseRule", cls=CV + "ConditionalVerboseRule")


@contract(CV + "ConditionalVerboseRule.rule_id", props=["C12", "C15"], types=dict(self=CVRuleT), returns=Str)
class CVRuleId:
    def value(self):
        return "improper-logging.conditional-verbose"


@contract(CV + "ConditionalVerboseRule._create_violation", props=["C12"],
          types=dict(self=CVRuleT, method_name=Str, line=Int, context=CtxT), returns=ViolationT)
class CVCreateViolation:
    def ensures_location(line, context, result):
        return at(result, path_or(context.file_path, ""), line, 0)

    def ensures_rule_and_message(method_name, result):
        return result.rule_id == "improper-logging.conditional-verbose" and result.message == (
            f"Conditional verbose check around logger.{method_name}() should be removed")


# ================================================================== LBYL syntax-error notice (exempt from the location clause)
@contract(LB + "create_syntax_error_violation", props=["C12", "C11"], types=dict(error=SyntaxErrorT, context=CtxT),
          returns=ViolationT)
class LBCreateSyntaxError:
    def ensures_location(error, context, result):
        return at(result, path_or(context.file_path, "unknown"), error.lineno if error.lineno else 1,
                  error.offset if error.offset else 0)

    def ensures_is_a_syntax_error_notice(error, result):
        return result.rule_id == "lbyl.syntax-error" and result.message == f"Syntax error: {error.msg}"


# ================================================================== LBYL: where the location is produced (node -> pattern -> violation)
# Each detector's _create_pattern takes the `if` statement it matched and records that statement's own position;
# each converter in python_analyzer.py hands exactly that position to the builder. The quoted names are
# ast.unparse of sub-expressions of the same `if` (its test), so they occur on the line(s) of the reported statement.
PD = L + "lbyl/pattern_detectors/"
PA = L + "lbyl/python_analyzer.py::"
DictKeyPatternT = Rec("DictKeyPattern", cls=PD + "dict_key_detector.py::DictKeyPattern", line_number=Int, column=Int, dict_name=Str, key_expression=Str)


@contract(PD + "dict_key_detector.py::DictKeyDetector._create_pattern", props=["C12"],
          types=dict(self=Rec("DictKeyDetector", cls=PD + "dict_key_detector.py::DictKeyDetector"), node=PyNode, dict_expr=PyNode, key_expr=PyNode), returns=DictKeyPatternT)
class DictKeyCreatePattern:
    def requires(node, dict_expr, key_expr):
        return isinstance(node, ast.If) and dict_expr is not None and key_expr is not None

    def ensures_location_is_the_if_statement(node, result):
        return result.line_number == node.lineno and result.column == node.col_offset

    def ensures_quoted_names(node, dict_expr, key_expr, result):
        return result.dict_name == py_unparse(dict_expr) and result.key_expression == py_unparse(key_expr)


@contract(PA + "_build_dict_key", props=["C12"], types=dict(pattern=DictKeyPatternT, file_path=Str), returns=ViolationT)
class DictKeyConvert:
    def ensures_location(pattern, file_path, result):
        return at(result, file_path, pattern.line_number, pattern.column)

    def ensures_rule(result):
        return result.rule_id == "lbyl.dict-key-check"
HasattrPatternT = Rec("HasattrPattern", cls=PD + "hasattr_detector.py::HasattrPattern", line_number=Int, column=Int, object_name=Str, attribute_name=Str)


@contract(PD + "hasattr_detector.py::HasattrDetector._create_pattern", props=["C12"],
          types=dict(self=Rec("HasattrDetector", cls=PD + "hasattr_detector.py::HasattrDetector"), node=PyNode, obj_expr=PyNode, attr_name=Str), returns=HasattrPatternT)
class HasattrCreatePattern:
    def requires(node, obj_expr, attr_name):
        return isinstance(node, ast.If) and obj_expr is not None

    def ensures_location_is_the_if_statement(node, result):
        return result.line_number == node.lineno and result.column == node.col_offset

    def ensures_quoted_names(node, obj_expr, attr_name, result):
        return result.object_name == py_unparse(obj_expr) and result.attribute_name == attr_name


@contract(PA + "_build_hasattr", props=["C12"], types=dict(pattern=HasattrPatternT, file_path=Str), returns=ViolationT)
class HasattrConvert:
    def ensures_location(pattern, file_path, result):
        return at(result, file_path, pattern.line_number, pattern.column)

    def ensures_rule(result):
        return result.rule_id == "lbyl.hasattr-check"
IsinstancePatternT = Rec("IsinstancePattern", cls=PD + "isinstance_detector.py::IsinstancePattern", line_number=Int, column=Int, object_name=Str, type_name=Str)


@contract(PD + "isinstance_detector.py::IsinstanceDetector._create_pattern", props=["C12"],
          types=dict(self=Rec("IsinstanceDetector", cls=PD + "isinstance_detector.py::IsinstanceDetector"), node=PyNode, obj_expr=PyNode, type_name=Str), returns=IsinstancePatternT)
class IsinstanceCreatePattern:
    def requires(node, obj_expr, type_name):
        return isinstance(node, ast.If) and obj_expr is not None

    def ensures_location_is_the_if_statement(node, result):
        return result.line_number == node.lineno and result.column == node.col_offset

    def ensures_quoted_names(node, obj_expr, type_name, result):
        return result.object_name == py_unparse(obj_expr) and result.type_name == type_name


@contract(PA + "_build_isinstance", props=["C12"], types=dict(pattern=IsinstancePatternT, file_path=Str), returns=ViolationT)
class IsinstanceConvert:
    def ensures_location(pattern, file_path, result):
        return at(result, file_path, pattern.line_number, pattern.column)

    def ensures_rule(result):
        return result.rule_id == "lbyl.isinstance-check"
FileExistsPatternT = Rec("FileExistsPattern", cls=PD + "file_exists_detector.py::FileExistsPattern", line_number=Int, column=Int, file_path_expression=Str, check_type=Str)


@contract(PD + "file_exists_detector.py::FileExistsDetector._create_pattern", props=["C12"],
          types=dict(self=Rec("FileExistsDetector", cls=PD + "file_exists_detector.py::FileExistsDetector"), node=PyNode, path_expr=PyNode, check_type=Str), returns=FileExistsPatternT)
class FileExistsCreatePattern:
    def requires(node, path_expr, check_type):
        return isinstance(node, ast.If) and path_expr is not None

    def ensures_location_is_the_if_statement(node, result):
        return result.line_number == node.lineno and result.column == node.col_offset

    def ensures_quoted_names(node, path_expr, check_type, result):
        return result.file_path_expression == py_unparse(path_expr) and result.check_type == check_type


@contract(PA + "_build_file_exists", props=["C12"], types=dict(pattern=FileExistsPatternT, file_path=Str), returns=ViolationT)
class FileExistsConvert:
    def ensures_location(pattern, file_path, result):
        return at(result, file_path, pattern.line_number, pattern.column)

    def ensures_rule(result):
        return result.rule_id == "lbyl.file-exists-check"
LenCheckPatternT = Rec("LenCheckPattern", cls=PD + "len_check_detector.py::LenCheckPattern", line_number=Int, column=Int, collection_name=Str, index_expression=Str)


@contract(PD + "len_check_detector.py::LenCheckDetector._create_pattern", props=["C12"],
          types=dict(self=Rec("LenCheckDetector", cls=PD + "len_check_detector.py::LenCheckDetector"), node=PyNode, collection_expr=PyNode, index_expr=PyNode), returns=LenCheckPatternT)
class LenCheckCreatePattern:
    def requires(node, collection_expr, index_expr):
        return isinstance(node, ast.If) and collection_expr is not None and index_expr is not None

    def ensures_location_is_the_if_statement(node, result):
        return result.line_number == node.lineno and result.column == node.col_offset

    def ensures_quoted_names(node, collection_expr, index_expr, result):
        return result.collection_name == py_unparse(collection_expr) and result.index_expression == py_unparse(index_expr)


@contract(PA + "_build_len_check", props=["C12"], types=dict(pattern=LenCheckPatternT, file_path=Str), returns=ViolationT)
class LenCheckConvert:
    def ensures_location(pattern, file_path, result):
        return at(result, file_path, pattern.line_number, pattern.column)

    def ensures_rule(result):
        return result.rule_id == "lbyl.len-check"
NoneCheckPatternT = Rec("NoneCheckPattern", cls=PD + "none_check_detector.py::NoneCheckPattern", line_number=Int, column=Int, variable_name=Str)


@contract(PD + "none_check_detector.py::NoneCheckDetector._create_pattern", props=["C12"],
          types=dict(self=Rec("NoneCheckDetector", cls=PD + "none_check_detector.py::NoneCheckDetector"), node=PyNode, var_expr=PyNode), returns=NoneCheckPatternT)
class NoneCheckCreatePattern:
    def requires(node, var_expr):
        return isinstance(node, ast.If) and var_expr is not None

    def ensures_location_is_the_if_statement(node, result):
        return result.line_number == node.lineno and result.column == node.col_offset

    def ensures_quoted_names(node, var_expr, result):
        return result.variable_name == py_unparse(var_expr)


@contract(PA + "_build_none_check", props=["C12"], types=dict(pattern=NoneCheckPatternT, file_path=Str), returns=ViolationT)
class NoneCheckConvert:
    def ensures_location(pattern, file_path, result):
        return at(result, file_path, pattern.line_number, pattern.column)

    def ensures_rule(result):
        return result.rule_id == "lbyl.none-check"
StringValidatorPatternT = Rec("StringValidatorPattern", cls=PD + "string_validator_detector.py::StringValidatorPattern", line_number=Int, column=Int, string_name=Str, validator_method=Str, conversion_func=Str)


@contract(PD + "string_validator_detector.py::StringValidatorDetector._create_pattern", props=["C12"],
          types=dict(self=Rec("StringValidatorDetector", cls=PD + "string_validator_detector.py::StringValidatorDetector"), node=PyNode, string_expr=PyNode, validator=Str, conversion=Str), returns=StringValidatorPatternT)
class StringValidatorCreatePattern:
    def requires(node, string_expr, validator, conversion):
        return isinstance(node, ast.If) and string_expr is not None

    def ensures_location_is_the_if_statement(node, result):
        return result.line_number == node.lineno and result.column == node.col_offset

    def ensures_quoted_names(node, string_expr, validator, conversion, result):
        return result.string_name == py_unparse(string_expr) and result.validator_method == validator and result.conversion_func == conversion


@contract(PA + "_build_string_validator", props=["C12"], types=dict(pattern=StringValidatorPatternT, file_path=Str), returns=ViolationT)
class StringValidatorConvert:
    def ensures_location(pattern, file_path, result):
        return at(result, file_path, pattern.line_number, pattern.column)

    def ensures_rule(result):
        return result.rule_id == "lbyl.string-validator"
DivisionCheckPatternT = Rec("DivisionCheckPattern", cls=PD + "division_check_detector.py::DivisionCheckPattern", line_number=Int, column=Int, divisor_name=Str, operation=Str)


@contract(PD + "division_check_detector.py::DivisionCheckDetector._create_pattern", props=["C12"],
          types=dict(self=Rec("DivisionCheckDetector", cls=PD + "division_check_detector.py::DivisionCheckDetector"), node=PyNode, var_expr=PyNode, operation=Str), returns=DivisionCheckPatternT)
class DivisionCheckCreatePattern:
    def requires(node, var_expr, operation):
        return isinstance(node, ast.If) and var_expr is not None

    def ensures_location_is_the_if_statement(node, result):
        return result.line_number == node.lineno and result.column == node.col_offset

    def ensures_quoted_names(node, var_expr, operation, result):
        return result.divisor_name == py_unparse(var_expr) and result.operation == operation


@contract(PA + "_build_division_check", props=["C12"], types=dict(pattern=DivisionCheckPatternT, file_path=Str), returns=ViolationT)
class DivisionCheckConvert:
    def ensures_location(pattern, file_path, result):
        return at(result, file_path, pattern.line_number, pattern.column)

    def ensures_rule(result):
        return result.rule_id == "lbyl.division-check"


# ================================================================== method-property: node -> candidate -> violation
from pyvc.api import uf  # noqa: E402

MA = L + "method_property/python_analyzer.py::"
ML = L + "method_property/linter.py::"
PropertyCandidateT = Rec("PropertyCandidate", cls=MA + "PropertyCandidate",
                         pycls="src.linters.method_property.python_analyzer:PropertyCandidate",
                         method_name=Str, class_name=Str, line=Int, column=Int, is_get_prefix=Bool)
MethodAnalyzerT = Rec("PythonMethodAnalyzer", cls=MA + "PythonMethodAnalyzer", candidates=SeqOf(PropertyCandidateT))
mp_is_candidate = uf("mp_is_property_candidate", [PyNode], Bool)


@contract(MA + "PythonMethodAnalyzer._is_property_candidate", props=["C12"], types=dict(self=MethodAnalyzerT, method=PyNode),
          returns=Bool,
          assumed="the rule's decision predicate (nine syntactic exclusion tests; the documented-example half of C19, not "
                  "decided here): C12 only uses that WHICH method is flagged is a function of the method node")
class MPIsPropertyCandidate:
    def value(method):
        return mp_is_candidate(method)


def candidate_of(method, class_name):
    return mk(PropertyCandidateT, method_name=method.name, class_name=class_name, line=method.lineno,
              column=method.col_offset, is_get_prefix=method.name.startswith("get_") and len(method.name) > 4)


@contract(MA + "PythonMethodAnalyzer._check_method", props=["C12", "C19"],
          types=dict(self=MethodAnalyzerT, method=PyNode, class_name=Str), modifies=["self.candidates"],
          no_selftest="the assumed callee _is_property_candidate reads analyzer fields (max_body_statements, exclude_*) that "
                      "the record type does not model, so a natively generated `self` is incomplete")
class MPCheckMethod:
    def requires(self, method, class_name):
        return isinstance(method, ast.FunctionDef)

    def ensures_records_the_def_position_once(self, method, class_name, old):
        # at most one candidate per method, positioned at the method's own `def` (lineno / col_offset of the node)
        return self.candidates == old.self.candidates + ([candidate_of(method, class_name)] if mp_is_candidate(method) else [])


MPRuleT = Rec("MethodPropertyRule", cls=ML + "MethodPropertyRule", _violation_builder=MPBuilderT)


@contract(ML + "MethodPropertyRule._create_violation", props=["C12"],
          types=dict(self=MPRuleT, candidate=PropertyCandidateT, context=CtxT), returns=ViolationT)
class MPRuleCreateViolation:
    def ensures_location(candidate, context, result):
        return at(result, path_or(context.file_path, ""), candidate.line, candidate.column)

    def ensures_names_the_method(self, candidate, result):
        return result.message == mp_message(candidate.method_name, candidate.is_get_prefix, candidate.class_name)


# ================================================================== stateless-class: node -> ClassInfo
SA = SC + "python_analyzer.py::"
sc_stateless = uf("sc_is_stateless", [PyNode, Int], Bool)


@contract(SA + "_is_stateless", props=["C12"], types=dict(class_node=PyNode, min_methods=Int), returns=Bool,
          assumed="the rule's decision predicate (constructor / attributes / bases / method count; C19's documented-example "
                  "half, not decided here): C12 only uses that it is a function of the class node and the threshold")
class SCIsStateless:
    def value(class_node, min_methods):
        return sc_stateless(class_node, min_methods)


def sc_collect(s: SeqOf(PyNode), m: Int) -> SeqOf(ClassInfoT):
    """One ClassInfo per stateless ClassDef of the walk, in walk order, positioned at the `class` header node."""
    if len(s) == 0:
        return []
    if isinstance(s[0], ast.ClassDef) and sc_stateless(s[0], m):
        return [mk(ClassInfoT, name=s[0].name, line=s[0].lineno, column=s[0].col_offset)] + sc_collect(s[1:], m)
    return sc_collect(s[1:], m)


@contract(SA + "_find_stateless_classes", props=["C12", "C19"],
          types=dict(tree=PyNode, min_methods=Int, results=SeqOf(ClassInfoT), node=PyNode), returns=SeqOf(ClassInfoT))
class SCFindStatelessClasses:
    def requires(tree, min_methods):
        return tree is not None

    def ensures_each_class_once_at_its_header(tree, min_methods, result):
        return result == sc_collect(py_walk(tree), min_methods)

    def inv0(tree, min_methods, results, rest):
        return sc_collect(py_walk(tree), min_methods) == results + sc_collect(rest, min_methods)


# ================================================================== print-statements: node -> (node, parent, line) -> violation
import z3  # noqa: E402
from pyvc.api import Opaque  # noqa: E402
from pyvc.ex_call import external  # noqa: E402
from pyvc.ty import VNode, VBool  # noqa: E402

PP = L + "print_statements/python_analyzer.py::"
PT = L + "print_statements/typescript_analyzer.py::"
PL = L + "print_statements/linter.py::"
ParentMapT = Opaque("ParentMap")


@external("ParentMap.get")
def _parent_map_get(ex, args, kwargs, lineno):
    """parent_map.get(node) of the dict built by build_parent_map: an uninterpreted (nullable) node-valued function."""
    f = z3.Function("uf.parent_map_get", ParentMapT.sort(), PyNode.sort(), PyNode.sort())
    ex.ufs_used.add("parent_map.get(node): uninterpreted")
    return VNode(f(args[0].t, args[1].t), PyNode)


def is_print(node):
    """print(...) or builtins.print(...)"""
    return (isinstance(node.func, ast.Name) and node.func.id == "print") or (
        isinstance(node.func, ast.Attribute) and node.func.attr == "print"
        and isinstance(node.func.value, ast.Name) and node.func.value.id == "builtins")


@contract(PP + "is_print_call", props=["C12", "C19"], types=dict(node=PyNode), returns=Bool,
          inline=["_is_simple_print", "_is_builtins_print"])
class IsPrintCall:
    def requires(node):
        return isinstance(node, ast.Call)

    def value(node):
        return is_print(node)


PrintCallT = TupleOf(PyNode, PyNode, Int)
PyPrintAnalyzerT = Rec("PythonPrintStatementAnalyzer", cls=PP + "PythonPrintStatementAnalyzer",
                       print_calls=SeqOf(PrintCallT), parent_map=ParentMapT)


parent_map_get = uf("parent_map_get", [ParentMapT, PyNode], PyNode)


def print_calls_of(s: SeqOf(PyNode), pm: ParentMapT) -> SeqOf(PrintCallT):
    """(node, recorded parent, line) for each print Call node of a walk, in walk order, once each; the line is the
    lineno of that very node."""
    if len(s) == 0:
        return []
    if isinstance(s[0], ast.Call) and is_print(s[0]):
        return [(s[0], parent_map_get(pm, s[0]), s[0].lineno)] + print_calls_of(s[1:], pm)
    return print_calls_of(s[1:], pm)


@contract(PP + "PythonPrintStatementAnalyzer._collect_print_calls", props=["C12", "C19"],
          types=dict(self=PyPrintAnalyzerT, tree=PyNode, node=PyNode, parent=PyNode, line_number=Int),
          modifies=["self.print_calls"])
class CollectPrintCalls:
    def requires(self, tree):
        return tree is not None

    def ensures_each_print_call_once_with_its_own_line(self, tree, old):
        return self.print_calls == old.self.print_calls + print_calls_of(py_walk(tree), self.parent_map)

    def inv0(self, tree, old, rest):
        return old.self.print_calls + print_calls_of(py_walk(tree), self.parent_map) == \
            self.print_calls + print_calls_of(rest, self.parent_map)


@lemma(props=["C12"], types=dict(s=SeqOf(PyNode), pm=ParentMapT, i=Int), name="print-call-line-is-lineno-of-its-node")
def print_line_is_node_line(s, pm, i):
    """Every triple produced by the collector pairs a print Call node with that node's own lineno."""
    r = print_calls_of(s, pm)
    if len(s) == 0:
        return len(r) == 0
    ih(print_line_is_node_line, s[1:], pm, i - 1)
    ih(print_line_is_node_line, s[1:], pm, i)
    return implies(0 <= i and i < len(r), r[i][2] == r[i][0].lineno and isinstance(r[i][0], ast.Call) and is_print(r[i][0]))


# ------------------------------------------------------------------ TypeScript console.* collector (tree-sitter)
from contracts.c01_ts_base import ts_text, ts_first_child  # noqa: E402  (contracts of TypeScriptBaseAnalyzer helpers)

TsPrintAnalyzerT = Rec("TypeScriptPrintStatementAnalyzer", cls=PT + "TypeScriptPrintStatementAnalyzer")
ConsoleCallT = TupleOf(TSNode, Str, Int)


def console_member(node):
    return ts_first_child(node.children, "member_expression")


def console_object_ok(func_node):
    obj = ts_first_child(func_node.children, "identifier")
    return obj is not None and ts_text(obj) == "console"


def console_name(node):
    """Text of the property_identifier of the call's member expression ('' if there is none)."""
    m = ts_first_child(console_member(node).children, "property_identifier")
    return "" if m is None else ts_text(m)


def is_console_call(node, methods):
    """`console.<m>(...)` with <m> one of the configured methods."""
    return (console_member(node) is not None and console_object_ok(console_member(node))
            and ts_first_child(console_member(node).children, "property_identifier") is not None
            and console_name(node) in methods)


@contract(PT + "TypeScriptPrintStatementAnalyzer._find_object_node", props=["C12", "C19"],
          types=dict(self=TsPrintAnalyzerT, member_expr=TSNode), returns=TSNode)
class TsFindObjectNode:
    def requires(member_expr):
        return member_expr is not None

    def value(member_expr):
        return ts_first_child(member_expr.children, "identifier")

    def inv0(member_expr, rest):
        return ts_first_child(member_expr.children, "identifier") == ts_first_child(rest, "identifier")


@contract(PT + "TypeScriptPrintStatementAnalyzer._is_console_object", props=["C12", "C19"],
          types=dict(self=TsPrintAnalyzerT, func_node=TSNode), returns=Bool)
class TsIsConsoleObject:
    def requires(func_node):
        return func_node is not None

    def value(func_node):
        return console_object_ok(func_node)


@contract(PT + "TypeScriptPrintStatementAnalyzer._get_matching_method", props=["C12", "C19"],
          types=dict(self=TsPrintAnalyzerT, func_node=TSNode, methods=SeqOf(Str)), returns=Opt(Str))
class TsGetMatchingMethod:
    def requires(func_node, methods):
        return func_node is not None

    def ensures(func_node, methods, result):
        m = ts_first_child(func_node.children, "property_identifier")
        return (result is not None) == (m is not None and ts_text(m) in methods) and \
            implies(result is not None, result == ts_text(m))


@contract(PT + "TypeScriptPrintStatementAnalyzer._extract_console_method", props=["C12", "C19"],
          types=dict(self=TsPrintAnalyzerT, node=TSNode, methods=SeqOf(Str)), returns=Opt(Str))
class TsExtractConsoleMethod:
    def requires(node, methods):
        return node is not None

    def ensures(node, methods, result):
        return (result is not None) == is_console_call(node, methods) and \
            implies(result is not None, result == console_name(node))


def console_calls(n: TSNode, methods: SeqOf(Str)) -> SeqOf(ConsoleCallT):
    """Pre-order list of (node, method, line) for the console calls in the subtree of n: each matching node ONCE,
    with line = start row of that node + 1 (tree-sitter rows are 0-based)."""
    return ([(n, console_name(n), n.start_point[0] + 1)] if n.type == "call_expression" and is_console_call(n, methods) else []) \
        + console_calls_seq(n.children, methods)


def console_calls_seq(s: SeqOf(TSNode), methods: SeqOf(Str)) -> SeqOf(ConsoleCallT):
    if len(s) == 0:
        return []
    return console_calls(s[0], methods) + console_calls_seq(s[1:], methods)


@contract(PT + "TypeScriptPrintStatementAnalyzer._collect_console_calls", props=["C12", "C19"],
          types=dict(self=TsPrintAnalyzerT, node=TSNode, methods=SeqOf(Str), calls=SeqOf(ConsoleCallT),
                     method_name=Opt(Str), line_number=Int), modifies=["calls"])
class TsCollectConsoleCalls:
    def requires(self, node, methods, calls):
        return node is not None

    def ensures_each_console_call_once_at_its_row(self, node, methods, calls, old):
        return calls == old.calls + console_calls(node, methods)

    def inv0(self, node, methods, calls, old, rest):
        # (`methods` is passed to the recursive call, so the loop rule forgets it: the invariant keeps it fixed)
        return methods == old.methods and \
            old.calls + console_calls(node, methods) == calls + console_calls_seq(rest, methods)


# ================================================================== the construction-site scan
SITE_CALLEES = ("Violation", "ViolationInfo", "build_from_params")
BASELINE = os.path.join(os.path.dirname(os.path.abspath(__file__)), "c12_sites_baseline.json")


def scan_sites(repo_root):
    """Every call `Violation(...)` / `ViolationInfo(...)` / `<x>.build_from_params(...)` under src/, as
    (site id, relpath::qualname of the enclosing function, line). Site id = function key # callee # ordinal."""
    sites = []
    src = os.path.join(repo_root, "src")
    for dp, dns, fns in os.walk(src):
        dns.sort()
        for fn in sorted(fns):
            if not fn.endswith(".py"):
                continue
            path = os.path.join(dp, fn)
            rel = os.path.relpath(path, repo_root)
            with open(path, encoding="utf-8") as fh:
                tree = ast.parse(fh.read())
            counts = {}

            def walk(node, qual):
                for ch in ast.iter_child_nodes(node):
                    if isinstance(ch, (ast.FunctionDef, ast.AsyncFunctionDef, ast.ClassDef)):
                        walk(ch, qual + [ch.name])
                        continue
                    if isinstance(ch, ast.Call):
                        f = ch.func
                        nm = f.id if isinstance(f, ast.Name) else f.attr if isinstance(f, ast.Attribute) else None
                        if nm in SITE_CALLEES:
                            key = f"{rel}::{'.'.join(qual) if qual else '<module>'}"
                            k = counts.get((key, nm), 0)
                            counts[(key, nm)] = k + 1
                            sites.append((f"{key}#{nm}#{k}", key, ch.lineno))
                    walk(ch, qual)
            walk(tree, [])
    return sites


@custom("c12-site-scan", props=["C12"])
def c12_site_scan(ctx):
    """One obligation per construction site whose enclosing function is under a (verified, not assumed) contract, plus
    one obligation stating that no site outside the committed baseline is without a contract. Sites listed in the
    baseline as uncovered are NOT claimed: they are named in the note."""
    from pyvc import api
    with open(BASELINE, encoding="utf-8") as fh:
        known_uncovered = set(json.load(fh)["not_under_contract"])
    obs, new_uncovered, listed_uncovered = [], [], []
    for sid, key, line in scan_sites(ctx["repo"]):
        c = api.REGISTRY.get(key)
        if c is not None and not c.assumed and any(n.startswith("ensures") or n == "value" for n in c.methods):
            obs.append({"name": f"c12-site-scan/site:{sid}", "kind": "post", "verdict": "discharged", "solver": "scan",
                        "ms": 0.0, "carries": True, "lineno": line,
                        "note": f"enclosing function under contract {c.cls.__module__}.{c.cls.__name__} (props {c.props})"})
        elif sid in known_uncovered:
            listed_uncovered.append(sid)
        else:
            new_uncovered.append(sid)
    note = (f"{len(obs)} construction sites under contract; NOT under contract (baseline, not claimed): "
            + (", ".join(sorted(listed_uncovered)) or "none"))
    if new_uncovered:
        obs.append({"name": "c12-site-scan/no-new-site-without-contract", "kind": "post", "verdict": "unknown", "solver": "scan",
                    "ms": 0.0, "carries": True, "lineno": 0,
                    "note": "new construction site(s) without a contract: " + ", ".join(sorted(new_uncovered)) + "; " + note})
    else:
        obs.append({"name": "c12-site-scan/no-new-site-without-contract", "kind": "post", "verdict": "discharged",
                    "solver": "scan", "ms": 0.0, "carries": True, "lineno": 0, "note": note})
    return obs


# ================================================================== dispatchers: location is passed through the filters
# The per-linter suppression filters (`_should_ignore*`) and context predicates decide WHETHER a finding is kept
# (C04 / C19 territory); they are trusted Bool-valued functions here. What is proved: a finding that is kept carries
# exactly the location the collector recorded.
FILTER = ("suppression / context filter: decides only whether the finding is kept (C04, C19); C12 needs no fact about it")
PrintConfigT = Rec("PrintStatementConfig", allow_in_scripts=Bool)
PrintRuleT = Rec("PrintStatementRule", cls=PL + "PrintStatementRule", _violation_builder=PSBuilderT)


@contract(PL + "PrintStatementRule._should_ignore", props=["C12"], returns=Bool, assumed=FILTER,
          types=dict(self=PrintRuleT, violation=ViolationT, context=CtxT))
class PrintShouldIgnore:
    def ensures(result):
        return True


@contract(PL + "PrintStatementRule._should_ignore_typescript", props=["C12"], returns=Bool, assumed=FILTER,
          types=dict(self=PrintRuleT, violation=ViolationT, context=CtxT))
class PrintShouldIgnoreTs:
    def ensures(result):
        return True


@contract(PL + "PrintStatementRule._is_test_file", props=["C12", "C09"], returns=Bool,
          types=dict(self=PrintRuleT, file_path=Opt(PathT)))
class PrintIsTestFile:
    def value(self, file_path):
        # substring test on the full spelling of the path (what C09 examines)
        return any(m in (path_str(file_path) if file_path is not None else "None")
                   for m in (".test.", ".spec.", "test_", "_test.", "/tests/", "/test/"))


# ---- `if __name__ == "__main__":` context (docs/print-statements-linter.md, allow_in_scripts): a print() is exempt iff SOME
# ---- enclosing statement -- at any distance, through any other statements -- is the main guard
_pm_depth = z3.Function("uf.parent_map_depth", ParentMapT.sort(), PyNode.sort(), z3.IntSort())
parent_map_depth = uf("parent_map_depth", [ParentMapT, PyNode], Int)


@external("ParentMap.__contains__")
def _parent_map_contains(ex, args, kwargs, lineno):
    """`node in parent_map`: the node has a recorded parent (trusted: depths in the tree are non-negative)."""
    f = z3.Function("uf.parent_map_get", ParentMapT.sort(), PyNode.sort(), PyNode.sort())
    ex.assume(_pm_depth(args[0].t, args[1].t) >= 0)
    return VBool(f(args[0].t, args[1].t) != PyNode.null)


@external("ParentMap.__getitem__")
def _parent_map_getitem(ex, args, kwargs, lineno):
    """parent_map[node]: KeyError unless the node has a recorded parent. Trusted tree fact about build_parent_map: the
    map is the parent relation of a finite tree, so following it strictly decreases the node's depth."""
    f = z3.Function("uf.parent_map_get", ParentMapT.sort(), PyNode.sort(), PyNode.sort())
    pm, n = args[0].t, args[1].t
    p = f(pm, n)
    ex.maybe_raise(p != PyNode.null, "KeyError", lineno)
    ex.ufs_used.add("parent_map: depth(parent_map[n]) < depth(n), depth >= 0 (the map is a finite tree)")
    ex.assume(z3.And(_pm_depth(pm, n) >= 0, _pm_depth(pm, p) >= 0, _pm_depth(pm, p) < _pm_depth(pm, n)))
    return VNode(p, PyNode)


def is_main_guard(n):
    """The statement `if __name__ == "__main__":` (exactly one `==` comparison of the name __name__ with that string)."""
    return (isinstance(n, ast.If) and isinstance(n.test, ast.Compare)
            and isinstance(n.test.left, ast.Name) and n.test.left.id == "__name__"
            and len(n.test.ops) == 1 and isinstance(n.test.ops[0], ast.Eq) and len(n.test.comparators) == 1
            and isinstance(n.test.comparators[0], ast.Constant) and n.test.comparators[0].value == "__main__")


def main_guard_above(pm: ParentMapT, n: PyNode) -> Bool:
    """SOME proper ancestor of n (following the recorded parents) is the main guard."""
    return parent_map_get(pm, n) is not None and (
        is_main_guard(parent_map_get(pm, n)) or main_guard_above(pm, parent_map_get(pm, n)))


@contract(PP + "is_main_if_block", props=["C12", "C19"], types=dict(node=PyNode), returns=Bool,
          inline=["_is_main_comparison", "_is_name_identifier", "_has_single_eq_operator", "_compares_to_main"])
class IsMainIfBlock:
    def requires(node):
        return node is not None

    def value(node):
        return is_main_guard(node)


@contract(PP + "PythonPrintStatementAnalyzer.is_in_main_block", props=["C12", "C19"], returns=Bool,
          types=dict(self=PyPrintAnalyzerT, node=PyNode, current=PyNode, parent=PyNode))
class PrintIsInMainBlock:
    def requires(self, node):
        return node is not None

    def ensures_true_iff_some_enclosing_statement_is_the_main_guard(self, node, result):
        # wherever the print() is embedded inside the guarded block (C19): not only directly, not only under the
        # nearest enclosing `if`
        return result == main_guard_above(self.parent_map, node)

    def inv0(self, node, current):
        return current is not None and main_guard_above(self.parent_map, node) == main_guard_above(self.parent_map, current)

    def var0(self, current):
        return parent_map_depth(self.parent_map, current)


@contract(PL + "PrintStatementRule._try_create_python_violation", props=["C12"], returns=Opt(ViolationT),
          types=dict(self=PrintRuleT, node=PyNode, line_number=Int, context=CtxT, config=PrintConfigT,
                     analyzer=PyPrintAnalyzerT))
class PrintTryCreatePython:
    def requires(self, node, line_number, context, config, analyzer):
        return isinstance(node, ast.Call)

    def ensures_kept_finding_is_at_the_call(self, node, line_number, context, result):
        return implies(result is not None, at(result, path_or(context.file_path, ""), line_number, node.col_offset)
                       and result.rule_id == self._violation_builder.rule_id)


@contract(PL + "PrintStatementRule._try_create_typescript_violation", props=["C12"], returns=Opt(ViolationT),
          types=dict(self=PrintRuleT, method_name=Str, line_number=Int, context=CtxT))
class PrintTryCreateTypescript:
    def ensures_kept_finding_is_at_the_call_line(self, method_name, line_number, context, result):
        return implies(result is not None, at(result, path_or(context.file_path, ""), line_number, 0)
                       and result.message == f"console.{method_name}() should be replaced with proper logging")


# ================================================================== performance: node -> record (string-concat / regex in loop)
PFP = L + "performance/python_analyzer.py::"
PFT = L + "performance/typescript_analyzer.py::"
PFR = L + "performance/regex_analyzer.py::"
PyConcatT = Rec("StringConcatViolation", cls=PFP + "StringConcatViolation", variable_name=Str, line_number=Int, column=Int,
                loop_type=Str)
TsConcatT = Rec("TsStringConcatViolation", cls=PFT + "StringConcatViolation", variable_name=Str, line_number=Int, column=Int,
                loop_type=Str)
RegexLoopT = Rec("RegexInLoopViolation", cls=PFR + "RegexInLoopViolation", method_name=Str, line_number=Int, column=Int,
                 loop_type=Str)
pf_likely_string = uf("pf_is_likely_string_variable", [Str, PyNode], Bool)
pf_regex_method = uf("pf_regex_method_name", [PyNode], Opt(Str))
DECISION = "the rule's decision heuristic (which constructs are flagged: C19's documented-example half, not decided here)"


@contract(PFP + "PythonStringConcatAnalyzer._is_likely_string_variable", props=["C12"], returns=Bool, assumed=DECISION,
          types=dict(self=Rec("PythonStringConcatAnalyzer", cls=PFP + "PythonStringConcatAnalyzer"), var_name=Str, value=PyNode))
class PFIsLikelyString:
    def value(var_name, value):
        return pf_likely_string(var_name, value)


@contract(PFP + "PythonStringConcatAnalyzer._add_string_concat_violation", props=["C12", "C19"], modifies=["violations"],
          types=dict(self=Rec("PythonStringConcatAnalyzer", cls=PFP + "PythonStringConcatAnalyzer"), node=PyNode,
                     var_name=Str, loop_type=Str, violations=SeqOf(PyConcatT)))
class PFAddStringConcat:
    def requires(node, var_name, loop_type, violations):
        return isinstance(node, ast.AugAssign)

    def ensures_at_the_augmented_assignment_once(node, var_name, loop_type, violations, old):
        return violations == old.violations + (
            [mk(PyConcatT, variable_name=var_name, line_number=node.lineno, column=node.col_offset, loop_type=loop_type)]
            if pf_likely_string(var_name, node.value) else [])


@contract(PFT + "TypeScriptStringConcatAnalyzer._create_violation", props=["C12", "C19"], modifies=["violations"],
          types=dict(self=Rec("TypeScriptStringConcatAnalyzer", cls=PFT + "TypeScriptStringConcatAnalyzer"), node=TSNode,
                     var_name=Str, loop_type=Str, violations=SeqOf(TsConcatT)))
class PFTsCreateViolation:
    def requires(node, var_name, loop_type, violations):
        return node is not None

    def ensures_at_the_node_once(node, var_name, loop_type, violations, old):
        # tree-sitter rows are 0-based: line = row + 1, column = start column
        return violations == old.violations + [mk(TsConcatT, variable_name=var_name, line_number=node.start_point[0] + 1,
                                                  column=node.start_point[1], loop_type=loop_type)]


@contract(PFR + "PythonRegexInLoopAnalyzer._get_regex_method_name", props=["C12"], returns=Opt(Str), assumed=DECISION,
          types=dict(self=Rec("PythonRegexInLoopAnalyzer", cls=PFR + "PythonRegexInLoopAnalyzer"), node=PyNode))
class PFGetRegexMethodName:
    def value(node):
        return pf_regex_method(node)


@contract(PFR + "PythonRegexInLoopAnalyzer._create_violation_if_regex_call", props=["C12", "C19"], returns=Opt(RegexLoopT),
          types=dict(self=Rec("PythonRegexInLoopAnalyzer", cls=PFR + "PythonRegexInLoopAnalyzer"), node=PyNode, loop_type=Str))
class PFCreateIfRegexCall:
    def requires(node, loop_type):
        return isinstance(node, ast.Call)

    def ensures_at_the_call(node, loop_type, result):
        return (result is not None) == bool(pf_regex_method(node)) and implies(
            result is not None, result.line_number == node.lineno and result.column == node.col_offset
            and result.method_name == pf_regex_method(node) and result.loop_type == loop_type)


# ================================================================== CQS (Python): function node -> CQSPattern
CQF = CQ + "function_analyzer.py::"
CQSVisitorT = Rec("FunctionAnalyzer", cls=CQF + "FunctionAnalyzer", _class_stack=SeqOf(Str), _file_path=Str)


@contract(CQF + "FunctionAnalyzer._build_pattern", props=["C12"], returns=CQSPatternT,
          types=dict(self=CQSVisitorT, node=PyNode, is_async=Bool, inputs=SeqOf(InputOpT), outputs=SeqOf(OutputOpT)))
class CQSBuildPattern:
    def requires(self, node, is_async, inputs, outputs):
        return isinstance(node, (ast.FunctionDef, ast.AsyncFunctionDef))

    def ensures_at_the_def_it_names(self, node, result):
        return result.line == node.lineno and result.column == node.col_offset and result.function_name == node.name \
            and result.file_path == self._file_path

    def ensures_class_context(self, node, result):
        return result.class_name == (self._class_stack[len(self._class_stack) - 1] if len(self._class_stack) > 0 else None)


# ================================================================== collection-pipeline: `for` node -> PatternMatch
CPD = CP + "detector.py::"
CPS = CP + "suggestion_builder.py::"
AnyAllMatchT = Rec("AnyAllMatch", cls=CP + "any_all_analyzer.py::AnyAllMatch", for_node=PyNode, condition=PyNode, is_any=Bool)
FilterMapMatchT = Rec("FilterMapMatch", cls=CP + "filter_map_analyzer.py::FilterMapMatch", for_node=PyNode, result_var=Str,
                      transform_var=Str, transform_expr=Str)
TakewhileMatchT = Rec("TakewhileMatch", cls=CP + "filter_map_analyzer.py::TakewhileMatch", for_node=PyNode, result_var=Str,
                      condition=PyNode)
TEXT_ONLY = "refactoring-suggestion / loop-variable text only (ast.unparse based); no location clause depends on it"


@contract(CPS + "get_target_name", props=["C12"], types=dict(target=PyNode), returns=Str, assumed=TEXT_ONLY)
class CPGetTargetName:
    def ensures(result):
        return True


cp_inverted = uf("cp_inverted_condition_text", [PyNode], Str)


@contract(CPS + "invert_condition", props=["C12"], types=dict(condition=PyNode), returns=Str, assumed=TEXT_ONLY)
class CPInvertCondition:
    def value(condition):
        return cp_inverted(condition)


@contract(CPS + "build_suggestion", props=["C12"], types=dict(loop_var=Str, iterable=Str, conditions=SeqOf(Str)), returns=Str,
          assumed=TEXT_ONLY)
class CPBuildSuggestion:
    def ensures(result):
        return True


@contract(CPS + "build_any_suggestion", props=["C12"], types=dict(loop_var=Str, iterable=Str, condition=Str), returns=Str,
          assumed=TEXT_ONLY)
class CPBuildAnySuggestion:
    def ensures(result):
        return True


@contract(CPS + "build_all_suggestion", props=["C12"], types=dict(loop_var=Str, iterable=Str, condition=Str), returns=Str,
          assumed=TEXT_ONLY)
class CPBuildAllSuggestion:
    def ensures(result):
        return True


@contract(CPS + "build_filter_map_suggestion", props=["C12"],
          types=dict(loop_var=Str, iterable=Str, transform_var=Str, transform_expr=Str), returns=Str, assumed=TEXT_ONLY)
class CPBuildFilterMapSuggestion:
    def ensures(result):
        return True


@contract(CPS + "build_takewhile_suggestion", props=["C12"], types=dict(loop_var=Str, iterable=Str, condition=Str), returns=Str,
          assumed=TEXT_ONLY)
class CPBuildTakewhileSuggestion:
    def ensures(result):
        return True


def at_for(result, for_node):
    """Reported at the `for` statement; the message quotes the loop's own iterable expression."""
    return result.line_number == for_node.lineno and result.iterable == py_unparse(for_node.iter)


@contract(CPD + "create_any_match", props=["C12"], types=dict(match=AnyAllMatchT), returns=PatternMatchT)
class CPCreateAnyMatch:
    def requires(match):
        return isinstance(match.for_node, ast.For) and match.condition is not None

    def ensures_at_the_for_statement(match, result):
        return at_for(result, match.for_node)


@contract(CPD + "create_all_match", props=["C12"], types=dict(match=AnyAllMatchT), returns=PatternMatchT)
class CPCreateAllMatch:
    def requires(match):
        return isinstance(match.for_node, ast.For) and match.condition is not None

    def ensures_at_the_for_statement(match, result):
        return at_for(result, match.for_node)


@contract(CPD + "create_filter_map_match", props=["C12"], types=dict(match=FilterMapMatchT), returns=PatternMatchT)
class CPCreateFilterMapMatch:
    def requires(match):
        return isinstance(match.for_node, ast.For)

    def ensures_at_the_for_statement(match, result):
        return at_for(result, match.for_node)


@contract(CPD + "create_takewhile_match", props=["C12"], types=dict(match=TakewhileMatchT), returns=PatternMatchT)
class CPCreateTakewhileMatch:
    def requires(match):
        return isinstance(match.for_node, ast.For) and match.condition is not None

    def ensures_at_the_for_statement(match, result):
        return at_for(result, match.for_node)


@contract(CPD + "create_embedded_filter_match", props=["C12"], types=dict(for_node=PyNode, continues=SeqOf(PyNode)),
          returns=PatternMatchT)
class CPCreateEmbeddedFilterMatch:
    def requires(for_node, continues):
        return isinstance(for_node, ast.For) and all(isinstance(c, ast.If) for c in continues)

    def ensures_at_the_for_statement(for_node, result):
        return at_for(result, for_node)


# ================================================================== DRY: the line numbers attached to tokenised lines (C12 view)
# The contracts of the DRY tokenizer live in c03_windows.py (props C03). C12 needs one fact of them under its own name:
# the number attached to a kept line is its index in content.split("\n") -- the same physical-line numbering that
# FileLintContext.file_lines, the suppression scan and the Python parser (ast linenos) use. str.splitlines() would also
# break at form feed, vertical tab, FS/GS/RS, NEL, U+2028, U+2029, which are not line ends for any of those.
from contracts.c03_windows import track as dry_track, NumLineT as DryNumLineT  # noqa: E402

DRY_PY_TOK = "src/linters/dry/python_analyzer.py::PythonDuplicateAnalyzer._tokenize_with_line_numbers"
DRY_TS_TOK = "src/linters/dry/typescript_analyzer.py::TypeScriptDuplicateAnalyzer._tokenize_with_line_numbers"
# a text with every character at which str.splitlines() breaks but "\n"-splitting does not, each ABOVE further code
LINE_BOUNDARY_SAMPLE = ("alpha = 1\n\x0c\nbeta = 2\n\x0b\ngamma = 3\ns = '\x1c \x1d \x1e'\ndelta = 4\n# nel \x85 here\n"
                        "epsilon = 5\nt = '\u2028 \u2029'\nzeta = 6\r\neta = 7\n")


@contract(DRY_PY_TOK + "~lines", props=["C12"],
          types=dict(content=Str, docstring_lines=SeqOf(Int), lines_with_numbers=SeqOf(DryNumLineT), in_multiline_import=Bool,
                     non_docstring_lines=SeqOf(DryNumLineT), line_num=Int, line=Str, normalized=Opt(Str)),
          returns=SeqOf(DryNumLineT))
class DryPyTokenizeLineNumbers:
    def ensures_numbers_are_indices_of_the_newline_separated_lines(content, docstring_lines, result):
        return result == dry_track([(line_num, line) for line_num, line in enumerate(content.split("\n"), start=1)
                                    if line_num not in docstring_lines], False)

    def witness_numbers_are_indices_of_the_newline_separated_lines():
        return {"self": {}, "content": LINE_BOUNDARY_SAMPLE, "docstring_lines": []}

    def inv0(non_docstring_lines, lines_with_numbers, in_multiline_import, rest):
        return reveal(dry_track, rest, in_multiline_import) and \
            dry_track(non_docstring_lines, False) == lines_with_numbers + dry_track(rest, in_multiline_import)


@contract(DRY_TS_TOK + "~lines", props=["C12"],
          types=dict(content=Str, jsdoc_lines=SeqOf(Int), lines_with_numbers=SeqOf(DryNumLineT), in_multiline_import=Bool,
                     non_jsdoc_lines=SeqOf(DryNumLineT), line_num=Int, line=Str, normalized=Opt(Str)),
          returns=SeqOf(DryNumLineT))
class DryTsTokenizeLineNumbers:
    def ensures_numbers_are_indices_of_the_newline_separated_lines(content, jsdoc_lines, result):
        return result == dry_track([(line_num, line) for line_num, line in enumerate(content.split("\n"), start=1)
                                    if line_num not in jsdoc_lines], False)

    def witness_numbers_are_indices_of_the_newline_separated_lines():
        return {"self": {}, "content": LINE_BOUNDARY_SAMPLE, "jsdoc_lines": []}

    def inv0(non_jsdoc_lines, lines_with_numbers, in_multiline_import, rest):
        return reveal(dry_track, rest, in_multiline_import) and \
            dry_track(non_jsdoc_lines, False) == lines_with_numbers + dry_track(rest, in_multiline_import)


# ================================================================== parsers are handed EXACTLY the file's text (C12 view)
# Every tree-sitter position (start_point) is a position in the text that was parsed. The location clauses above say
# "line == start_point[0] + 1 of the node"; they mean a line of the FILE only if the parsed text is the file content,
# unchanged -- no stripped prefix (shebang, BOM), no normalised line endings. parse_typescript / parse_rust are
# assumed in c01_ts_base.py / c17_rust_context.py ("the tree of `code`"); these views verify the bodies up to the
# external parser call: the parser object receives bytes(code, "utf8") and its root node is returned as is.
from pyvc.api import Bytes  # noqa: E402
from pyvc.ty import VOpaque, VOpt  # noqa: E402

TsParserT = Opaque("TreeSitterParser")
TsTreeT = Opaque("TreeSitterTree")
TsLanguageT = Opaque("TreeSitterLanguage")
_parse_root_fn = z3.Function("uf.tree_sitter_root", TsParserT.sort(), z3.StringSort(), TSNode.sort())
tree_sitter_root = uf("tree_sitter_root", [TsParserT, Str], TSNode)   # root node of parser.parse(<text as utf-8>)
the_ts_parser = uf("the_typescript_parser", [], TsParserT)
the_rust_parser = uf("the_rust_parser", [], TsParserT)


def _opaque_const(name, ty):
    return VOpaque(z3.Const(name, ty.sort()), ty)


@external("tree_sitter_typescript.language_typescript")
def _x_ts_language(ex, args, kwargs, lineno):
    return _opaque_const("ts.language.typescript", TsLanguageT)


@external("tree_sitter_rust.language")
def _x_rs_language(ex, args, kwargs, lineno):
    return _opaque_const("ts.language.rust", TsLanguageT)


@external("tree_sitter.Language")
def _x_language(ex, args, kwargs, lineno):
    return args[0]


@external("tree_sitter.Parser")
def _x_parser(ex, args, kwargs, lineno):
    """Parser(language): one parser object per language (module-level singleton of the analyzers)."""
    lang = str(args[0].t)
    f = z3.Function("uf.the_typescript_parser" if "typescript" in lang else "uf.the_rust_parser", TsParserT.sort())
    return VOpaque(f(), TsParserT)


@external("TreeSitterParser.parse")
def _x_parser_parse(ex, args, kwargs, lineno):
    """parser.parse(data: bytes) -> tree; the tree's root node is an uninterpreted function of (parser, text)."""
    p, data = args[0], args[1]
    if not getattr(data, "is_bytes", False):
        from pyvc.ty import Unsupported as _U
        raise _U("Parser.parse on a non-bytes argument")
    ex.ufs_used.add("tree-sitter: parser.parse(bytes).root_node is a function of (parser, text)")
    return VOpaque(z3.Function("uf.tree_sitter_tree", TsParserT.sort(), z3.StringSort(), TsTreeT.sort())(p.t, data.t), TsTreeT)


@external("TreeSitterTree.@root_node")
def _x_tree_root(ex, args, kwargs, lineno):
    t = args[0].t
    if z3.is_app(t) and t.decl().name() == "uf.tree_sitter_tree":
        root = _parse_root_fn(t.arg(0), t.arg(1))
        # the per-language names other contract files use for the same tree: rust_root(text) (c17_rust_context.py),
        # ts_root(text) (c01_ts_base.py)
        S = z3.StringSort()
        pname = str(t.arg(0))
        if "rust" in pname:
            ex.assume(root == z3.Function("uf.rust_root", S, TSNode.sort())(t.arg(1)))
        elif "typescript" in pname:
            ex.assume(root == z3.Function("uf.ts_root", S, TSNode.sort())(t.arg(1)))
        v = VNode(root, TSNode)
        ex.on_fresh(v)
        return v
    from pyvc.ty import Unsupported as _U
    raise _U("root_node of a merged tree object")


TB12 = "src/analyzers/typescript_base.py::TypeScriptBaseAnalyzer."
RB12 = "src/analyzers/rust_base.py::RustBaseAnalyzer."


@contract(TB12 + "parse_typescript~exact-text", props=["C12", "C13"],
          types=dict(self=Rec("TypeScriptBaseAnalyzer", cls=TB12[:-1]), code=Str), returns=TSNode)
class ParseTypescriptExactText:
    def ensures_the_tree_is_the_parse_of_exactly_the_given_text(self, code, result):
        # rows / columns of every node are rows / columns of `code` itself
        return result == tree_sitter_root(the_ts_parser(), code)


@contract(RB12 + "parse_rust~exact-text", props=["C12", "C13"],
          types=dict(self=Rec("RustBaseAnalyzer", cls=RB12[:-1]), code=Str), returns=TSNode)
class ParseRustExactText:
    def ensures_the_tree_is_the_parse_of_exactly_the_given_text(self, code, result):
        return result == tree_sitter_root(the_rust_parser(), code)


# ================================================================== BOUNDED net: every reported location is a real one
# Labelled `bounded` (finite native test at the observation point; not a proof, not a replacement for the location
# clauses above). Every registered rule is run by the real Orchestrator on a corpus of healthy Python / TypeScript / Rust
# files, on the C19 embedding files, and on prefix / encoding variants of them (shebang line, UTF-8 BOM, CRLF line
# ends). Oracle from the property text only, per violation: the file is the linted file; 1 <= line <= number of lines;
# 0 <= column <= length of that line; and if the message quotes names or number literals ('...' or a bare number),
# at least one of them occurs on the reported line (file-level findings at line 1 and syntax-error notices excepted).
import subprocess as _subprocess  # noqa: E402
import sys as _sys  # noqa: E402
import tempfile as _tempfile  # noqa: E402

_LOCATION_DRIVER = r"""
import json, sys
from pathlib import Path
sys.path.insert(0, sys.argv[1])
from src.orchestrator.core import Orchestrator
root = Path(sys.argv[2])
o = Orchestrator(project_root=root)
out = {}
for p in sorted(root.iterdir()):
    if p.suffix in (".py", ".ts", ".js", ".rs"):
        out[p.name] = [[v.rule_id, v.file_path, v.line, v.column, v.message] for v in o.lint_file(p)]
print("RESULT" + json.dumps(out))
"""


def _many_methods(n):
    return n


LOCATION_EXTRA = {   # constructs whose findings quote a NAME taken from the source: SRP on a class / struct with many methods
    "big_class.py": "class ReportManager:\n" + "".join(f"    def step_{i}(self):\n        return {i}\n\n" for i in range(9)),
    "big_class.ts": "export class ReportManager {\n" + "".join(f"  step{i}(): number {{ return {i}; }}\n" for i in range(9)) + "}\n",
    "big_struct.rs": "pub struct ReportManager { id: u32 }\n\nimpl ReportManager {\n"
                     + "".join(f"    pub fn step_{i}(&self) -> u32 {{ self.id + {i} }}\n" for i in range(9)) + "}\n",
}
LOCATION_EXTRA["callbacks.ts"] = '''const visible = items
  .filter((entry) => entry.enabled)
  .map((entry) => {
    for (const part of entry.parts) {
      if (part.ready) {
        while (part.pending()) {
          if (part.stalled) {
            part.reset();
          }
        }
      }
    }
    return entry;
  });

const wrapped = (
  function (entry: Entry) {
    for (const part of entry.parts) {
      if (part.ready) {
        while (part.pending()) {
          if (part.stalled) {
            part.reset();
          }
        }
      }
    }
    return entry;
  }
);

const direct = (entry: Entry) => {
  for (const part of entry.parts) {
    if (part.ready) {
      while (part.pending()) {
        if (part.stalled) {
          part.reset();
        }
      }
    }
  }
  return entry;
};

register("handler", function (entry: Entry) {
  for (const part of entry.parts) {
    if (part.ready) {
      while (part.pending()) {
        if (part.stalled) {
          part.reset();
        }
      }
    }
  }
});
'''
# placeholders a message uses when the construct has NO name in the source (they are kinds, not quoted source text)
KIND_PLACEHOLDERS = ("arrow_function", "function_expression", "anonymous", "function", "method", "<module>", "<lambda>")
NON_ASCII_COMMENT = "→ naïve café ─── 日本語"   # multi-byte characters: byte offsets and character offsets differ after them


def _location_corpus():
    from contracts.c11_containment import MUTATION_CORPUS
    from contracts.c19_traversal import _embedding_files
    files = {}
    for name, text in list(MUTATION_CORPUS.items()) + list(LOCATION_EXTRA.items()):
        stem, ext = name.rsplit(".", 1)
        lead = ("# " if ext == "py" else "// ") + NON_ASCII_COMMENT + "\n"
        if text.startswith("#!"):
            first, rest = text.split("\n", 1)
            files[f"{stem}__non-ascii-comment.{ext}"] = first + "\n" + lead + rest
        elif not text.startswith('"""'):
            files[f"{stem}__non-ascii-comment.{ext}"] = lead + text
    for name, text in list(MUTATION_CORPUS.items()) + list(LOCATION_EXTRA.items()):
        files[name] = text
        stem, ext = name.rsplit(".", 1)
        files[f"{stem}__crlf.{ext}"] = text.replace("\n", "\r\n")
        files[f"{stem}__bom.{ext}"] = "﻿" + text
        if ext in ("ts", "js") and not text.startswith("#!"):
            files[f"{stem}__shebang.{ext}"] = "#!/usr/bin/env node\n" + text
        if ext in ("ts", "js") and text.startswith("#!"):
            files[f"{stem}__no-shebang.{ext}"] = text.split("\n", 1)[1]
        if ext == "py":
            files[f"{stem}__shebang.{ext}"] = "#!/usr/bin/env python3\n" + text
    for name, (lines, _ek, _starts) in _embedding_files().items():
        files["emb_" + name] = "\n".join(lines) + "\n"
    return files


def _quoted_tokens(message):
    """Names / literals the message quotes: the text between single quotes, and the number after "Magic number"."""
    import re as _r
    toks = _r.findall(r"'([^']+)'", message)
    toks += _r.findall(r"Magic number (\S+)", message)
    return [t for t in toks if t.strip()]


def _occurs_on_line(token, src_line):
    """The quoted name, or a spelling of the quoted value, occurs on the line: the token itself; for a call `f()` or an
    operator phrase `x +=` its name; for a qualified name its last component; for a number any numeric literal of the
    line with the same value (0x1f for 31, 1_000 for 1000, 10n for 10)."""
    import re as _r
    cands = {token, token.rstrip("()"), token.split()[0], token.rstrip("()").split(".")[-1]}
    if any(c and c in src_line for c in cands):
        return True
    try:
        val = float(token)
    except ValueError:
        return False
    for lit in _r.findall(r"(?<![\w.])(0[xXoObB][0-9a-fA-F_]+|\d[\d_]*\.?\d*(?:[eE][+-]?\d+)?)", src_line):
        try:
            v = float(int(lit.replace("_", ""), 0)) if _r.match(r"0[xXoObB]", lit) else float(lit.replace("_", ""))
        except ValueError:
            continue
        if v == val:
            return True
    return False


@custom("c12-location-bounded", props=["C12"])
def c12_location_bounded(ctx):
    files = _location_corpus()
    tmp = _tempfile.mkdtemp(prefix="c12loc_")
    for name, text in files.items():
        with open(os.path.join(tmp, name), "w", encoding="utf-8", newline="") as fh:
            fh.write(text)
    p = _subprocess.run([_sys.executable, "-c", _LOCATION_DRIVER, ctx["repo"], tmp], capture_output=True, text=True, timeout=900,
                        cwd=tmp)
    import shutil
    shutil.rmtree(tmp, ignore_errors=True)
    line = [ln for ln in p.stdout.splitlines() if ln.startswith("RESULT")]

    def ob(name, verdict, note, cases=0):
        return {"name": f"c12-location-bounded/{name}", "kind": "bounded", "verdict": verdict, "solver": "native", "ms": 0.0,
                "carries": True, "lineno": 0, "note": note, "cases": cases, "tool": "real Orchestrator, all registered rules",
                "budget": f"{len(files)} generated files", "witness_confirmed": verdict == "refuted"}
    if not line:
        return [ob("driver", "unknown", "driver failed: " + (p.stderr or p.stdout)[-400:])]
    res = json.loads(line[0][len("RESULT"):])
    per_rule = {}
    for name, vs in sorted(res.items()):
        text = files[name]
        lines = text.split("\n")
        for rule_id, file_path, ln, col, msg in vs:
            e = per_rule.setdefault(rule_id, {"n": 0, "bad": []})
            e["n"] += 1
            why = None
            if os.path.basename(file_path) != name:
                why = f"file_path {file_path!r} is not the linted file"
            elif not (1 <= ln <= len(lines)):
                why = f"line {ln} outside 1..{len(lines)}"
            elif "yntax error" in msg or ln == 1 and rule_id.split(".")[0] in ("file-header", "file-placement", "lazy-ignores"):
                pass
            else:
                src_line = lines[ln - 1].rstrip("\r")
                toks = [t for t in _quoted_tokens(msg) if t not in KIND_PLACEHOLDERS]
                if not (0 <= col <= len(src_line) + 1):
                    why = f"column {col} outside line {ln} (length {len(src_line)})"
                elif toks and not any(_occurs_on_line(t, src_line) for t in toks):
                    why = f"none of the quoted {toks} occurs on line {ln}: {src_line.strip()[:80]!r}"
            if why and len(e["bad"]) < 4:
                e["bad"].append(f"{name}: {rule_id} at {ln}:{col} -- {why}")
            if why:
                e["nbad"] = e.get("nbad", 0) + 1
    obs = []
    for rule_id in sorted(per_rule):
        e = per_rule[rule_id]
        obs.append(ob(rule_id, "refuted" if e.get("nbad") else "discharged",
                      (f"{e['nbad']} of {e['n']} findings: " + "; ".join(e["bad"])) if e.get("nbad")
                      else f"{e['n']} findings: all at a real location of the linted file", e["n"]))
    if not obs:
        obs.append(ob("findings", "unknown", "the corpus produced no finding at all"))
    return obs + reuse_scenario(ctx, "c12-location-bounded")


# ================================================================== BOUNDED reuse scenario (shared by the C12 / C13 / C19 nets)
# "every violation names a file that was part of the run" (C12), "edits ... leave the findings unchanged" (C13) and
# "wherever / any number of times" (C19) are statements about EVERY run, also the second and third run of one long-lived
# Orchestrator (library / editor use). Scenario, oracle from the property text only: three successive lint_files() calls
# on ONE Orchestrator with the cross-file rules enabled -- (1) a lone module without duplicates or constants, (2) a project
# with a duplicated block (one copy inside `# thailint: ignore-start dry` ... `ignore-end`), duplicate constants and a
# copy of a block of the step-1 module, (3) the same project after edits (blank / comment lines inserted above the
# suppressed block, the duplicate constant consolidated away) -- each call must answer exactly like a FRESH Orchestrator
# on the same files, and may only name files of that call.
_REUSE_BLOCK = ("    total = 0\n    for item in items:\n        if item.value > threshold:\n            total += item.value * factor\n"
                "        else:\n            total -= item.value / factor\n    result = transform(total, mode=\"fast\")\n"
                "    return finalize_result(result, items)\n")
_REUSE_LONE_BLOCK = ("    rows = []\n    for record in records:\n        if record.active and record.score > limit:\n"
                     "            rows.append((record.name, record.score * weight))\n        elif record.pending:\n"
                     "            rows.append((record.name, 0))\n    ordered = sorted(rows, key=pick_score)\n"
                     "    return render_table(ordered, title)\n")
_REUSE_CONFIG = {"dry": {"enabled": True, "min_duplicate_lines": 3, "detect_duplicate_constants": True,
                         "min_constant_occurrences": 2, "storage_mode": "memory"}}
_REUSE_DRIVER = r"""
import json, sys
from pathlib import Path
sys.path.insert(0, sys.argv[1])
from src.orchestrator.core import Orchestrator
root = Path(sys.argv[2])
spec = json.loads((root / "scenario.json").read_text())
def key(vs):
    return sorted([v.rule_id, str(Path(v.file_path).resolve().relative_to(root.resolve())) if Path(v.file_path).is_absolute()
                   else str(v.file_path), v.line, v.column] for v in vs)
used = Orchestrator(project_root=root, config=spec["config"])
out = []
for step in spec["steps"]:
    for name, text in step["write"].items():
        (root / name).write_text(text, encoding="utf-8")
    files = [root / n for n in step["files"]]
    a = key(used.lint_files(files))
    b = key(Orchestrator(project_root=root, config=spec["config"]).lint_files(files))
    out.append({"step": step["name"], "files": step["files"], "used": a, "fresh": b})
print("RESULT" + json.dumps(out))
"""


def reuse_scenario_steps():
    head = '"""module"""\n\n'
    a = head + "API_TIMEOUT = 30\n\n\ndef work_a(items, threshold, factor):\n" + _REUSE_BLOCK
    b = head + "API_TIMEOUT = 30\n\n\ndef work_b(items, threshold, factor):\n" + _REUSE_BLOCK
    c = head + "\ndef work_c(items, threshold, factor):\n    # thailint: ignore-start dry\n" + _REUSE_BLOCK + "    # thailint: ignore-end\n"
    lone = head + "\ndef table(records, limit, weight, title):\n" + _REUSE_LONE_BLOCK
    dup_of_lone = head + "\ndef table_again(records, limit, weight, title):\n" + _REUSE_LONE_BLOCK
    b_consolidated = head + "from a import API_TIMEOUT\n\n\ndef work_b(items, threshold, factor):\n" + _REUSE_BLOCK
    c_shifted = head + "\n".join(["# note for the reader"] * 7 + [""] * 6) + "\n" + c[len(head):]
    return [
        {"name": "1-lone-module", "write": {"lone.py": lone}, "files": ["lone.py"]},
        {"name": "2-project", "write": {"a.py": a, "b.py": b, "c.py": c, "dup_of_lone.py": dup_of_lone},
         "files": ["a.py", "b.py", "c.py", "dup_of_lone.py"]},
        {"name": "3-project-after-edits", "write": {"b.py": b_consolidated, "c.py": c_shifted}, "files": ["a.py", "b.py", "c.py"]},
    ]


def reuse_scenario(ctx, check_name):
    """Obligations (kind bounded) of the reuse scenario, named under the calling net `check_name`."""
    import json as _j
    tmp = _tempfile.mkdtemp(prefix="reuse_")
    with open(os.path.join(tmp, "scenario.json"), "w", encoding="utf-8") as fh:
        _j.dump({"config": _REUSE_CONFIG, "steps": reuse_scenario_steps()}, fh)
    p = _subprocess.run([_sys.executable, "-c", _REUSE_DRIVER, ctx["repo"], tmp], capture_output=True, text=True, timeout=600, cwd=tmp)
    import shutil
    shutil.rmtree(tmp, ignore_errors=True)
    line = [ln for ln in p.stdout.splitlines() if ln.startswith("RESULT")]

    def ob(name, verdict, note):
        return {"name": f"{check_name}/reuse:{name}", "kind": "bounded", "verdict": verdict, "solver": "native", "ms": 0.0,
                "carries": True, "lineno": 0, "note": note, "cases": 3, "tool": "one Orchestrator, three lint_files() calls",
                "budget": "3-step scenario", "witness_confirmed": verdict == "refuted"}
    if not line:
        return [ob("driver", "unknown", "driver failed: " + (p.stderr or p.stdout)[-400:])]
    obs = []
    for st in _j.loads(line[0][len("RESULT"):]):
        foreign = [v for v in st["used"] if os.path.basename(v[1]) not in st["files"]]
        obs.append(ob(f"{st['step']}:only-files-of-this-run", "refuted" if foreign else "discharged",
                      f"violations naming files that are not part of this call: {foreign[:3]}" if foreign
                      else f"{len(st['used'])} findings, all in the files of this call"))
        same = st["used"] == st["fresh"]
        lost = [v for v in st["fresh"] if v not in st["used"]]
        extra = [v for v in st["used"] if v not in st["fresh"]]
        obs.append(ob(f"{st['step']}:same-as-a-fresh-run", "discharged" if same else "refuted",
                      "the reused Orchestrator answers like a fresh one" if same
                      else f"reused object differs from a fresh one: lost {lost[:3]} gained {extra[:3]}"))
    return obs
