"""C13 -- meaning-preserving edits: the TEXT-BASED steps (DESIGN.md 3/C13, 4: level "other").

What is decided here: relational lemmas over contracts proved elsewhere, for the steps of the pipeline that look at the
file as text (everything else is AST / tree-sitter based and layout-insensitive *modulo the parser*, which is trusted):
  * SRP lines-of-code (srp.heuristics.count_loc, contract in c16_srp.py): inserting a blank or comment-only line into
    the class text, or appending whitespace (including the "\r" of a CRLF file) to a line, does not change the count;
  * the suppression scan (linter_config/ignore.py, contracts in c04_ignore.py): inserting lines ABOVE the scope of a
    directive shifts what it suppresses by exactly the number of inserted lines (same-line, previous-line, index
    helper); the block scan is covered for directive-free lines inserted above the violation;
  * FileLintContext.file_lines splits on "\n" only (contract in c11_containment.py), so CRLF files keep "\r" at the end
    of each line: consumers that strip() are insensitive (lemmas below), consumers that compare raw lines are not
    claimed.
NOT decided: that the parsers yield the same tree for re-indented / CRLF / BOM-prefixed text, renaming of locals, the
TypeScript SRP line count (end_row - start_row + 1 counts blank lines: layout-sensitive by construction).

Model of str.strip (trusted, stated as `assert` in the spec functions below and re-checked natively on every replay):
strip() removes a whitespace-only suffix, i.e. ws.strip() == "" implies (s + ws).strip() == s.strip()."""
from pyvc.api import contract, lemma, Int, Bool, Str, SeqOf, Opt, Rec, TupleOf, implies, call, mk, ih, reveal, use, opaque
from contracts._common import ViolationT
from contracts._nodes import PyNode, TSNode
from contracts.c16_srp import py_is_code_line, py_code_line_count, py_class_lines
from contracts import c04_ignore  # noqa: F401  (contracts of the suppression scan that the shift lemmas call)
from contracts.c04_ignore import same_line_ignores, prev_line_ignores

COUNT_LOC = "src/linters/srp/heuristics.py::count_loc"
IG = "src/linter_config/ignore.py::"


# ================================================================== SRP lines of code
@opaque
def cc(s: SeqOf(Str)) -> Int:
    """Number of code lines, as an explicit recursion (proof device; equal to py_code_line_count by `loc-count-unfold`)."""
    if len(s) == 0:
        return 0
    return (1 if py_is_code_line(s[0]) else 0) + cc(s[1:])


@lemma(props=["C13"], types=dict(s=SeqOf(Str)), name="loc-count-unfold")
def cc_eq(s):
    reveal(cc, s)
    if len(s) == 0:
        return cc(s) == py_code_line_count(s)
    ih(cc_eq, s[1:])
    return cc(s) == py_code_line_count(s)


@lemma(props=["C13"], types=dict(a=SeqOf(Str)), name="seq-head-tail-decomposition")
def seq_decompose(a):
    """Sequence fact used by the induction below (stated separately to keep each query small)."""
    if len(a) == 0:
        return True
    return a == [a[0]] + a[1:]


@lemma(props=["C13"], types=dict(x=Str, t=SeqOf(Str)), name="loc-count-cons")
def cc_cons(x, t):
    reveal(cc, [x] + t)
    return cc([x] + t) == (1 if py_is_code_line(x) else 0) + cc(t)


@lemma(props=["C13"], types=dict(pre=SeqOf(Str), ins=Str, post=SeqOf(Str), h=Str, t=SeqOf(Str)), name="loc-insert-step")
def cc_insert(pre, ins, post, h, t):
    """Induction on the lines above the insertion point; (h, t) is the head/tail decomposition of `pre`, passed
    explicitly so that every unfolding is syntactic."""
    if py_is_code_line(ins):
        return True
    if len(pre) == 0:
        use(cc_cons, ins, post)
        return cc(pre + [ins] + post) == cc(pre + post)
    if pre != [h] + t:
        return True
    use(cc_cons, h, t + [ins] + post)
    use(cc_cons, h, t + post)
    use(seq_decompose, t)
    ih(cc_insert, t, ins, post, t[0] if len(t) > 0 else "", t[1:])
    return cc(pre + [ins] + post) == cc(pre + post)


@lemma(props=["C13"], types=dict(pre=SeqOf(Str), ins=Str, post=SeqOf(Str)), name="loc-ignores-an-inserted-non-code-line")
def loc_insert(pre, ins, post):
    """Counting code lines (non-blank, non-comment) is invariant under inserting one non-code line anywhere."""
    use(cc_eq, pre + [ins] + post)
    use(cc_eq, pre + post)
    use(seq_decompose, pre)
    use(cc_insert, pre, ins, post, pre[0] if len(pre) > 0 else "", pre[1:])
    return implies(not py_is_code_line(ins), py_code_line_count(pre + [ins] + post) == py_code_line_count(pre + post))


@lemma(props=["C13"], types=dict(n1=PyNode, s1=Str, n2=PyNode, s2=Str, pre=SeqOf(Str), ins=Str, post=SeqOf(Str)),
       name="count_loc-invariant-under-blank-or-comment-line-insertion")
def count_loc_insert(n1, s1, n2, s2, pre, ins, post):
    """Two (class, source) pairs whose class texts differ by one inserted blank / comment-only line have the same LOC
    (the insertion point is anywhere inside the class: below the header for header-sensitive reporting)."""
    if n1 is None or n2 is None:
        return True
    if py_is_code_line(ins) or py_class_lines(n1, s1) != pre + post or py_class_lines(n2, s2) != pre + [ins] + post:
        return True
    use(loc_insert, pre, ins, post)
    return call(COUNT_LOC, n1, s1) == call(COUNT_LOC, n2, s2)


def strip_drops_trailing_whitespace(s, ws):
    """TRUSTED model of str.strip (checked natively on replay)."""
    assert implies(ws.strip() == "", (s + ws).strip() == s.strip())
    return True


@lemma(props=["C13"], types=dict(line=Str, ws=Str), name="code-line-test-ignores-trailing-whitespace")
def code_line_ws(line, ws):
    """Appending whitespace -- blanks, tabs, or the '\\r' a CRLF file leaves after split('\\n') -- does not change whether
    a line counts as code."""
    strip_drops_trailing_whitespace(line, ws)
    return implies(ws.strip() == "", py_is_code_line(line + ws) == py_is_code_line(line))


@lemma(props=["C13"], types=dict(pre=SeqOf(Str), line=Str, ws=Str, post=SeqOf(Str), h=Str, t=SeqOf(Str)), name="loc-ws-step")
def cc_ws(pre, line, ws, post, h, t):
    if ws.strip() != "":
        return True
    if len(pre) == 0:
        use(cc_cons, line + ws, post)
        use(cc_cons, line, post)
        use(code_line_ws, line, ws)
        return cc(pre + [line + ws] + post) == cc(pre + [line] + post)
    if pre != [h] + t:
        return True
    use(cc_cons, h, t + [line + ws] + post)
    use(cc_cons, h, t + [line] + post)
    use(seq_decompose, t)
    ih(cc_ws, t, line, ws, post, t[0] if len(t) > 0 else "", t[1:])
    return cc(pre + [line + ws] + post) == cc(pre + [line] + post)


@lemma(props=["C13"], types=dict(pre=SeqOf(Str), line=Str, ws=Str, post=SeqOf(Str)), name="loc-ignores-trailing-whitespace")
def loc_ws(pre, line, ws, post):
    use(cc_eq, pre + [line + ws] + post)
    use(cc_eq, pre + [line] + post)
    use(seq_decompose, pre)
    use(cc_ws, pre, line, ws, post, pre[0] if len(pre) > 0 else "", pre[1:])
    return implies(ws.strip() == "",
                   py_code_line_count(pre + [line + ws] + post) == py_code_line_count(pre + [line] + post))


@lemma(props=["C13"], types=dict(n1=PyNode, s1=Str, n2=PyNode, s2=Str, pre=SeqOf(Str), line=Str, ws=Str, post=SeqOf(Str)),
       name="count_loc-invariant-under-trailing-whitespace-and-CR")
def count_loc_ws(n1, s1, n2, s2, pre, line, ws, post):
    if n1 is None or n2 is None:
        return True
    if ws.strip() != "" or py_class_lines(n1, s1) != pre + [line] + post or py_class_lines(n2, s2) != pre + [line + ws] + post:
        return True
    use(loc_ws, pre, line, ws, post)
    return call(COUNT_LOC, n1, s1) == call(COUNT_LOC, n2, s2)



# ================================================================== suppression scan: shift lemmas (contracts of c04_ignore.py)
def shifted(v, k):
    """The same finding, k lines further down."""
    return mk(ViolationT, rule_id=v.rule_id, file_path=v.file_path, line=v.line + k, column=v.column, message=v.message,
              severity=v.severity, suggestion=v.suggestion)


@lemma(props=["C13"], types=dict(pre=SeqOf(Str), ins=SeqOf(Str), post=SeqOf(Str), n=Int),
       name="prev-line-lookup-shifts-with-lines-inserted-above")
def get_prev_line_shift(pre, ins, post, n):
    """_get_prev_line is index-relative: inserting lines at or above line n-1 moves the looked-up line along."""
    if n - 2 < len(pre):
        return True
    return call(IG + "_get_prev_line", pre + ins + post, n + len(ins)) == call(IG + "_get_prev_line", pre + post, n)


@lemma(props=["C13"], types=dict(pre=SeqOf(Str), ins=SeqOf(Str), post=SeqOf(Str), v=ViolationT),
       name="same-line-suppression-shifts-with-lines-inserted-above")
def same_line_shift(pre, ins, post, v):
    """A finding at line n is suppressed by a same-line directive in `pre + post` iff the finding moved to line
    n + len(ins) is suppressed in `pre + ins + post`, for any lines inserted above line n (their content is irrelevant)."""
    if v.line - 1 < len(pre):
        return True
    reveal(same_line_ignores, pre + post, v.line, v.rule_id)
    reveal(same_line_ignores, pre + ins + post, v.line + len(ins), v.rule_id)
    return call(IG + "_check_current_line_ignore", pre + ins + post, shifted(v, len(ins))) == \
        call(IG + "_check_current_line_ignore", pre + post, v)


@lemma(props=["C13"], types=dict(pre=SeqOf(Str), ins=SeqOf(Str), post=SeqOf(Str), v=ViolationT),
       name="next-line-suppression-shifts-with-lines-inserted-above-the-directive")
def prev_line_shift(pre, ins, post, v):
    """Same for `ignore-next-line`: the insertion must be above the directive line n-1 (a line inserted BETWEEN the
    directive and its target changes what the directive applies to -- not a meaning-preserving edit)."""
    if v.line - 2 < len(pre):
        return True
    reveal(prev_line_ignores, pre + post, v.line, v.rule_id)
    reveal(prev_line_ignores, pre + ins + post, v.line + len(ins), v.rule_id)
    return call(IG + "_check_prev_line_ignore", pre + ins + post, shifted(v, len(ins))) == \
        call(IG + "_check_prev_line_ignore", pre + post, v)


# ------------------------------------------------------------------ block scan (ignore-start ... ignore-end)
from contracts.c04_ignore import block_scan, block_ignores, is_start, is_end, start_rules  # noqa: E402


@lemma(props=["C13"], types=dict(rest=SeqOf(Str), i=Int, in_block=Bool, rules=SeqOf(Str), covers=Bool, vline=Int, rule_id=Str),
       name="block-scan-depends-on-line-numbers-only-relatively")
def block_index_shift(rest, i, in_block, rules, covers, vline, rule_id):
    """Renumbering the remaining lines and the finding by the same offset does not change the block verdict."""
    if len(rest) == 0:
        return block_scan(rest, i + 1, in_block, rules, covers, vline + 1, rule_id) == \
            block_scan(rest, i, in_block, rules, covers, vline, rule_id)
    ih(block_index_shift, rest[1:], i + 1, True, start_rules(rest[0]), i <= vline, vline, rule_id)
    ih(block_index_shift, rest[1:], i + 1, False, [], covers, vline, rule_id)
    ih(block_index_shift, rest[1:], i + 1, in_block, rules, covers, vline, rule_id)
    return block_scan(rest, i + 1, in_block, rules, covers, vline + 1, rule_id) == \
        block_scan(rest, i, in_block, rules, covers, vline, rule_id)


@lemma(props=["C13"], types=dict(line=Str, lines=SeqOf(Str), v=ViolationT),
       name="block-suppression-shifts-with-a-directive-free-line-inserted-at-the-top")
def block_top_shift(line, lines, v):
    """A line that is neither an ignore-start nor an ignore-end marker, inserted as the new first line of the file,
    shifts block suppression by one line (apply repeatedly for several lines). Insertion in the MIDDLE of the file is
    not covered by a lemma here."""
    if is_start(line) or is_end(line) or v.line < 1:
        return True
    use(block_index_shift, lines, 1, False, [], False, v.line, v.rule_id)
    reveal(block_ignores, [line] + lines, v.line + 1, v.rule_id)
    reveal(block_ignores, lines, v.line, v.rule_id)
    return call(IG + "_check_block_ignore", [line] + lines, shifted(v, 1)) == call(IG + "_check_block_ignore", lines, v)


# ================================================================== Rust SRP lines of code (RustSRPAnalyzer._node_loc, contract in c16_srp.py)
from contracts.c16_srp import rs_is_code_line, rs_node_lines, rs_node_loc, RustAnalyzerT  # noqa: E402

RS_NODE_LOC = "src/linters/srp/rust_analyzer.py::RustSRPAnalyzer._node_loc"


def rs_count(lines):
    return sum(1 for line in lines if rs_is_code_line(line))


@opaque
def rcc(s: SeqOf(Str)) -> Int:
    """Number of Rust code lines (non-blank, not starting a `//` comment) as an explicit recursion (proof device)."""
    if len(s) == 0:
        return 0
    return (1 if rs_is_code_line(s[0]) else 0) + rcc(s[1:])


@lemma(props=["C13"], types=dict(s=SeqOf(Str)), name="rust-loc-count-unfold")
def rcc_eq(s):
    reveal(rcc, s)
    if len(s) == 0:
        return rcc(s) == rs_count(s)
    ih(rcc_eq, s[1:])
    return rcc(s) == rs_count(s)


@lemma(props=["C13"], types=dict(x=Str, t=SeqOf(Str)), name="rust-loc-count-cons")
def rcc_cons(x, t):
    reveal(rcc, [x] + t)
    return rcc([x] + t) == (1 if rs_is_code_line(x) else 0) + rcc(t)


@lemma(props=["C13"], types=dict(pre=SeqOf(Str), ins=Str, post=SeqOf(Str), h=Str, t=SeqOf(Str)), name="rust-loc-insert-step")
def rcc_insert(pre, ins, post, h, t):
    if rs_is_code_line(ins):
        return True
    if len(pre) == 0:
        use(rcc_cons, ins, post)
        return rcc(pre + [ins] + post) == rcc(pre + post)
    if pre != [h] + t:
        return True
    use(rcc_cons, h, t + [ins] + post)
    use(rcc_cons, h, t + post)
    use(seq_decompose, t)
    ih(rcc_insert, t, ins, post, t[0] if len(t) > 0 else "", t[1:])
    return rcc(pre + [ins] + post) == rcc(pre + post)


@lemma(props=["C13"], types=dict(self=RustAnalyzerT, n1=TSNode, s1=Str, n2=TSNode, s2=Str, pre=SeqOf(Str), ins=Str, post=SeqOf(Str)),
       name="rust-node-loc-invariant-under-blank-or-comment-line-insertion")
def rs_node_loc_insert(self, n1, s1, n2, s2, pre, ins, post):
    """Two (item, source) pairs whose item texts differ by one inserted blank or `//` comment-only line have the same
    Rust LOC."""
    if n1 is None or n2 is None:
        return True
    if rs_is_code_line(ins) or rs_node_lines(n1, s1) != pre + post or rs_node_lines(n2, s2) != pre + [ins] + post:
        return True
    use(rcc_eq, pre + [ins] + post)
    use(rcc_eq, pre + post)
    use(seq_decompose, pre)
    use(rcc_insert, pre, ins, post, pre[0] if len(pre) > 0 else "", pre[1:])
    return call(RS_NODE_LOC, self, n1, s1) == call(RS_NODE_LOC, self, n2, s2)


# ================================================================== count_loc, C13 view: the count is layout-insensitive line by line
import ast  # noqa: E402
from contracts.c16_srp import py_loc_lemma  # noqa: E402

LAYOUT_SAMPLE = ("class Sample:", "", "    ", "\t", "    # comment", "# comment at column 0", "    x = 1", "    y = 2   ",
                 "    z = 3\r", "\r", "    #", "    def m(self):  # trailing comment", "        return self.x", "  \t  ")


@contract(COUNT_LOC + "~layout", props=["C13"], types=dict(class_node=PyNode, source=Str), returns=Int)
class CountLocLayoutView:
    """C13 wording of the count: a line counts iff, AFTER stripping surrounding whitespace, it is non-empty and not a
    comment -- so blank lines, whitespace-only lines (an 'empty' line that received trailing blanks, an indented
    separator line, the lone '\\r' of a CRLF blank line) and comment-only lines at any indentation never count, and
    trailing whitespace never changes whether a line counts. (Same value as the C16 clause in c16_srp.py; stated again
    here so that C13 has its own obligation and a concrete layout sample.)"""
    def native_domain(class_node, source):
        return isinstance(class_node, ast.ClassDef)

    def requires(class_node, source):
        return class_node is not None

    def lemmas_counts_exactly_the_lines_that_are_code_after_stripping(class_node, source):
        return py_loc_lemma(py_class_lines(class_node, source))

    def ensures_counts_exactly_the_lines_that_are_code_after_stripping(class_node, source, result):
        return result == py_code_line_count(py_class_lines(class_node, source))

    def witness_counts_exactly_the_lines_that_are_code_after_stripping():
        # one class text with every layout category of a line (used only when the solver cannot decide the clause:
        # the REAL function is run on it and the clause evaluated natively)
        return {"class_node": {"__node__": "c", "kind_": "ClassDef", "name": "Sample", "lineno": 1,
                               "end_lineno": len(LAYOUT_SAMPLE), "col_offset": 0, "body": [], "decorator_list": [],
                               "bases": [], "keywords": []},
                "source": "\n".join(LAYOUT_SAMPLE)}


# ================================================================== DRY tokenizer: blank / comment-only lines are transparent
from contracts import c03_windows  # noqa: E402,F401  (contracts of token_hasher.normalize_line / should_skip_import_line)
from contracts.c03_windows import norm, track, NumLineT  # noqa: E402

DRY_PY = "src/linters/dry/python_analyzer.py::PythonDuplicateAnalyzer."
DRY_TS = "src/linters/dry/typescript_analyzer.py::TypeScriptDuplicateAnalyzer."


@contract(DRY_PY + "_normalize_and_filter_line~layout", props=["C13"], types=dict(line=Str, in_multiline_import=Bool),
          returns=TupleOf(Bool, Opt(Str)))
class PyNormalizeAndFilterLineLayout:
    """One step of the line-tracking state machine. C13: a line that normalises to nothing -- blank, whitespace-only or
    comment-only -- contributes no token AND leaves the 'inside a parenthesised multi-line import' state exactly as it
    was, so inserting such a line anywhere (also between the names of a multi-line import) cannot change which of the
    following lines are tokenised."""
    def ensures_blank_or_comment_only_line_is_transparent(line, in_multiline_import, result):
        return implies(len(norm(line)) == 0, result[0] == in_multiline_import and result[1] is None)


@contract(DRY_TS + "_normalize_and_filter_line~layout", props=["C13"], types=dict(line=Str, in_multiline_import=Bool),
          returns=TupleOf(Bool, Opt(Str)))
class TsNormalizeAndFilterLineLayout:
    def ensures_blank_or_comment_only_line_is_transparent(line, in_multiline_import, result):
        return implies(len(norm(line)) == 0, result[0] == in_multiline_import and result[1] is None)


@lemma(props=["C13"], types=dict(k=Int, line=Str, rest=SeqOf(NumLineT), in_multi=Bool),
       name="line-tracking-skips-a-blank-or-comment-only-line-in-any-state")
def track_skips_blank(k, line, rest, in_multi):
    """The fold of that step over the numbered lines (spec `track` of c03_windows.py, proved equal to
    _tokenize_with_line_numbers there): a blank / comment-only line in front of `rest` changes nothing, whatever the
    import state."""
    reveal(track, [(k, line)] + rest, in_multi)
    return implies(len(norm(line)) == 0, track([(k, line)] + rest, in_multi) == track(rest, in_multi))


# ================================================================== comments are not code: clone-abuse "used afterwards" (C13 view)
# Inserting a directive-free comment is a meaning-preserving edit. The one place where a rule looks at what FOLLOWS a
# statement is clone-abuse's unnecessary-clone test (`let x = y.clone();` with y never used afterwards): a use is an
# `identifier` NODE with that name -- the text of a comment (or of a string literal) that merely mentions the name is not.
from contracts import c17_clone  # noqa: E402,F401
from contracts.c17_clone import contains_ident, used_after  # noqa: E402

CLONE = "src/linters/clone_abuse/rust_analyzer.py::"
COMMENT_TYPES = ("line_comment", "block_comment")


def is_comment_leaf(n):
    """A comment token of the tree-sitter Rust grammar (a leaf: it has no identifier descendants)."""
    return n is not None and n.type in COMMENT_TYPES and len(n.children) == 0


@contract(CLONE + "_node_contains_identifier~layout", props=["C13"], types=dict(node=TSNode, identifier=Str), returns=Bool)
class NodeContainsIdentifierLayout:
    def requires(node, identifier):
        return node is not None

    def ensures_only_identifier_nodes_are_uses(node, identifier, result):
        return result == contains_ident(node, identifier)

    def ensures_a_comment_is_never_a_use(node, identifier, result):
        # whatever the comment's text says
        return implies(is_comment_leaf(node), not result)


@lemma(props=["C13"], types=dict(c=TSNode, rest=SeqOf(TSNode), identifier=Str, let_id=Int, found=Bool),
       name="a-comment-among-the-following-statements-does-not-change-used-afterwards")
def comment_is_transparent_for_used_after(c, rest, identifier, let_id, found):
    """Spec `used_after` of c17_clone.py (proved equal to _identifier_used_after there): a comment node in front of the
    remaining statements of the block changes nothing, in either scanner state."""
    if not is_comment_leaf(c) or c.id == let_id:
        return True
    return used_after([c] + rest, identifier, let_id, found) == used_after(rest, identifier, let_id, found)


# ================================================================== DRY line tracking: the reported span follows the text (C13)
# The DRY contracts (tokenise -> track -> windows) are owned by c03_windows.py under C03. C13 DEPENDS on them: a blank or
# comment-only line inserted inside a duplicated block is dropped by `track` (lemma above), so the block has the same
# code lines, the same count and the same start; its END line is the ORIGINAL line of its last code line, i.e. it moves
# down with the text -- it is NOT start + count - 1. Read-only reuse: "C13" is added to the props of those contracts and
# lemmas at load time, so ./check C13 re-verifies their bodies.
from pyvc import api as _api  # noqa: E402
from contracts.c03_windows import (twin, twindows_from, tracked_windows_property, ts_windows_complete,  # noqa: E402
                                   T as DRY_T, PA as DRY_PA, TA as DRY_TA)

C13_DEPENDS_ON = [DRY_T + "normalize_line", DRY_T + "_strip_comments", DRY_T + "should_skip_import_line", DRY_T + "rolling_hash",
                  DRY_PA + "_normalize_and_filter_line", DRY_TA + "_normalize_and_filter_line",
                  DRY_PA + "_tokenize_with_line_numbers", DRY_TA + "_tokenize_with_line_numbers",
                  DRY_PA + "_rolling_hash_with_tracking", DRY_TA + "_rolling_hash_with_tracking",
                  "src/linters/clone_abuse/rust_analyzer.py::_identifier_used_after",
                  "src/linters/clone_abuse/rust_analyzer.py::_node_contains_identifier"]
C13_DEPENDS_ON_LEMMAS = ["py-windows-complete-with-original-lines", "ts-windows-complete-with-original-lines",
                         "tracked-windows-indexing", "slice-ends"]
for _t in C13_DEPENDS_ON:
    _c = _api.REGISTRY.get(_t)
    if _c is not None and "C13" not in _c.props:
        _c.props.append("C13")
for _l in _api.LEMMAS:
    if _l.name in C13_DEPENDS_ON_LEMMAS and "C13" not in _l.props:
        _l.props.append("C13")


# The statement itself -- window j starts at the original line of tracked line j and ENDS AT THE ORIGINAL LINE OF TRACKED LINE
# j+w-1, whatever blank / comment lines lie between them -- is c03's lemma `ts-windows-complete-with-original-lines` (and the
# py- twin), now also checked under C13; together with `line-tracking-skips-a-blank-or-comment-only-line-in-any-state` above:
# a blank / comment line inserted inside a duplicated block leaves its code-line count and start unchanged and moves its end by
# exactly one line.


# ================================================================== CQS (TypeScript): the fluent-interface test ignores comments
# `return this;` as the function's final return statement exempts a method from CQS (detect_fluent_interface). In the
# tree-sitter grammar comments are (named) children of the statement block, so "the body ends with return this" must
# mean "the LAST return_statement child is `return this`" -- a comment after it is transparent.
CQS_TS = "src/linters/cqs/typescript_function_analyzer.py::"


def return_children(body):
    return [child for child in body.children if child.type == "return_statement"]


@contract(CQS_TS + "_ends_with_return_this", props=["C13", "C19", "C11"], types=dict(body_node=TSNode, returns=SeqOf(TSNode)),
          returns=Bool, raises=[])
class EndsWithReturnThis:
    def requires(body_node):
        return body_node is not None

    def value(body_node):
        return len([child for child in body_node.children if child.type == "return_statement"]) > 0 and any(
            child.type == "this"
            for child in [child for child in body_node.children if child.type == "return_statement"][-1].children)


def returns_of(s):
    return [child for child in s if child.type == "return_statement"]


@lemma(props=["C13"], types=dict(c=TSNode, rest=SeqOf(TSNode)), name="a-comment-is-not-among-the-return-statements")
def comment_not_a_return(c, rest):
    """The list the verdict is computed from does not change when a comment node (any node that is not a
    return_statement) is put in front of the remaining children -- by the recursion of the comprehension, anywhere."""
    if c is None or c.type == "return_statement":
        return True
    return returns_of([c] + rest) == returns_of(rest)


# ================================================================== BOUNDED net: meaning-preserving edits at the observation point
# Labelled `bounded` (finite native differential, not a proof; the lemmas above are the deductive part). Every registered
# rule is run by the real Orchestrator on a corpus of healthy Python / TypeScript / Rust files and on every single edit of
# these kinds: a blank line / a directive-free comment-only line inserted at every line boundary outside string literals
# (below the header docstring for files that start with one; below a shebang line), trailing whitespace on every line,
# CRLF line ends, a UTF-8 BOM, unrelated code appended at the end. Oracle = the property: same findings (rule, column),
# each moved down by exactly the number of lines inserted above it; file-level findings reported at line 1 stay there.
import io as _io  # noqa: E402
import json as _json  # noqa: E402
import os as _os  # noqa: E402
import subprocess as _subprocess  # noqa: E402
import sys as _sys  # noqa: E402
import tempfile as _tempfile  # noqa: E402
import tokenize as _tokenize  # noqa: E402
from pyvc.api import custom  # noqa: E402

_EDIT_DRIVER = r"""
import json, sys
from pathlib import Path
sys.path.insert(0, sys.argv[1])
from src.orchestrator.core import Orchestrator
root = Path(sys.argv[2])
o = Orchestrator(project_root=root)
out = {}
for p in sorted(root.iterdir()):
    if p.suffix in (".py", ".ts", ".js", ".rs"):
        out[p.name] = sorted({(v.rule_id, v.line, v.column) for v in o.lint_file(p)})
print("RESULT" + json.dumps(out))
"""
APPENDED = {"py": "\n\ndef _appended_helper():\n    return None\n", "ts": "\nfunction appendedHelper(): null {\n  return null;\n}\n",
            "rs": "\nfn appended_helper() {}\n"}
FILE_LEVEL = ("file-header", "file-placement", "lazy-ignores.orphaned")


def _insertion_points(name, text):
    """Indices k (insert before line k+1, 0-based k in 0..nlines) where a blank / comment-only line cannot change the
    program: not inside a string literal, not above a shebang, not above / inside the header docstring."""
    lines = text.split("\n")
    n = len(lines) - (1 if lines[-1] == "" else 0)
    banned = set()
    if text.startswith("#!"):
        banned.add(0)
    if name.endswith(".py"):
        first_code = True
        for tok in _tokenize.generate_tokens(_io.StringIO(text).readline):
            if tok.type == _tokenize.STRING and tok.start[0] != tok.end[0]:
                banned.update(range(tok.start[0], tok.end[0]))          # strictly inside a multi-line string
                if first_code:
                    banned.update(range(0, tok.end[0]))                 # header docstring: only edits BELOW it
            if tok.type not in (_tokenize.COMMENT, _tokenize.NL, _tokenize.NEWLINE, _tokenize.ENCODING, _tokenize.INDENT):
                first_code = False
    return [k for k in range(0, n + 1) if k not in banned]


# programs that sit EXACTLY AT a linter's threshold (one more level / one more method would be reported): an edit that is
# mistaken for structure -- a blank or comment line directly above `elif` / `else` / `except` / `finally`, between decorators,
# between methods -- must not push them over
THRESHOLD_CORPUS = {
    "at_nesting_limit.py": '''import functools


@functools.lru_cache
@functools.wraps(print)
def handler(a, b, c, d):
    if a:
        for x in b:
            while c:
                if d:
                    value = 1
                elif x:
                    value = 2
                elif a > 1:
                    value = 3
                else:
                    value = 4
                break
    try:
        with open(a) as fh:
            for row in fh:
                if row:
                    value = row
                else:
                    value = None
    except ValueError:
        value = 0
    except OSError:
        value = -1
    else:
        value = value or 1
    finally:
        close(a)
    return value
''',
    "at_nesting_limit.ts": '''function handler(a: boolean, b: number[], c: boolean, d: boolean): number {
  let value = 0;
  for (const x of b) {
    if (c) {
      value = 1;
    } else if (d) {
      value = 2;
    } else {
      value = 3;
    }
  }
  try {
    value += b.length;
  } catch (err) {
    value = -1;
  } finally {
    value += 1;
  }
  return value;
}
''',
    "at_method_limit.py": "class Ledger:\n" + "\n".join(f"    def entry_{i}(self):\n        return {i}\n" for i in range(7)),
    "at_method_limit.ts": "export class Ledger {\n" + "".join(f"  entry{i}(): number {{\n    return {i};\n  }}\n\n" for i in range(7)) + "}\n",
}


def _edited_files():
    from contracts.c11_containment import MUTATION_CORPUS
    files = {}
    for name, text in list(MUTATION_CORPUS.items()) + list(THRESHOLD_CORPUS.items()):
        stem, ext = name.rsplit(".", 1)
        lines = text.split("\n")
        files[name] = (text, name, "baseline", 0)
        comment = "# note for the reader" if ext == "py" else "// note for the reader"
        for k in _insertion_points(name, text):
            nxt = next((ln for ln in lines[k:] if ln.strip()), "")
            ind = nxt[:len(nxt) - len(nxt.lstrip())]
            for kind, ins in (("blank-line", ""), ("comment-line", ind + comment)):
                files[f"{stem}__{kind}-at-{k}.{ext}"] = ("\n".join(lines[:k] + [ins] + lines[k:]), name, kind, k)
        files[f"{stem}__trailing-whitespace.{ext}"] = ("\n".join((ln + "  ") if ln.strip() and not ln.rstrip().endswith("\\") else ln
                                                                for ln in lines), name, "trailing-whitespace", None)
        files[f"{stem}__crlf.{ext}"] = (text.replace("\n", "\r\n"), name, "crlf", None)
        files[f"{stem}__bom.{ext}"] = ("﻿" + text, name, "bom", None)
        files[f"{stem}__appended-code.{ext}"] = (text + APPENDED[ext], name, "appended-code", None)
    return files


@custom("c13-edit-invariance-bounded", props=["C13"])
def c13_edit_invariance_bounded(ctx):
    files = _edited_files()
    tmp = _tempfile.mkdtemp(prefix="c13edit_")
    for name, (text, _b, _k, _p) in files.items():
        with open(_os.path.join(tmp, name), "w", encoding="utf-8", newline="") as fh:
            fh.write(text)
    p = _subprocess.run([_sys.executable, "-c", _EDIT_DRIVER, ctx["repo"], tmp], capture_output=True, text=True, timeout=900, cwd=tmp)
    import shutil
    shutil.rmtree(tmp, ignore_errors=True)
    line = [ln for ln in p.stdout.splitlines() if ln.startswith("RESULT")]

    def ob(name, verdict, note, cases=0):
        return {"name": f"c13-edit-invariance-bounded/{name}", "kind": "bounded", "verdict": verdict, "solver": "native", "ms": 0.0,
                "carries": True, "lineno": 0, "note": note, "cases": cases, "tool": "real Orchestrator, all registered rules",
                "budget": f"{len(files)} edited files", "witness_confirmed": verdict == "refuted"}
    if not line:
        return [ob("driver", "unknown", "driver failed: " + (p.stderr or p.stdout)[-400:])]
    res = {k: [tuple(x) for x in v] for k, v in _json.loads(line[0][len("RESULT"):]).items()}
    groups = {}
    for name, (_text, base, kind, k) in sorted(files.items()):
        if kind == "baseline":
            continue
        def moved(v):
            r, ln, col = v
            if k is None or (ln == 1 and r.startswith(FILE_LEVEL)):
                return (r, ln, col)
            return (r, ln + 1 if ln > k else ln, col)
        expected = sorted(moved(v) for v in res.get(base, []))
        actual = sorted(res.get(name, []))
        if kind in ("trailing-whitespace", "crlf", "bom"):          # columns of findings are not compared for these
            expected, actual = sorted({(r, ln) for r, ln, _ in expected}), sorted({(r, ln) for r, ln, _ in actual})
        if kind == "appended-code":
            nb = len(files[base][0].split("\n"))
            actual = [v for v in actual if v[1] <= nb]              # findings inside the appended code are its own
        g = groups.setdefault(f"{base}/{kind}", {"n": 0, "bad": []})
        g["n"] += 1
        if expected != actual:
            miss = [v for v in expected if v not in actual]
            extra = [v for v in actual if v not in expected]
            g["bad"].append(f"{name}: lost {miss[:3]} gained {extra[:3]}")
    obs = []
    for key in sorted(groups):
        g = groups[key]
        obs.append(ob(key, "refuted" if g["bad"] else "discharged",
                      (f"{len(g['bad'])} of {g['n']} edits change the findings: " + "; ".join(g["bad"][:3])) if g["bad"]
                      else f"{g['n']} edits: findings unchanged up to the line shift", g["n"]))
    from contracts.c12_sites import reuse_scenario
    return obs + reuse_scenario(ctx, "c13-edit-invariance-bounded")


# ================================================================== nesting: `elif` is decided by the tree shape alone (C13 view)
# A blank or comment line directly above `elif` must not turn the chain into a nested else-if: the test may look at the
# node kinds of the `orelse` list only -- no lineno / end_lineno / col_offset.
@contract("src/linters/nesting/python_analyzer.py::_is_elif_chain~shape", props=["C13"], types=dict(orelse=SeqOf(PyNode)),
          returns=Bool)
class IsElifChainShape:
    def ensures_a_function_of_the_node_kinds_only(orelse, result):
        return result == (len(orelse) == 1 and isinstance(orelse[0], ast.If))
