"""C13 -- meaning-preserving edits: the TEXT-BASED steps (DESIGN.md 3/C13, 4: level "other").

What is decided here: relational lemmas over contracts proved elsewhere, for the steps of the pipeline that look at the
file as text (everything else is AST / tree-sitter based and layout-insensitive *modulo the parser*, which is trusted):
  * SRP lines-of-code (srp.heuristics.count_loc, contract in c16_srp.py): inserting a blank or comment-only line into
    the class text, or appending whitespace (including the "\r" of a CRLF file) to a line, does not change the count;
  * the suppression scan (linter_config/ignore.py, contracts in c04_ignore.py): inserting lines ABOVE the scope of a
    directive shifts what it suppresses by exactly the number of inserted lines (same-line, previous-line, index
    helper); the block scan is covered for directive-free lines inserted above the violation;
  * FileLintContext.file_lines splits on "\n" only (contract in c11_containment.py), so CRLF files keep "\r" at the end
    of each line: consumers that strip() are insensitive (lemmas below), consumers that compare raw lines are not
    claimed.
NOT decided: that the parsers yield the same tree for re-indented / CRLF / BOM-prefixed text, renaming of locals, the
TypeScript SRP line count (end_row - start_row + 1 counts blank lines: layout-sensitive by construction).

Model of str.strip (trusted, stated as `assert` in the spec functions below and re-checked natively on every replay):
strip() removes a whitespace-only suffix, i.e. ws.strip() == "" implies (s + ws).strip() == s.strip()."""
from pyvc.api import contract, lemma, Int, Bool, Str, SeqOf, Opt, Rec, TupleOf, implies, call, mk, ih, reveal, use, opaque
from contracts._common import ViolationT
from contracts._nodes import PyNode, TSNode
from contracts.c16_srp import py_is_code_line, py_code_line_count, py_class_lines
from contracts import c04_ignore  # noqa: F401  (contracts of the suppression scan that the shift lemmas call)
from contracts.c04_ignore import same_line_ignores, prev_line_ignores

COUNT_LOC = "src/linters/srp/heuristics.py::count_loc"
IG = "src/linter_config/ignore.py::"


# ================================================================== SRP lines of code
@opaque
def cc(s: SeqOf(Str)) -> Int:
    """Number of code lines, as an explicit recursion (proof device; equal to py_code_line_count by `loc-count-unfold`)."""
    if len(s) == 0:
        return 0
    return (1 if py_is_code_line(s[0]) else 0) + cc(s[1:])


@lemma(props=["C13"], types=dict(s=SeqOf(Str)), name="loc-count-unfold")
def cc_eq(s):
    reveal(cc, s)
    if len(s) == 0:
        return cc(s) == py_code_line_count(s)
    ih(cc_eq, s[1:])
    return cc(s) == py_code_line_count(s)


@lemma(props=["C13"], types=dict(a=SeqOf(Str)), name="seq-head-tail-decomposition")
def seq_decompose(a):
    """Sequence fact used by the induction below (stated separately to keep each query small)."""
    if len(a) == 0:
        return True
    return a == [a[0]] + a[1:]


@lemma(props=["C13"], types=dict(x=Str, t=SeqOf(Str)), name="loc-count-cons")
def cc_cons(x, t):
    reveal(cc, [x] + t)
    return cc([x] + t) == (1 if py_is_code_line(x) else 0) + cc(t)


@lemma(props=["C13"], types=dict(pre=SeqOf(Str), ins=Str, post=SeqOf(Str), h=Str, t=SeqOf(Str)), name="loc-insert-step")
def cc_insert(pre, ins, post, h, t):
    """Induction on the lines above the insertion point; (h, t) is the head/tail decomposition of `pre`, passed
    explicitly so that every unfolding is syntactic."""
    if py_is_code_line(ins):
        return True
    if len(pre) == 0:
        use(cc_cons, ins, post)
        return cc(pre + [ins] + post) == cc(pre + post)
    if pre != [h] + t:
        return True
    use(cc_cons, h, t + [ins] + post)
    use(cc_cons, h, t + post)
    use(seq_decompose, t)
    ih(cc_insert, t, ins, post, t[0] if len(t) > 0 else "", t[1:])
    return cc(pre + [ins] + post) == cc(pre + post)


@lemma(props=["C13"], types=dict(pre=SeqOf(Str), ins=Str, post=SeqOf(Str)), name="loc-ignores-an-inserted-non-code-line")
def loc_insert(pre, ins, post):
    """Counting code lines (non-blank, non-comment) is invariant under inserting one non-code line anywhere."""
    use(cc_eq, pre + [ins] + post)
    use(cc_eq, pre + post)
    use(seq_decompose, pre)
    use(cc_insert, pre, ins, post, pre[0] if len(pre) > 0 else "", pre[1:])
    return implies(not py_is_code_line(ins), py_code_line_count(pre + [ins] + post) == py_code_line_count(pre + post))


@lemma(props=["C13"], types=dict(n1=PyNode, s1=Str, n2=PyNode, s2=Str, pre=SeqOf(Str), ins=Str, post=SeqOf(Str)),
       name="count_loc-invariant-under-blank-or-comment-line-insertion")
def count_loc_insert(n1, s1, n2, s2, pre, ins, post):
    """Two (class, source) pairs whose class texts differ by one inserted blank / comment-only line have the same LOC
    (the insertion point is anywhere inside the class: below the header for header-sensitive reporting)."""
    if n1 is None or n2 is None:
        return True
    if py_is_code_line(ins) or py_class_lines(n1, s1) != pre + post or py_class_lines(n2, s2) != pre + [ins] + post:
        return True
    use(loc_insert, pre, ins, post)
    return call(COUNT_LOC, n1, s1) == call(COUNT_LOC, n2, s2)


def strip_drops_trailing_whitespace(s, ws):
    """TRUSTED model of str.strip (checked natively on replay)."""
    assert implies(ws.strip() == "", (s + ws).strip() == s.strip())
    return True


@lemma(props=["C13"], types=dict(line=Str, ws=Str), name="code-line-test-ignores-trailing-whitespace")
def code_line_ws(line, ws):
    """Appending whitespace -- blanks, tabs, or the '\\r' a CRLF file leaves after split('\\n') -- does not change whether
    a line counts as code."""
    strip_drops_trailing_whitespace(line, ws)
    return implies(ws.strip() == "", py_is_code_line(line + ws) == py_is_code_line(line))


@lemma(props=["C13"], types=dict(pre=SeqOf(Str), line=Str, ws=Str, post=SeqOf(Str), h=Str, t=SeqOf(Str)), name="loc-ws-step")
def cc_ws(pre, line, ws, post, h, t):
    if ws.strip() != "":
        return True
    if len(pre) == 0:
        use(cc_cons, line + ws, post)
        use(cc_cons, line, post)
        use(code_line_ws, line, ws)
        return cc(pre + [line + ws] + post) == cc(pre + [line] + post)
    if pre != [h] + t:
        return True
    use(cc_cons, h, t + [line + ws] + post)
    use(cc_cons, h, t + [line] + post)
    use(seq_decompose, t)
    ih(cc_ws, t, line, ws, post, t[0] if len(t) > 0 else "", t[1:])
    return cc(pre + [line + ws] + post) == cc(pre + [line] + post)


@lemma(props=["C13"], types=dict(pre=SeqOf(Str), line=Str, ws=Str, post=SeqOf(Str)), name="loc-ignores-trailing-whitespace")
def loc_ws(pre, line, ws, post):
    use(cc_eq, pre + [line + ws] + post)
    use(cc_eq, pre + [line] + post)
    use(seq_decompose, pre)
    use(cc_ws, pre, line, ws, post, pre[0] if len(pre) > 0 else "", pre[1:])
    return implies(ws.strip() == "",
                   py_code_line_count(pre + [line + ws] + post) == py_code_line_count(pre + [line] + post))


@lemma(props=["C13"], types=dict(n1=PyNode, s1=Str, n2=PyNode, s2=Str, pre=SeqOf(Str), line=Str, ws=Str, post=SeqOf(Str)),
       name="count_loc-invariant-under-trailing-whitespace-and-CR")
def count_loc_ws(n1, s1, n2, s2, pre, line, ws, post):
    if n1 is None or n2 is None:
        return True
    if ws.strip() != "" or py_class_lines(n1, s1) != pre + [line] + post or py_class_lines(n2, s2) != pre + [line + ws] + post:
        return True
    use(loc_ws, pre, line, ws, post)
    return call(COUNT_LOC, n1, s1) == call(COUNT_LOC, n2, s2)



# ================================================================== suppression scan: shift lemmas (contracts of c04_ignore.py)
def shifted(v, k):
    """The same finding, k lines further down."""
    return mk(ViolationT, rule_id=v.rule_id, file_path=v.file_path, line=v.line + k, column=v.column, message=v.message,
              severity=v.severity, suggestion=v.suggestion)


@lemma(props=["C13"], types=dict(pre=SeqOf(Str), ins=SeqOf(Str), post=SeqOf(Str), n=Int),
       name="prev-line-lookup-shifts-with-lines-inserted-above")
def get_prev_line_shift(pre, ins, post, n):
    """_get_prev_line is index-relative: inserting lines at or above line n-1 moves the looked-up line along."""
    if n - 2 < len(pre):
        return True
    return call(IG + "_get_prev_line", pre + ins + post, n + len(ins)) == call(IG + "_get_prev_line", pre + post, n)


@lemma(props=["C13"], types=dict(pre=SeqOf(Str), ins=SeqOf(Str), post=SeqOf(Str), v=ViolationT),
       name="same-line-suppression-shifts-with-lines-inserted-above")
def same_line_shift(pre, ins, post, v):
    """A finding at line n is suppressed by a same-line directive in `pre + post` iff the finding moved to line
    n + len(ins) is suppressed in `pre + ins + post`, for any lines inserted above line n (their content is irrelevant)."""
    if v.line - 1 < len(pre):
        return True
    reveal(same_line_ignores, pre + post, v.line, v.rule_id)
    reveal(same_line_ignores, pre + ins + post, v.line + len(ins), v.rule_id)
    return call(IG + "_check_current_line_ignore", pre + ins + post, shifted(v, len(ins))) == \
        call(IG + "_check_current_line_ignore", pre + post, v)


@lemma(props=["C13"], types=dict(pre=SeqOf(Str), ins=SeqOf(Str), post=SeqOf(Str), v=ViolationT),
       name="next-line-suppression-shifts-with-lines-inserted-above-the-directive")
def prev_line_shift(pre, ins, post, v):
    """Same for `ignore-next-line`: the insertion must be above the directive line n-1 (a line inserted BETWEEN the
    directive and its target changes what the directive applies to -- not a meaning-preserving edit)."""
    if v.line - 2 < len(pre):
        return True
    reveal(prev_line_ignores, pre + post, v.line, v.rule_id)
    reveal(prev_line_ignores, pre + ins + post, v.line + len(ins), v.rule_id)
    return call(IG + "_check_prev_line_ignore", pre + ins + post, shifted(v, len(ins))) == \
        call(IG + "_check_prev_line_ignore", pre + post, v)


# ------------------------------------------------------------------ block scan (ignore-start ... ignore-end)
from contracts.c04_ignore import block_scan, block_ignores, is_start, is_end, start_rules  # noqa: E402


@lemma(props=["C13"], types=dict(rest=SeqOf(Str), i=Int, in_block=Bool, rules=SeqOf(Str), covers=Bool, vline=Int, rule_id=Str),
       name="block-scan-depends-on-line-numbers-only-relatively")
def block_index_shift(rest, i, in_block, rules, covers, vline, rule_id):
    """Renumbering the remaining lines and the finding by the same offset does not change the block verdict."""
    if len(rest) == 0:
        return block_scan(rest, i + 1, in_block, rules, covers, vline + 1, rule_id) == \
            block_scan(rest, i, in_block, rules, covers, vline, rule_id)
    ih(block_index_shift, rest[1:], i + 1, True, start_rules(rest[0]), i <= vline, vline, rule_id)
    ih(block_index_shift, rest[1:], i + 1, False, [], covers, vline, rule_id)
    ih(block_index_shift, rest[1:], i + 1, in_block, rules, covers, vline, rule_id)
    return block_scan(rest, i + 1, in_block, rules, covers, vline + 1, rule_id) == \
        block_scan(rest, i, in_block, rules, covers, vline, rule_id)


@lemma(props=["C13"], types=dict(line=Str, lines=SeqOf(Str), v=ViolationT),
       name="block-suppression-shifts-with-a-directive-free-line-inserted-at-the-top")
def block_top_shift(line, lines, v):
    """A line that is neither an ignore-start nor an ignore-end marker, inserted as the new first line of the file,
    shifts block suppression by one line (apply repeatedly for several lines). Insertion in the MIDDLE of the file is
    not covered by a lemma here."""
    if is_start(line) or is_end(line) or v.line < 1:
        return True
    use(block_index_shift, lines, 1, False, [], False, v.line, v.rule_id)
    reveal(block_ignores, [line] + lines, v.line + 1, v.rule_id)
    reveal(block_ignores, lines, v.line, v.rule_id)
    return call(IG + "_check_block_ignore", [line] + lines, shifted(v, 1)) == call(IG + "_check_block_ignore", lines, v)


# ================================================================== Rust SRP lines of code (RustSRPAnalyzer._node_loc, contract in c16_srp.py)
from contracts.c16_srp import rs_is_code_line, rs_node_lines, rs_node_loc, RustAnalyzerT  # noqa: E402

RS_NODE_LOC = "src/linters/srp/rust_analyzer.py::RustSRPAnalyzer._node_loc"


def rs_count(lines):
    return sum(1 for line in lines if rs_is_code_line(line))


@opaque
def rcc(s: SeqOf(Str)) -> Int:
    """Number of Rust code lines (non-blank, not starting a `//` comment) as an explicit recursion (proof device)."""
    if len(s) == 0:
        return 0
    return (1 if rs_is_code_line(s[0]) else 0) + rcc(s[1:])


@lemma(props=["C13"], types=dict(s=SeqOf(Str)), name="rust-loc-count-unfold")
def rcc_eq(s):
    reveal(rcc, s)
    if len(s) == 0:
        return rcc(s) == rs_count(s)
    ih(rcc_eq, s[1:])
    return rcc(s) == rs_count(s)


@lemma(props=["C13"], types=dict(x=Str, t=SeqOf(Str)), name="rust-loc-count-cons")
def rcc_cons(x, t):
    reveal(rcc, [x] + t)
    return rcc([x] + t) == (1 if rs_is_code_line(x) else 0) + rcc(t)


@lemma(props=["C13"], types=dict(pre=SeqOf(Str), ins=Str, post=SeqOf(Str), h=Str, t=SeqOf(Str)), name="rust-loc-insert-step")
def rcc_insert(pre, ins, post, h, t):
    if rs_is_code_line(ins):
        return True
    if len(pre) == 0:
        use(rcc_cons, ins, post)
        return rcc(pre + [ins] + post) == rcc(pre + post)
    if pre != [h] + t:
        return True
    use(rcc_cons, h, t + [ins] + post)
    use(rcc_cons, h, t + post)
    use(seq_decompose, t)
    ih(rcc_insert, t, ins, post, t[0] if len(t) > 0 else "", t[1:])
    return rcc(pre + [ins] + post) == rcc(pre + post)


@lemma(props=["C13"], types=dict(self=RustAnalyzerT, n1=TSNode, s1=Str, n2=TSNode, s2=Str, pre=SeqOf(Str), ins=Str, post=SeqOf(Str)),
       name="rust-node-loc-invariant-under-blank-or-comment-line-insertion")
def rs_node_loc_insert(self, n1, s1, n2, s2, pre, ins, post):
    """Two (item, source) pairs whose item texts differ by one inserted blank or `//` comment-only line have the same
    Rust LOC."""
    if n1 is None or n2 is None:
        return True
    if rs_is_code_line(ins) or rs_node_lines(n1, s1) != pre + post or rs_node_lines(n2, s2) != pre + [ins] + post:
        return True
    use(rcc_eq, pre + [ins] + post)
    use(rcc_eq, pre + post)
    use(seq_decompose, pre)
    use(rcc_insert, pre, ins, post, pre[0] if len(pre) > 0 else "", pre[1:])
    return call(RS_NODE_LOC, self, n1, s1) == call(RS_NODE_LOC, self, n2, s2)


# ================================================================== count_loc, C13 view: the count is layout-insensitive line by line
import ast  # noqa: E402
from contracts.c16_srp import py_loc_lemma  # noqa: E402

LAYOUT_SAMPLE = ("class Sample:", "", "    ", "\t", "    # comment", "# comment at column 0", "    x = 1", "    y = 2   ",
                 "    z = 3\r", "\r", "    #", "    def m(self):  # trailing comment", "        return self.x", "  \t  ")


@contract(COUNT_LOC + "~layout", props=["C13"], types=dict(class_node=PyNode, source=Str), returns=Int)
class CountLocLayoutView:
    """C13 wording of the count: a line counts iff, AFTER stripping surrounding whitespace, it is non-empty and not a
    comment -- so blank lines, whitespace-only lines (an 'empty' line that received trailing blanks, an indented
    separator line, the lone '\\r' of a CRLF blank line) and comment-only lines at any indentation never count, and
    trailing whitespace never changes whether a line counts. (Same value as the C16 clause in c16_srp.py; stated again
    here so that C13 has its own obligation and a concrete layout sample.)"""
    def native_domain(class_node, source):
        return isinstance(class_node, ast.ClassDef)

    def requires(class_node, source):
        return class_node is not None

    def lemmas_counts_exactly_the_lines_that_are_code_after_stripping(class_node, source):
        return py_loc_lemma(py_class_lines(class_node, source))

    def ensures_counts_exactly_the_lines_that_are_code_after_stripping(class_node, source, result):
        return result == py_code_line_count(py_class_lines(class_node, source))

    def witness_counts_exactly_the_lines_that_are_code_after_stripping():
        # one class text with every layout category of a line (used only when the solver cannot decide the clause:
        # the REAL function is run on it and the clause evaluated natively)
        return {"class_node": {"__node__": "c", "kind_": "ClassDef", "name": "Sample", "lineno": 1,
                               "end_lineno": len(LAYOUT_SAMPLE), "col_offset": 0, "body": [], "decorator_list": [],
                               "bases": [], "keywords": []},
                "source": "\n".join(LAYOUT_SAMPLE)}


# ================================================================== DRY tokenizer: blank / comment-only lines are transparent
from contracts import c03_windows  # noqa: E402,F401  (contracts of token_hasher.normalize_line / should_skip_import_line)
from contracts.c03_windows import norm, track, NumLineT  # noqa: E402

DRY_PY = "src/linters/dry/python_analyzer.py::PythonDuplicateAnalyzer."
DRY_TS = "src/linters/dry/typescript_analyzer.py::TypeScriptDuplicateAnalyzer."


@contract(DRY_PY + "_normalize_and_filter_line~layout", props=["C13"], types=dict(line=Str, in_multiline_import=Bool),
          returns=TupleOf(Bool, Opt(Str)))
class PyNormalizeAndFilterLineLayout:
    """One step of the line-tracking state machine. C13: a line that normalises to nothing -- blank, whitespace-only or
    comment-only -- contributes no token AND leaves the 'inside a parenthesised multi-line import' state exactly as it
    was, so inserting such a line anywhere (also between the names of a multi-line import) cannot change which of the
    following lines are tokenised."""
    def ensures_blank_or_comment_only_line_is_transparent(line, in_multiline_import, result):
        return implies(len(norm(line)) == 0, result[0] == in_multiline_import and result[1] is None)


@contract(DRY_TS + "_normalize_and_filter_line~layout", props=["C13"], types=dict(line=Str, in_multiline_import=Bool),
          returns=TupleOf(Bool, Opt(Str)))
class TsNormalizeAndFilterLineLayout:
    def ensures_blank_or_comment_only_line_is_transparent(line, in_multiline_import, result):
        return implies(len(norm(line)) == 0, result[0] == in_multiline_import and result[1] is None)


@lemma(props=["C13"], types=dict(k=Int, line=Str, rest=SeqOf(NumLineT), in_multi=Bool),
       name="line-tracking-skips-a-blank-or-comment-only-line-in-any-state")
def track_skips_blank(k, line, rest, in_multi):
    """The fold of that step over the numbered lines (spec `track` of c03_windows.py, proved equal to
    _tokenize_with_line_numbers there): a blank / comment-only line in front of `rest` changes nothing, whatever the
    import state."""
    reveal(track, [(k, line)] + rest, in_multi)
    return implies(len(norm(line)) == 0, track([(k, line)] + rest, in_multi) == track(rest, in_multi))


# ================================================================== comments are not code: clone-abuse "used afterwards" (C13 view)
# Inserting a directive-free comment is a meaning-preserving edit. The one place where a rule looks at what FOLLOWS a
# statement is clone-abuse's unnecessary-clone test (`let x = y.clone();` with y never used afterwards): a use is an
# `identifier` NODE with that name -- the text of a comment (or of a string literal) that merely mentions the name is not.
from contracts import c17_clone  # noqa: E402,F401
from contracts.c17_clone import contains_ident, used_after  # noqa: E402

CLONE = "src/linters/clone_abuse/rust_analyzer.py::"
COMMENT_TYPES = ("line_comment", "block_comment")


def is_comment_leaf(n):
    """A comment token of the tree-sitter Rust grammar (a leaf: it has no identifier descendants)."""
    return n is not None and n.type in COMMENT_TYPES and len(n.children) == 0


@contract(CLONE + "_node_contains_identifier~layout", props=["C13"], types=dict(node=TSNode, identifier=Str), returns=Bool)
class NodeContainsIdentifierLayout:
    def requires(node, identifier):
        return node is not None

    def ensures_only_identifier_nodes_are_uses(node, identifier, result):
        return result == contains_ident(node, identifier)

    def ensures_a_comment_is_never_a_use(node, identifier, result):
        # whatever the comment's text says
        return implies(is_comment_leaf(node), not result)


@lemma(props=["C13"], types=dict(c=TSNode, rest=SeqOf(TSNode), identifier=Str, let_id=Int, found=Bool),
       name="a-comment-among-the-following-statements-does-not-change-used-afterwards")
def comment_is_transparent_for_used_after(c, rest, identifier, let_id, found):
    """Spec `used_after` of c17_clone.py (proved equal to _identifier_used_after there): a comment node in front of the
    remaining statements of the block changes nothing, in either scanner state."""
    if not is_comment_leaf(c) or c.id == let_id:
        return True
    return used_after([c] + rest, identifier, let_id, found) == used_after(rest, identifier, let_id, found)
