"""C14 -- which files a run lints (src/orchestrator/core.py, src/linter_config/pattern_utils.py, src/cli/utils.py).

Top-level spec (property text): a directory target lints exactly the regular files beneath it minus files inside an
always-excluded directory (.git, node_modules, __pycache__, .venv, venv, build, dist, caches, *.egg-info), compiled
artefacts, and files matching a repository ignore pattern; an excluded or ignored file never contributes a violation
even when named explicitly."""
from pyvc.api import contract, lemma, custom, Int, Bool, Str, Dict, SeqOf, Rec, Opt, TupleOf, implies, call, ih, opaque, reveal, dict_put
from contracts._common import PathT, path_str, path_name
from contracts.c09_paths import (path_parts, name_suffix, mkpath, path_of_str, path_div, fs_is_file, fs_is_dir, fs_exists,
                                 comp_ok, rel_ok, prefix_ok, name_link)

O = "src/orchestrator/core.py::"

# ------------------------------------------------------------------ the documented exclusion set (property text)
SPEC_EXCLUDED_DIRS = frozenset({".git", "node_modules", "__pycache__", ".venv", "venv", "build", "dist",
                                ".pytest_cache", ".mypy_cache", ".ruff_cache"})  # "caches" = the tool caches
# what the code additionally skips (known finding C14-undocumented-exclusions)
EXTRA_EXCLUDED_DIRS = frozenset({".svn", ".hg", ".tox", ".eggs", "htmlcov"})
# compiled artefacts (property text: "compiled artefacts"; the list is the code's, there is no documented one)
COMPILED_SUFFIXES = frozenset({".pyc", ".pyo", ".pyd", ".so", ".dll", ".dylib", ".class", ".o", ".obj"})


def spec_excluded_dir(name):
    """Property text: .git, node_modules, __pycache__, .venv, venv, build, dist, caches, *.egg-info."""
    return name in SPEC_EXCLUDED_DIRS or name.endswith(".egg-info")


def code_excluded_dir(name):
    """Finding-adjusted: the documented names plus .svn .hg .tox .eggs htmlcov."""
    return spec_excluded_dir(name) or name in EXTRA_EXCLUDED_DIRS


@opaque
def any_excluded(s: SeqOf(Str)) -> Bool:
    """Some component is an excluded directory name (opaque: unfolded only where revealed)."""
    return len(s) > 0 and (code_excluded_dir(s[0]) or any_excluded(s[1:]))


def hard_excluded(p):
    """_is_hardcoded_excluded as a function of the path's suffix and components."""
    return name_suffix(path_name(p)) in COMPILED_SUFFIXES or any_excluded(path_parts(p))


@contract(O + "_is_hardcoded_excluded", props=["C14", "C09", "C10"], types=dict(file_path=PathT, part=Str), returns=Bool)
class IsHardcodedExcluded:
    def value(file_path):
        return hard_excluded(file_path)

    def inv0(file_path, rest):
        return reveal(any_excluded, rest) and any_excluded(path_parts(file_path)) == any_excluded(rest)


@lemma(props=["C14", "C09"], types=dict(s=SeqOf(Str)), name="any-excluded-is-any-component")
def any_excluded_def(s):
    """any_excluded(s) <=> some component of s is an excluded directory name (by induction on s)."""
    reveal(any_excluded, s)
    if len(s) == 0:
        return not any_excluded(s)
    ih(any_excluded_def, s[1:])
    return any_excluded(s) == any(code_excluded_dir(c) for c in s)


@contract(O + "_should_include_dir", props=["C14"], types=dict(dirname=Str), returns=Bool)
class ShouldIncludeDir:
    def ensures_documented_set(dirname, result):
        # property text: exactly the documented directories are pruned (expected to fail: C14-undocumented-exclusions)
        return result == (not spec_excluded_dir(dirname))

    def ensures_code_set(dirname, result):
        return result == (not code_excluded_dir(dirname))


def keeps_name(f):
    """Property text: a file is dropped from a directory run iff it is a compiled artefact -- decided by the file's
    (last) suffix, exactly like _is_hardcoded_excluded decides for an explicitly named file."""
    return name_suffix(path_name(path_of_str(f))) not in COMPILED_SUFFIXES


@contract(O + "_collect_files_from_walk", props=["C14", "C10"], types=dict(root=Str, filenames=SeqOf(Str), root_path=PathT),
          returns=SeqOf(PathT))
class CollectFilesFromWalk:
    def value(root, filenames):
        return [path_div(path_of_str(root), f) for f in filenames if keeps_name(f)]


@lemma(props=["C14", "C10"], types=dict(root=Str, f=Str), name="walk-filter-agrees-with-explicit-file-filter")
def walk_filter_agrees(root, f):
    """Directory run and explicit run agree on compiled artefacts: a file name is kept by the walk's per-directory
    filter iff the SUFFIX test of _is_hardcoded_excluded lets the same file through (both look at the last suffix)."""
    kept = call(O + "_collect_files_from_walk", root, [f])
    return (len(kept) == 1) == keeps_name(f) and (len(kept) == 0) == (not keeps_name(f))


@lemma(props=["C14"], types=dict(n=Str), name="top-level-file-excluded-iff-compiled")
def top_level_file(n):
    """Property text: files are dropped when they are INSIDE an always-excluded directory or compiled artefacts. A file
    given by its bare name `n` is inside no directory, so it is hard-excluded iff its suffix is a compiled one.
    EXPECTED TO FAIL (C14-file-named-like-excluded-dir): the file's own name is tested against the directory names."""
    if not comp_ok(n):
        return True
    p = mkpath([n])
    name_link(p)
    reveal(any_excluded, [n])
    reveal(any_excluded, [])
    return call(O + "_is_hardcoded_excluded", p) == (name_suffix(n) in COMPILED_SUFFIXES)


@lemma(props=["C14"], types=dict(n=Str), name="top-level-file-excluded-adjusted")
def top_level_file_adjusted(n):
    """Finding-adjusted: ... or the file's own name is one of the listed directory names / ends in .egg-info."""
    if not comp_ok(n):
        return True
    p = mkpath([n])
    name_link(p)
    reveal(any_excluded, [n])
    reveal(any_excluded, [])
    return call(O + "_is_hardcoded_excluded", p) == (name_suffix(n) in COMPILED_SUFFIXES or code_excluded_dir(n))


@lemma(props=["C14"], types=dict(name=Str), name="explicit-file-excluded-iff-documented")
def excluded_iff_documented(name):
    """Property text, for a file named directly inside a directory `name` ... posed on one component (the general
    statement is the adjusted lemma below): `name/x` is hard-excluded iff `name` is a documented excluded directory.
    (Expected to fail through the 5 undocumented names: C14-undocumented-exclusions-explicit.)"""
    if not comp_ok(name):
        return True
    p = mkpath([name, "x"])
    name_link(p)
    assert name_suffix(path_name(p)) == ""  # the file name "x" has no suffix (checked natively on replay)
    reveal(any_excluded, [name, "x"])
    reveal(any_excluded, ["x"])
    reveal(any_excluded, [])
    r = call(O + "_is_hardcoded_excluded", p)
    return r == spec_excluded_dir(name)


@lemma(props=["C14"], types=dict(rel=SeqOf(Str)), name="excluded-iff-compiled-or-under-listed-dir")
def excluded_iff_listed(rel):
    """Finding-adjusted, all paths: hard-excluded iff compiled artefact or some component is a listed directory name."""
    p = mkpath(rel)
    r = call(O + "_is_hardcoded_excluded", p)
    return any_excluded_def(rel) and r == (name_suffix(path_name(p)) in COMPILED_SUFFIXES or any(code_excluded_dir(c) for c in rel))


# =================================================================== repository ignore patterns (pattern_utils.py, ignore.py)
from pyvc.api import uf, Any  # noqa: E402
from pyvc.ex_call import EXTERNALS  # noqa: E402
from pyvc.ty import Unsupported  # noqa: E402

PU = "src/linter_config/pattern_utils.py::"
IG = "src/linter_config/ignore.py::"


def _native_fnmatch(path, pattern):
    import fnmatch
    return fnmatch.fnmatch(path, pattern)


# same uninterpreted symbols as contracts/c04_ignore.py (uf.fnmatch, uf.path_relative_to): the glob engine is trusted
fn_match = uf("fnmatch", [Str, Str], Bool, concrete=_native_fnmatch)
path_rel = uf("path_relative_to", [PathT, PathT], PathT, concrete=lambda p, r: p.relative_to(r))


def _x_fnmatch(ex, args, kwargs, lineno):
    if len(args) != 2 or kwargs:
        raise Unsupported("fnmatch.fnmatch with other than two arguments")
    return ex.call_uf("fnmatch", list(args))


EXTERNALS.setdefault("fnmatch.fnmatch", _x_fnmatch)


def norm_str(s):
    """str(Path(s)): pathlib's normalised spelling of s."""
    return path_str(path_of_str(s))


def dir_match(path, pattern):
    """`pattern` ends with '/': some component of path equals the directory name, or path matches `name*`."""
    return pattern.rstrip("/") in path_parts(path_of_str(path)) or fn_match(path, pattern.rstrip("/") + "*")


def matches_spec(path, pattern):
    if pattern.endswith("/"):
        return dir_match(path, pattern)
    return fn_match(path, pattern) or fn_match(norm_str(path), pattern)


@contract(PU + "_matches_directory_pattern", props=["C14", "C04"], types=dict(path=Str, pattern=Str), returns=Bool)
class MatchesDirectoryPattern:
    def value(path, pattern):
        return dir_match(path, pattern)

    def ensures_component_named_like_the_directory_matches(path, pattern, result):
        # property text / docs: `build/` ignores everything inside a directory called build, at any depth
        return implies(pattern.rstrip("/") in path_parts(path_of_str(path)), result)


@contract(PU + "matches_pattern", props=["C14", "C04"], types=dict(path=Str, pattern=Str), returns=Bool)
class MatchesPattern:
    def value(path, pattern):
        return matches_spec(path, pattern)


@contract(PU + "extract_patterns_from_content", props=["C14", "C04"], types=dict(content=Str, lines=SeqOf(Str)),
          returns=SeqOf(Str))
class ExtractPatternsFromContent:
    def value(content):
        return [line for line in [ln.strip() for ln in content.splitlines()] if line and not line.startswith("#")]
    # The value clause IS the property's filter (kept = stripped lines that are non-empty and do not start with '#').
    # The derived form all(len(p) > 0 and not p.startswith("#") for p in result) needs one unfolding of the
    # generated map/filter function per induction step, which neither solver performs reliably: not claimed.


ParserT = Rec("IgnoreDirectiveParser", cls=IG + "IgnoreDirectiveParser", project_root=PathT, repo_patterns=SeqOf(Str),
              _ignore_cache=Dict)


def is_prefix(a, b):
    return len(a) <= len(b) and b[:len(a)] == a


def below_root(p, root):
    """Component-wise: root's components are a prefix of p's (exactly when p.relative_to(root) succeeds)."""
    return is_prefix(path_parts(root), path_parts(p))


def ign_fresh(root, pats, p):
    """Property text: the file matches a repository ignore pattern. The string the patterns are matched against is
    the path relative to the project root when the file is below it, otherwise the path as spelled (the code's
    fallback; see C09 finding C09-ignore-relative-spelling)."""
    if below_root(p, root):
        return any(matches_spec(path_str(path_rel(p, root)), q) for q in pats)
    return any(matches_spec(path_str(p), q) for q in pats)


def cache_entry_ok(cache, p):
    """The memo entry of p, if any, is a bool (not needed by is_ignored itself, which returns the entry as is)."""
    return implies(path_str(p) in cache, isinstance(cache[path_str(p)], bool))


def cache_coherent(cache, root, pats, p):
    return implies(path_str(p) in cache, cache[path_str(p)] == ign_fresh(root, pats, p))


def ign_now(cache, root, pats, p):
    """What is_ignored answers in the current state: the memoised verdict if there is one (whatever object the memo
    holds is returned as is; only its truth value matters to the callers)."""
    return bool(cache[path_str(p)]) if path_str(p) in cache else ign_fresh(root, pats, p)


def cache_after(cache, root, pats, p):
    """The memo after is_ignored(p): a miss stores the computed verdict, a hit changes nothing."""
    return cache if path_str(p) in cache else dict_put(cache, path_str(p), ign_fresh(root, pats, p))


@contract(IG + "IgnoreDirectiveParser.is_ignored", props=["C14", "C09", "C08", "C04"],
          types=dict(self=ParserT, file_path=PathT, path_str=Str, check_path=Str, result=Bool), returns=Any,
          modifies=["self._ignore_cache"])
class IsIgnored:
    def ensures_memoised_or_computed(self, file_path, result, old):
        return bool(result) == ign_now(old.self._ignore_cache, self.project_root, self.repo_patterns, file_path)

    def ensures_matches_some_pattern(self, file_path, result, old):
        # property text: ignored <=> matches a repository pattern (given a coherent memo entry for this file)
        return implies(cache_coherent(old.self._ignore_cache, self.project_root, self.repo_patterns, file_path),
                       bool(result) == ign_fresh(self.project_root, self.repo_patterns, file_path))

    def ensures_cache_updated(self, file_path, result, old):
        return self._ignore_cache == cache_after(old.self._ignore_cache, self.project_root, self.repo_patterns, file_path)


# =================================================================== _collect_files_fast: bounded check on real trees
DIR_NAMES = sorted(SPEC_EXCLUDED_DIRS | EXTRA_EXCLUDED_DIRS) + ["x.egg-info", "*.egg-info", ".hidden", "pkg", "src", "BUILD",
                                                                "Node_Modules", "build2", "distx", "egg-info"]
FILE_NAMES = ["a.py", "b.pyc", "c.PYC", "d.so", "noext", ".hiddenfile", "e.egg-info", "build", "dist", "m.o", "n.obj", "k.class",
              "t.ts", "lib.dylib", "venv", "x.pyo", "y.pyd", "z.dll", "w.txt",
              # compound names: only the LAST suffix counts
              "user.class.ts", "shapes.obj.py", "codec.o.py", "libfoo.so.1", "mod.pyc.bak", "a.tar.gz", "types.d.ts", "x.test.ts",
              ".so", "..pyc", "name.", "pkg.dll.py"]


def _gen_tree(rng, depth):
    """A small directory tree: {name: subtree-dict | None (file)} with at most 3 entries per level."""
    tree = {}
    for _ in range(rng.randint(0, 3)):
        if depth > 0 and rng.random() < 0.55:
            nm = rng.choice(DIR_NAMES)
            if nm not in tree:
                tree[nm] = _gen_tree(rng, depth - 1)
        else:
            nm = rng.choice(FILE_NAMES)
            if nm not in tree:
                tree[nm] = None
    return tree


def _materialise(base, tree):
    import os
    for nm, sub in tree.items():
        p = os.path.join(base, nm)
        if sub is None:
            with open(p, "w", encoding="utf-8") as fh:
                fh.write("x = 1\n")
        else:
            os.mkdir(p)
            _materialise(p, sub)


def _expected(tree, recursive, prefix=()):
    """The contract of _collect_files_fast on the tree model: regular files, not below an excluded directory name
    (finding-adjusted set), without compiled suffixes; only the top level when not recursive."""
    import pathlib
    out = set()
    for nm, sub in tree.items():
        if sub is None:
            if pathlib.PurePosixPath(nm).suffix not in COMPILED_SUFFIXES:
                out.add("/".join(prefix + (nm,)))
        elif recursive and not code_excluded_dir(nm):
            out |= _expected(sub, recursive, prefix + (nm,))
    return out


@custom("c14-walk-bounded", props=["C14"])
def walk_bounded(ctx):
    """BOUNDED (never counted as proved): _collect_files_fast (os.walk with in-place pruning) against its contract on
    small REAL temporary trees (depth <= 3, <= 3 entries per level, names drawn from every excluded name, *.egg-info,
    hidden, plain and upper-case variants; files with compiled / other suffixes and files NAMED like excluded dirs)."""
    import os
    import random
    import shutil
    import tempfile
    from pyvc.native import call_target
    n = 300 if ctx.get("tier", "quick") == "quick" else 4000
    rng = random.Random(1000003 * int(ctx.get("seed", 0)) + 14)
    name = "custom:c14-walk-bounded/_collect_files_fast"
    base = tempfile.mkdtemp(prefix="c14walk_")
    cases = nonempty = pruned = 0
    try:
        import pathlib
        for i in range(n):
            tree = _gen_tree(rng, 3)
            root = os.path.join(base, f"t{i}")
            os.mkdir(root)
            _materialise(root, tree)
            for recursive in (True, False):
                got_list = call_target(O + "_collect_files_fast", pathlib.Path(root), recursive)
                got = [os.path.relpath(str(p), root) for p in got_list]
                want = _expected(tree, recursive)
                cases += 1
                nonempty += bool(want)
                pruned += any(sub is not None and code_excluded_dir(nm) for nm, sub in tree.items())
                if len(got) != len(set(got)) or set(got) != want:
                    return [dict(name=name, kind="bounded", verdict="refuted", carries=True, tool="real-tree enumeration",
                                 budget=f"{n} trees", cases=cases, witness_confirmed=True,
                                 witness={"tree": tree, "recursive": recursive, "got": sorted(got), "expected": sorted(want)},
                                 note=f"tree {tree} recursive={recursive}: got {sorted(got)} expected {sorted(want)}")]
            shutil.rmtree(root, ignore_errors=True)
    except BaseException as e:  # noqa
        return [dict(name=name, kind="bounded", verdict="unknown", carries=True, tool="real-tree enumeration", budget=f"{n} trees",
                     cases=cases, note=f"harness error: {e!r}"[:300])]
    finally:
        shutil.rmtree(base, ignore_errors=True)
    if nonempty < cases // 4 or pruned < n // 10:
        return [dict(name=name, kind="bounded", verdict="unknown", carries=True, tool="real-tree enumeration", budget=f"{n} trees",
                     cases=cases, note=f"generator too weak: {nonempty} non-empty expectations, {pruned} trees with a pruned directory")]
    return [dict(name=name, kind="bounded", verdict="passed", carries=True, tool="real-tree enumeration (tempfile.mkdtemp, removed)",
                 budget=f"{n} trees x recursive/non-recursive, seed {ctx.get('seed', 0)}", cases=cases,
                 note=f"{cases} calls agree with the contract; {nonempty} with a non-empty file set, {pruned} trees contain an "
                      f"excluded directory at the top level")]


@custom("c14-excluded-set-native", props=["C14"])
def excluded_set_native(ctx):
    """BOUNDED: constant-set comparison, natively, of the two exclusion predicates against the listed names (documented
    set + the 5 recorded extra names) and a set of near-miss probes; complements the symbolic contracts (which reach the
    loop of _is_hardcoded_excluded only through its invariant)."""
    import pathlib
    from pyvc.native import call_target
    name = "custom:c14-excluded-set-native/listed-names"
    listed = sorted(SPEC_EXCLUDED_DIRS | EXTRA_EXCLUDED_DIRS) + ["x.egg-info", "a.b.egg-info"]
    probes = ["src", "pkg", "BUILD", "Dist", "build2", "xbuild", "venv2", ".venvs", "node_module", "egg-info", ".gitx", "git",
              "__pycache", "cache", ".cache", "htmlcov2", "tox", "eggs", "x.egg-infos"]
    cases = 0
    try:
        for nm, want in [(n, True) for n in listed] + [(n, False) for n in probes]:
            for p in (pathlib.Path(nm) / "x.py", pathlib.Path("top") / nm / "deep" / "x.py", pathlib.Path("/abs") / "proj" / nm / "x.py"):
                cases += 2
                got = call_target(O + "_is_hardcoded_excluded", p)
                inc = call_target(O + "_should_include_dir", nm)
                if got != want or inc == want:
                    return [dict(name=name, kind="bounded", verdict="refuted", carries=True, tool="native exhaustive over the listed set",
                                 budget=f"{len(listed)} listed + {len(probes)} probe names", cases=cases, witness_confirmed=True,
                                 witness={"name": nm, "path": str(p), "_is_hardcoded_excluded": got, "_should_include_dir": inc,
                                          "expected_excluded": want},
                                 note=f"{nm!r}: _is_hardcoded_excluded({str(p)!r}) = {got}, _should_include_dir = {inc}, expected excluded = {want}")]
        for suf, want in [(s, True) for s in sorted(COMPILED_SUFFIXES)] + [(".py", False), (".ts", False), (".PYC", False), ("", False)]:
            cases += 1
            got = call_target(O + "_is_hardcoded_excluded", pathlib.Path("src") / ("m" + suf))
            if got != want:
                return [dict(name=name, kind="bounded", verdict="refuted", carries=True, tool="native exhaustive over the listed set",
                             budget="suffix list", cases=cases, witness_confirmed=True, witness={"suffix": suf, "got": got},
                             note=f"suffix {suf!r}: _is_hardcoded_excluded = {got}, expected {want}")]
        # directory run vs explicit run: the walk's per-directory filter and _is_hardcoded_excluded agree on every file name
        for fn in FILE_NAMES + ["m" + s_ for s_ in sorted(COMPILED_SUFFIXES)] + ["a" + s_ + ".py" for s_ in sorted(COMPILED_SUFFIXES)]:
            if code_excluded_dir(fn):
                continue  # a FILE named like an excluded directory: recorded finding C14-file-named-like-excluded-dir
            cases += 1
            kept = call_target(O + "_collect_files_from_walk", "proj", [fn])
            excl = call_target(O + "_is_hardcoded_excluded", pathlib.Path("proj") / fn)
            if bool(kept) == bool(excl) or (kept and kept != [pathlib.Path("proj") / fn]):
                return [dict(name=name, kind="bounded", verdict="refuted", carries=True, tool="native exhaustive over the listed set",
                             budget="file-name alphabet", cases=cases, witness_confirmed=True,
                             witness={"file": fn, "_collect_files_from_walk": [str(k) for k in kept], "_is_hardcoded_excluded": excl},
                             note=f"file name {fn!r}: the directory walk keeps {[str(k) for k in kept]} but _is_hardcoded_excluded "
                                  f"(explicitly named file) says excluded={excl}")]
    except BaseException as e:  # noqa
        return [dict(name=name, kind="bounded", verdict="unknown", carries=True, tool="native", cases=cases, note=f"harness error {e!r}"[:300])]
    return [dict(name=name, kind="bounded", verdict="passed", carries=True, tool="native exhaustive over the listed set",
                 budget=f"{len(listed)} listed + {len(probes)} probe names x 3 positions, {len(COMPILED_SUFFIXES)} suffixes", cases=cases,
                 note="both predicates agree with the listed exclusion set at every position (first component, nested, absolute)")]


# =================================================================== end-to-end bounded check at the property's observation point
_PAT_POOL = ["gen/", "a.py", "src/*.py", "src/gen/*.py", "*/b.py", "build2/", "# a comment", "", "pkg/", "  c.py  ", "*.ts", "src/gen/",
             ".hidden/", ".dot.py", ".scratch/", "scratch/", "dot.py", "./gen/", "/a.py", "..", ".", "*.obj.py",
             # bare names / globs WITHOUT a trailing slash: they match a directory's own path, not the files below it
             "docs", "*.d", "src/gen", "pkg", "gen", "scratch", "src", "*gen", "conf.d", "src/g*"]
_LINT_DIRS = ["src", "gen", "pkg", "build", "dist", ".venv", "node_modules", "x.egg-info", "build2", ".hidden", "htmlcov", ".scratch",
              "scratch", "docs", "conf.d"]
_LINT_FILES = ["a.py", "b.py", "c.py", "d.pyc", "e.so", "shapes.obj.py", "codec.o.py", "model.class.py", ".dot.py", "lib.so.py", "dot.py"]


def _gen_lint_tree(rng, depth):
    tree = {}
    for _ in range(rng.randint(1, 3)):
        if depth > 0 and rng.random() < 0.5:
            nm = rng.choice(_LINT_DIRS)
            if nm not in tree:
                tree[nm] = _gen_lint_tree(rng, depth - 1)
        else:
            nm = rng.choice(_LINT_FILES)
            if nm not in tree:
                tree[nm] = None
    return tree


def _write_lint_tree(base, tree):
    import os
    for nm, sub in tree.items():
        p = os.path.join(base, nm)
        if sub is None:
            with open(p, "w", encoding="utf-8") as fh:
                fh.write("def planted():\n    return 3.14159 * 4242\n")
        else:
            os.mkdir(p)
            _write_lint_tree(p, sub)


def _files_of(tree, prefix=()):
    out = []
    for nm, sub in tree.items():
        if sub is None:
            out.append(prefix + (nm,))
        else:
            out += _files_of(sub, prefix + (nm,))
    return out


@custom("c14-lint-directory-bounded", props=["C14"])
def lint_directory_bounded(ctx):
    """BOUNDED, at the property's observation point: every .py file of a small real tree carries a planted
    magic-number violation; Orchestrator.lint_directory(root) must report exactly the files that are not below an
    excluded directory, not compiled artefacts and not matched by a .thailintignore pattern (the SAME spec functions
    ign_fresh / code_excluded_dir evaluated natively), and an ignored/excluded file named explicitly (lint_file) must
    contribute nothing."""
    import os
    import pathlib
    import random
    import shutil
    import sys
    import tempfile
    n = 150 if ctx.get("tier", "quick") == "quick" else 1500
    rng = random.Random(7919 * int(ctx.get("seed", 0)) + 141)
    name = "custom:c14-lint-directory-bounded/lint_directory"
    from pyvc import native as _native
    _native._ensure_repo_on_path()  # `import src` must be the tree under verification ($VERIF_REPO), not an installed copy
    base = tempfile.mkdtemp(prefix="c14lint_")
    cases = ignored_cases = 0
    try:
        from src.orchestrator.core import Orchestrator
        from src.linter_config.ignore import clear_ignore_parser_cache
        from src.cli.utils import execute_linting_on_paths
        try:
            from loguru import logger as _lg
            _lg.remove()
        except BaseException:  # noqa
            pass
        for i in range(n):
            tree = _gen_lint_tree(rng, 2)
            root = pathlib.Path(base) / f"p{i}"
            root.mkdir()
            _write_lint_tree(str(root), tree)
            raw = [rng.choice(_PAT_POOL) for _ in range(rng.randint(0, 3))]
            source = rng.choice([".thailintignore", "config ignore:"]) if raw else "none"
            if source == ".thailintignore":
                (root / ".thailintignore").write_text("\n".join(raw) + "\n", encoding="utf-8")
                # gitignore-style file: blank lines and comments are not patterns, surrounding white space is stripped
                pats = [ln.strip() for ln in raw if ln.strip() and not ln.strip().startswith("#")]
            elif source == "config ignore:":
                import yaml as _yaml
                (root / ".thailint.yaml").write_text(_yaml.safe_dump({"ignore": raw}), encoding="utf-8")
                pats = list(raw)  # the config's list is taken verbatim
            else:
                pats = []
            clear_ignore_parser_cache()
            orch = Orchestrator(project_root=root, config={})
            want = set()
            for parts in _files_of(tree):
                f = root.joinpath(*parts)
                skip = any(code_excluded_dir(c) for c in parts) or pathlib.PurePosixPath(parts[-1]).suffix in COMPILED_SUFFIXES \
                    or ign_fresh(root, pats, f)
                ignored_cases += bool(pats) and ign_fresh(root, pats, f)
                if not skip and parts[-1].endswith(".py"):
                    want.add("/".join(parts))
                if skip:
                    solo = [v for v in Orchestrator(project_root=root, config={}).lint_file(f) if v.rule_id.startswith("magic-numbers")]
                    if solo:
                        return [dict(name=name, kind="bounded", verdict="refuted", carries=True, tool="real-tree lint runs", cases=cases,
                                     budget=f"{n} trees", witness_confirmed=True,
                                     witness={"tree": tree, "patterns": raw, "pattern_source": source, "file": "/".join(parts)},
                                     note=f"excluded/ignored file {'/'.join(parts)} named explicitly contributes {len(solo)} violations; "
                                          f"tree {tree} patterns {raw} from {source}")]
            vs = orch.lint_directory(root, recursive=True)
            got = {os.path.relpath(v.file_path, str(root)) for v in vs if v.rule_id.startswith("magic-numbers")}
            cases += 1
            if got != want:
                return [dict(name=name, kind="bounded", verdict="refuted", carries=True, tool="real-tree lint runs", cases=cases,
                             budget=f"{n} trees", witness_confirmed=True,
                             witness={"tree": tree, "patterns": raw, "pattern_source": source, "got": sorted(got), "expected": sorted(want)},
                             note=f"tree {tree} patterns {raw} from {source}: reported {sorted(got)}, expected {sorted(want)}")]
            # --no-recursive: only the direct children of the target
            clear_ignore_parser_cache()
            vs = Orchestrator(project_root=root, config={}).lint_directory(root, recursive=False)
            got = {os.path.relpath(v.file_path, str(root)) for v in vs if v.rule_id.startswith("magic-numbers")}
            want_flat = {w for w in want if "/" not in w}
            cases += 1
            if got != want_flat:
                return [dict(name=name, kind="bounded", verdict="refuted", carries=True, tool="real-tree lint runs", cases=cases,
                             budget=f"{n} trees", witness_confirmed=True,
                             witness={"tree": tree, "patterns": raw, "recursive": False, "got": sorted(got), "expected": sorted(want_flat)},
                             note=f"non-recursive: tree {tree} patterns {raw}: reported {sorted(got)}, expected {sorted(want_flat)}")]
            # the project root and the target spelled RELATIVE to the working directory (run from the parent directory):
            # same files as with absolute spellings (repository patterns are anchored at the root, however it is spelled)
            cwd_before = os.getcwd()
            try:
                os.chdir(str(root.parent))
                rel_root = pathlib.Path(root.name)
                clear_ignore_parser_cache()
                vs = Orchestrator(project_root=rel_root, config={}).lint_directory(rel_root, recursive=True)
                got = {os.path.relpath(os.path.realpath(v.file_path), os.path.realpath(str(root))) for v in vs if v.rule_id.startswith("magic-numbers")}
            finally:
                os.chdir(cwd_before)
            cases += 1
            if got != want:
                return [dict(name=name, kind="bounded", verdict="refuted", carries=True, tool="real-tree lint runs", cases=cases,
                             budget=f"{n} trees", witness_confirmed=True,
                             witness={"tree": tree, "patterns": raw, "project_root": root.name, "cwd": "its parent", "got": sorted(got), "expected": sorted(want)},
                             note=f"relative project root / relative target from the parent directory: reported {sorted(got)}, expected {sorted(want)}; "
                                  f"tree {tree} patterns {raw} from {source}")]
            # the parallel entry point honours the recursion flag like the sequential one
            for rec in (True, False):
                clear_ignore_parser_cache()
                vs = Orchestrator(project_root=root, config={}).lint_directory_parallel(root, recursive=rec, max_workers=64)  # (checker workers are daemonic: stay on the small-input sequential fallback of lint_files_parallel)
                got = {os.path.relpath(v.file_path, str(root)) for v in vs if v.rule_id.startswith("magic-numbers")}
                exp = want if rec else want_flat
                cases += 1
                if got != exp:
                    return [dict(name=name, kind="bounded", verdict="refuted", carries=True, tool="real-tree lint runs", cases=cases,
                                 budget=f"{n} trees", witness_confirmed=True,
                                 witness={"tree": tree, "patterns": raw, "parallel": True, "recursive": rec, "got": sorted(got), "expected": sorted(exp)},
                                 note=f"lint_directory_parallel(recursive={rec}): reported {sorted(got)}, expected {sorted(exp)}; tree {tree} patterns {raw}")]
            # two GENERATIONS of the ignore parser in one process: the same files judged first with no repository pattern
            # at all (parent directory as project root), then with the project's own patterns, then the reverse order
            if pats and source == ".thailintignore":
                for order in (("outer", "own"), ("own", "outer")):
                    clear_ignore_parser_cache()
                    for who in order:
                        pr_root = root if who == "own" else root.parent
                        vs = Orchestrator(project_root=pr_root, config={}).lint_directory(root, recursive=True)
                        got = {os.path.relpath(v.file_path, str(root)) for v in vs if v.rule_id.startswith("magic-numbers")}
                        exp = want if who == "own" else {"/".join(pp) for pp in _files_of(tree)
                                                          if pp[-1].endswith(".py") and not any(code_excluded_dir(c) for c in pp)
                                                          and pathlib.PurePosixPath(pp[-1]).suffix not in COMPILED_SUFFIXES}
                        cases += 1
                        if got != exp:
                            return [dict(name=name, kind="bounded", verdict="refuted", carries=True, tool="real-tree lint runs", cases=cases,
                                         budget=f"{n} trees", witness_confirmed=True,
                                         witness={"tree": tree, "patterns": raw, "sequence": order, "step": who, "got": sorted(got), "expected": sorted(exp)},
                                         note=f"parser generations {order}, step {who!r} (project root = "
                                              f"{'the project' if who == 'own' else 'its parent: no patterns'}): reported {sorted(got)}, "
                                              f"expected {sorted(exp)}; tree {tree} patterns {raw}")]
            # CLI plumbing with a directory argument AND explicitly named files (some beneath the directory), both
            # recursion modes: every named, non-skipped file and every file the directory scan reaches is reported
            all_files = _files_of(tree)
            if all_files:
                named = [root.joinpath(*pp) for pp in rng.sample(all_files, min(2, len(all_files)))]
                named_ok = {os.path.relpath(str(f), str(root)) for f in named
                            if os.path.relpath(str(f), str(root)) in {"/".join(pp) for pp in all_files}
                            and not (any(code_excluded_dir(c) for c in f.relative_to(root).parts)
                                     or f.suffix in COMPILED_SUFFIXES or ign_fresh(root, pats, f)) and f.name.endswith(".py")}
                for rec in (True, False):
                    clear_ignore_parser_cache()
                    o3 = Orchestrator(project_root=root, config={})
                    vs = execute_linting_on_paths(o3, [root] + named, rec)
                    got = {os.path.relpath(v.file_path, str(root)) for v in vs if v.rule_id.startswith("magic-numbers")}
                    exp = (want if rec else want_flat) | named_ok
                    cases += 1
                    if got != exp:
                        return [dict(name=name, kind="bounded", verdict="refuted", carries=True, tool="real-tree lint runs", cases=cases,
                                     budget=f"{n} trees", witness_confirmed=True,
                                     witness={"tree": tree, "patterns": raw, "recursive": rec, "explicit_files": sorted(map(str, named_ok)),
                                              "got": sorted(got), "expected": sorted(exp)},
                                     note=f"directory argument + explicit files {[os.path.relpath(str(f), str(root)) for f in named]} "
                                          f"recursive={rec}: reported {sorted(got)}, expected {sorted(exp)}; tree {tree} patterns {raw}")]
            shutil.rmtree(str(root), ignore_errors=True)
    except BaseException as e:  # noqa
        return [dict(name=name, kind="bounded", verdict="unknown", carries=True, tool="real-tree lint runs", cases=cases,
                     budget=f"{n} trees", note=f"harness error: {e!r}"[:300])]
    finally:
        shutil.rmtree(base, ignore_errors=True)
        try:
            clear_ignore_parser_cache()
        except BaseException:  # noqa
            pass
    if ignored_cases < max(3, n // 10):
        return [dict(name=name, kind="bounded", verdict="unknown", carries=True, tool="real-tree lint runs", cases=cases,
                     budget=f"{n} trees", note=f"generator too weak: only {ignored_cases} ignored files overall")]
    return [dict(name=name, kind="bounded", verdict="passed", carries=True, tool="real-tree lint runs (tempfile.mkdtemp, removed)",
                 budget=f"{n} trees, seed {ctx.get('seed', 0)}", cases=cases,
                 note=f"{cases} directory runs report exactly the expected files; {ignored_cases} files matched a .thailintignore pattern")]


# =================================================================== where the repository patterns come from (ignore.py)
from pyvc.api import is_str_list, as_str_list  # noqa: E402


@contract(IG + "_extract_ignore_patterns~patterns", props=["C14", "C04"], types=dict(config=Any, ignore_patterns=Any, pattern=Any),
          returns=SeqOf(Str), raises=[])
class ExtractIgnorePatternsVerbatim:
    """Second view of a function contracts/c11_containment.py contracts for containment: the config's `ignore:` list is
    taken VERBATIM (property text: 'files matching a repository ignore pattern from .thailintignore or the config's
    ignore list' -- the pattern the user wrote is the pattern that is matched, exactly as for .thailintignore lines)."""
    def ensures_string_patterns_are_taken_verbatim(config, result):
        return implies(isinstance(config, dict) and "ignore" in config and is_str_list(config["ignore"]),
                       result == as_str_list(config["ignore"]))

    def ensures_no_ignore_key_no_patterns(config, result):
        return implies(isinstance(config, dict) and "ignore" not in config, len(result) == 0)

    def witness_string_patterns_are_taken_verbatim():
        # concrete inputs for a native run when the solver cannot decide the clause (re-validated on every run)
        return {"config": {"ignore": [".scratch/", "./gen/", "/abs.py", "..", "plain.py", "*.pyc"]}}


def thailintignore_patterns(f):
    """The patterns of a readable .thailintignore: its stripped lines that are neither blank nor comments."""
    return [line for line in [ln.strip() for ln in fs_text(f).splitlines()] if line and not line.startswith("#")]


try:
    from contracts.c15_language import fs_text, fs_io_ok, fs_utf8_ok  # the one file-system snapshot (Path.read_text externals)
    from contracts import c11_containment as _c11  # noqa: F401  (logger externals, containment views of these functions)
    _FS_AVAILABLE = True
except BaseException:  # noqa
    _FS_AVAILABLE = False


class ParseThailintignoreFilePatterns:
    """Functional view (contracts/c11_containment.py holds the containment view): a readable file yields exactly its
    pattern lines, an unreadable / undecodable one yields none."""
    def ensures_readable(ignore_file, result):
        return implies(fs_io_ok(ignore_file) and fs_utf8_ok(ignore_file), result == thailintignore_patterns(ignore_file))

    def ensures_unreadable(ignore_file, result):
        return implies(not (fs_io_ok(ignore_file) and fs_utf8_ok(ignore_file)), result == [])


class LoadRepoIgnores:
    """Where the repository patterns come from: .thailintignore if it exists (the config's `ignore:` list is then NOT
    consulted), else .thailint.yaml, else nothing."""
    def ensures_no_source_no_patterns(project_root, result):
        return implies(not fs_exists(path_div(project_root, ".thailintignore")) and not fs_exists(path_div(project_root, ".thailint.yaml")),
                       result == [])


if _FS_AVAILABLE:
    contract(IG + "_parse_thailintignore_file~patterns", props=["C14", "C04"], types=dict(ignore_file=PathT, content=Str),
             returns=SeqOf(Str), raises=[])(ParseThailintignoreFilePatterns)
    contract(IG + "_load_repo_ignores", props=["C14", "C04", "C08"], types=dict(project_root=PathT, thailintignore=PathT, config_file=PathT),
             returns=SeqOf(Str), raises=[])(LoadRepoIgnores)
