"""C14 -- which files a run lints (src/orchestrator/core.py, src/linter_config/pattern_utils.py, src/cli/utils.py).

Top-level spec (property text): a directory target lints exactly the regular files beneath it minus files inside an
always-excluded directory (.git, node_modules, __pycache__, .venv, venv, build, dist, caches, *.egg-info), compiled
artefacts, and files matching a repository ignore pattern; an excluded or ignored file never contributes a violation
even when named explicitly."""
from pyvc.api import contract, lemma, custom, Int, Bool, Str, Dict, SeqOf, Rec, Opt, TupleOf, implies, call, ih, opaque, reveal
from contracts._common import PathT, path_str, path_name
from contracts.c09_paths import (path_parts, name_suffix, mkpath, path_of_str, path_div, fs_is_file, fs_is_dir,
                                 comp_ok, rel_ok, prefix_ok, name_link)

O = "src/orchestrator/core.py::"

# ------------------------------------------------------------------ the documented exclusion set (property text)
SPEC_EXCLUDED_DIRS = frozenset({".git", "node_modules", "__pycache__", ".venv", "venv", "build", "dist",
                                ".pytest_cache", ".mypy_cache", ".ruff_cache"})  # "caches" = the tool caches
# what the code additionally skips (known finding C14-undocumented-exclusions)
EXTRA_EXCLUDED_DIRS = frozenset({".svn", ".hg", ".tox", ".eggs", "htmlcov"})
# compiled artefacts (property text: "compiled artefacts"; the list is the code's, there is no documented one)
COMPILED_SUFFIXES = frozenset({".pyc", ".pyo", ".pyd", ".so", ".dll", ".dylib", ".class", ".o", ".obj"})


def spec_excluded_dir(name):
    """Property text: .git, node_modules, __pycache__, .venv, venv, build, dist, caches, *.egg-info."""
    return name in SPEC_EXCLUDED_DIRS or name.endswith(".egg-info")


def code_excluded_dir(name):
    """Finding-adjusted: the documented names plus .svn .hg .tox .eggs htmlcov."""
    return spec_excluded_dir(name) or name in EXTRA_EXCLUDED_DIRS


@opaque
def any_excluded(s: SeqOf(Str)) -> Bool:
    """Some component is an excluded directory name (opaque: unfolded only where revealed)."""
    return len(s) > 0 and (code_excluded_dir(s[0]) or any_excluded(s[1:]))


def hard_excluded(p):
    """_is_hardcoded_excluded as a function of the path's suffix and components."""
    return name_suffix(path_name(p)) in COMPILED_SUFFIXES or any_excluded(path_parts(p))


@contract(O + "_is_hardcoded_excluded", props=["C14", "C09", "C10"], types=dict(file_path=PathT, part=Str), returns=Bool)
class IsHardcodedExcluded:
    def value(file_path):
        return hard_excluded(file_path)

    def inv0(file_path, rest):
        return reveal(any_excluded, rest) and any_excluded(path_parts(file_path)) == any_excluded(rest)


@lemma(props=["C14", "C09"], types=dict(s=SeqOf(Str)), name="any-excluded-is-any-component")
def any_excluded_def(s):
    """any_excluded(s) <=> some component of s is an excluded directory name (by induction on s)."""
    reveal(any_excluded, s)
    if len(s) == 0:
        return not any_excluded(s)
    ih(any_excluded_def, s[1:])
    return any_excluded(s) == any(code_excluded_dir(c) for c in s)


@contract(O + "_should_include_dir", props=["C14"], types=dict(dirname=Str), returns=Bool)
class ShouldIncludeDir:
    def ensures_documented_set(dirname, result):
        # property text: exactly the documented directories are pruned (expected to fail: C14-undocumented-exclusions)
        return result == (not spec_excluded_dir(dirname))

    def ensures_code_set(dirname, result):
        return result == (not code_excluded_dir(dirname))


@lemma(props=["C14"], types=dict(name=Str), name="explicit-file-excluded-iff-documented")
def excluded_iff_documented(name):
    """Property text, for a file named directly inside a directory `name` ... posed on one component (the general
    statement is the adjusted lemma below): `name/x` is hard-excluded iff `name` is a documented excluded directory.
    (Expected to fail through the 5 undocumented names: C14-undocumented-exclusions-explicit.)"""
    if not comp_ok(name):
        return True
    p = mkpath([name, "x"])
    name_link(p)
    assert name_suffix(path_name(p)) == ""  # the file name "x" has no suffix (checked natively on replay)
    reveal(any_excluded, [name, "x"])
    reveal(any_excluded, ["x"])
    reveal(any_excluded, [])
    r = call(O + "_is_hardcoded_excluded", p)
    return r == spec_excluded_dir(name)


@lemma(props=["C14"], types=dict(rel=SeqOf(Str)), name="excluded-iff-compiled-or-under-listed-dir")
def excluded_iff_listed(rel):
    """Finding-adjusted, all paths: hard-excluded iff compiled artefact or some component is a listed directory name."""
    p = mkpath(rel)
    r = call(O + "_is_hardcoded_excluded", p)
    return any_excluded_def(rel) and r == (name_suffix(path_name(p)) in COMPILED_SUFFIXES or any(code_excluded_dir(c) for c in rel))
