"""C14 -- which files a run lints (src/orchestrator/core.py, src/linter_config/pattern_utils.py, src/cli/utils.py).

Top-level spec (property text): a directory target lints exactly the regular files beneath it minus files inside an
always-excluded directory (.git, node_modules, __pycache__, .venv, venv, build, dist, caches, *.egg-info), compiled
artefacts, and files matching a repository ignore pattern; an excluded or ignored file never contributes a violation
even when named explicitly."""
from pyvc.api import contract, lemma, custom, Int, Bool, Str, Dict, SeqOf, Rec, Opt, TupleOf, implies, call, ih, opaque, reveal
from contracts._common import PathT, path_str, path_name
from contracts.c09_paths import (path_parts, name_suffix, mkpath, path_of_str, path_div, fs_is_file, fs_is_dir,
                                 comp_ok, rel_ok, prefix_ok, name_link)

O = "src/orchestrator/core.py::"

# ------------------------------------------------------------------ the documented exclusion set (property text)
SPEC_EXCLUDED_DIRS = frozenset({".git", "node_modules", "__pycache__", ".venv", "venv", "build", "dist",
                                ".pytest_cache", ".mypy_cache", ".ruff_cache"})  # "caches" = the tool caches
# what the code additionally skips (known finding C14-undocumented-exclusions)
EXTRA_EXCLUDED_DIRS = frozenset({".svn", ".hg", ".tox", ".eggs", "htmlcov"})
# compiled artefacts (property text: "compiled artefacts"; the list is the code's, there is no documented one)
COMPILED_SUFFIXES = frozenset({".pyc", ".pyo", ".pyd", ".so", ".dll", ".dylib", ".class", ".o", ".obj"})


def spec_excluded_dir(name):
    """Property text: .git, node_modules, __pycache__, .venv, venv, build, dist, caches, *.egg-info."""
    return name in SPEC_EXCLUDED_DIRS or name.endswith(".egg-info")


def code_excluded_dir(name):
    """Finding-adjusted: the documented names plus .svn .hg .tox .eggs htmlcov."""
    return spec_excluded_dir(name) or name in EXTRA_EXCLUDED_DIRS


def any_excluded(parts):
    return any(code_excluded_dir(c) for c in parts)


def hard_excluded(p):
    """_is_hardcoded_excluded as a function of the path's suffix and components."""
    return name_suffix(path_name(p)) in COMPILED_SUFFIXES or any_excluded(path_parts(p))


@contract(O + "_is_hardcoded_excluded", props=["C14", "C09", "C10"], types=dict(file_path=PathT, part=Str), returns=Bool)
class IsHardcodedExcluded:
    def value(file_path):
        return hard_excluded(file_path)

    def inv0(file_path, rest):
        return any_excluded(path_parts(file_path)) == any_excluded(rest)


@contract(O + "_should_include_dir", props=["C14"], types=dict(dirname=Str), returns=Bool)
class ShouldIncludeDir:
    def ensures_documented_set(dirname, result):
        # property text: exactly the documented directories are pruned (expected to fail: C14-undocumented-exclusions)
        return result == (not spec_excluded_dir(dirname))

    def ensures_code_set(dirname, result):
        return result == (not code_excluded_dir(dirname))


@lemma(props=["C14"], types=dict(rel=SeqOf(Str), name=Str), name="excluded-iff-under-documented-dir")
def excluded_iff_documented(rel, name):
    """Property text: a file is hard-excluded iff it is a compiled artefact or one of its components is a documented
    excluded directory name. (Expected to fail through the 5 undocumented names: C14-undocumented-exclusions.)"""
    p = mkpath(rel)
    r = call(O + "_is_hardcoded_excluded", p)
    return r == (name_suffix(path_name(p)) in COMPILED_SUFFIXES or any(spec_excluded_dir(c) for c in rel))


@lemma(props=["C14"], types=dict(rel=SeqOf(Str)), name="excluded-iff-under-listed-dir-adjusted")
def excluded_iff_listed(rel):
    p = mkpath(rel)
    r = call(O + "_is_hardcoded_excluded", p)
    return r == (name_suffix(path_name(p)) in COMPILED_SUFFIXES or any(code_excluded_dir(c) for c in rel))
