"""C15 (part 2b) -- rules that delegate the language choice to a helper (kept apart from c15_language.py, which the C03 file
imports: this file imports the C03 types)."""
from pyvc.api import contract, Str, implies
from contracts._common import PathT
# DRY (documented for Python, TypeScript and JavaScript) selects its analyzer in a helper, not in check(): the helper is
# the language guard of the rule. The C03 contract of the same function says WHAT is recorded for the supported
# languages; this C15 view says that nothing is recorded for any other language.
from contracts.c03_report import FileAnalyzerT, DRYConfigT, Blocks  # noqa: E402

DRYF = "src/linters/dry/file_analyzer.py::FileAnalyzer."


def _native_file_analyzer(fields):
    """Native rendering of `self` for witnesses / replay: a real FileAnalyzer with the default filters."""
    from src.linters.dry.file_analyzer import FileAnalyzer
    return FileAnalyzer(None)


DryAnalyzerT = FileAnalyzerT.extend()
DryAnalyzerT.build_native = _native_file_analyzer
_BRACE_CODE = "".join(f"    let total_{i} = compute_value(input_{i}, {i}) + offset_{i};\n" for i in range(6))


@contract(DRYF + "analyze~c15", props=["C15"], no_selftest=True,
          types=dict(self=DryAnalyzerT, file_path=PathT, content=Str, language=Str, config=DRYConfigT), returns=Blocks,
          modifies=["self._python_analyzer._statement_detector"])
class DryAnalyzeOnlyItsLanguages:
    def requires(config):
        return config.min_duplicate_lines >= 1

    def ensures_other_languages_record_nothing(language, result):
        # property text: "language-specific linters never report on a file of another language"
        return implies(language not in ("python", "typescript", "javascript"), len(result) == 0)



    # inputs from the property's own quantifier ("files of every supported and several unsupported extensions ... whose
    # content would trigger rules of another language"): run natively when the solver cannot decide the clause
    def witness_other_languages_record_nothing():
        import pathlib
        cfg = {"__rec__": "DRYConfig", "enabled": True, "min_duplicate_lines": 3, "min_duplicate_tokens": 1, "min_occurrences": 2,
               "python_min_occurrences": None, "typescript_min_occurrences": None, "javascript_min_occurrences": None,
               "storage_mode": "memory", "ignore_patterns": [], "detect_duplicate_constants": False,
               "min_constant_occurrences": 2, "python_min_constant_occurrences": None, "typescript_min_constant_occurrences": None}
        return {"self": {}, "file_path": pathlib.Path("lib.rs"), "content": "fn f() {\n" + _BRACE_CODE + "}\n", "language": "rust",
                "config": cfg}


# ------------------------------------------------------------------------------------------ the language guards of single-language rules
# Rules with their own check() sit behind `_should_analyze` (c15-language-guards checks that check() starts with it). Here
# the guards themselves: whatever else they test, they hold only for the documented language of the rule and a file
# with content.
from pyvc import api as _api  # noqa: E402
from pyvc.api import Bool, Int, SeqOf, Rec, Opt  # noqa: E402
from contracts.c15_language import CtxT, CfgT  # noqa: E402
from contracts import c09_path_predicates, c11_containment  # noqa: E402,F401  (is_ignored_path / resolve_file_path contracts)

L = "src/linters/"
RustCfgT = Rec("RustRuleConfig", enabled=Bool, ignore=SeqOf(Str), key=Int)
GUARD_INLINE = ["has_file_content"]


def rust_only(context, result):
    return implies(result, context.language == "rust" and context.file_content is not None)


def python_only(context, result):
    return implies(result, context.language == "python" and context.file_content is not None)


@contract(L + "unwrap_abuse/linter.py::UnwrapAbuseRule._should_analyze", props=["C15", "C17"],
          types=dict(self=Rec("UnwrapAbuseRule", cls=L + "unwrap_abuse/linter.py::UnwrapAbuseRule"), context=CtxT, config=RustCfgT),
          returns=Bool, inline=GUARD_INLINE)
class UnwrapShouldAnalyze:
    def ensures_rust_only(context, result):
        return rust_only(context, result)

    def ensures_disabled_never(config, result):
        return implies(result, config.enabled)


@contract(L + "clone_abuse/linter.py::CloneAbuseRule._should_analyze", props=["C15", "C17"],
          types=dict(self=Rec("CloneAbuseRule", cls=L + "clone_abuse/linter.py::CloneAbuseRule"), context=CtxT, config=RustCfgT),
          returns=Bool, inline=GUARD_INLINE)
class CloneShouldAnalyze:
    def ensures_rust_only(context, result):
        return rust_only(context, result)

    def ensures_disabled_never(config, result):
        return implies(result, config.enabled)


@contract(L + "blocking_async/linter.py::BlockingAsyncRule._should_analyze", props=["C15", "C17"],
          types=dict(self=Rec("BlockingAsyncRule", cls=L + "blocking_async/linter.py::BlockingAsyncRule"), context=CtxT, config=RustCfgT),
          returns=Bool, inline=GUARD_INLINE)
class BlockingShouldAnalyze:
    def ensures_rust_only(context, result):
        return rust_only(context, result)

    def ensures_disabled_never(config, result):
        return implies(result, config.enabled)


@contract(L + "collection_pipeline/linter.py::CollectionPipelineRule._should_analyze", props=["C15"],
          types=dict(self=Rec("CollectionPipelineRule", cls=L + "collection_pipeline/linter.py::CollectionPipelineRule"), context=CtxT),
          returns=Bool)
class PipelineShouldAnalyze:
    def value(context):
        return context.language == "python" and context.file_content is not None


@contract(L + "stateless_class/linter.py::StatelessClassRule._should_analyze", props=["C15"],
          types=dict(self=Rec("StatelessClassRule", cls=L + "stateless_class/linter.py::StatelessClassRule"), context=CtxT),
          returns=Bool)
class StatelessShouldAnalyze:
    def value(context):
        return context.language == "python" and context.file_content is not None


CVRuleT = Rec("ConditionalVerboseRule", cls=L + "print_statements/conditional_verbose_rule.py::ConditionalVerboseRule")
CV = L + "print_statements/conditional_verbose_rule.py::ConditionalVerboseRule."


@contract(CV + "_load_config", props=["C15"], types=dict(self=CVRuleT, context=CtxT), returns=CfgT,
          assumed="configuration loading (C05): interface only")
class CVLoadConfig:
    def ensures(result):
        return True


@contract(CV + "_is_file_ignored~c15", props=["C15"], types=dict(self=CVRuleT, context=CtxT, config=CfgT), returns=Bool,
          assumed="ignore-pattern matching (C04 proves its value under a precondition on the patterns): interface only")
class CVIsFileIgnoredInterface:
    def ensures(result):
        return True


@contract(CV + "_should_analyze", props=["C15"], types=dict(self=CVRuleT, context=CtxT, config=CfgT), returns=Bool,
          inline=GUARD_INLINE, callee_view="c15")
class CVShouldAnalyze:
    def ensures_python_only(context, result):
        return python_only(context, result)


# ---- rules whose dispatch is proved elsewhere with the exact value (other languages => []): they carry C15 too
# ... and the orchestrator's rule loop: "configuring other linters never changes X's findings" rests on its clause that the
# result is the concatenation over ALL rules (contracts/c10_orchestrator.py) and on the containment of a failing rule
# (contracts/c11_containment.py: a rule that raises anything but ValueError contributes [] and nothing else changes)
from contracts import c10_orchestrator, c11_containment as _c11  # noqa: E402,F401

for _t in (L + "srp/linter.py::SRPRule._dispatch_by_language", L + "srp/linter.py::SRPRule.check",
           "src/linters/dry/file_analyzer.py::FileAnalyzer.analyze",
           "src/orchestrator/core.py::Orchestrator._execute_rules", "src/orchestrator/core.py::Orchestrator._safe_check_rule",
           "src/orchestrator/core.py::Orchestrator._safe_check_rule~containment"):
    _c = _api.REGISTRY.get(_t)
    if _c is not None and "C15" not in _c.props:
        _c.props.append("C15")
