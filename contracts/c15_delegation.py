"""C15 (part 2b) -- rules that delegate the language choice to a helper (kept apart from c15_language.py, which the C03 file
imports: this file imports the C03 types)."""
from pyvc.api import contract, Str, implies
from contracts._common import PathT
# DRY (documented for Python, TypeScript and JavaScript) selects its analyzer in a helper, not in check(): the helper is
# the language guard of the rule. The C03 contract of the same function says WHAT is recorded for the supported
# languages; this C15 view says that nothing is recorded for any other language.
from contracts.c03_report import FileAnalyzerT, DRYConfigT, Blocks  # noqa: E402

DRYF = "src/linters/dry/file_analyzer.py::FileAnalyzer."


def _native_file_analyzer(fields):
    """Native rendering of `self` for witnesses / replay: a real FileAnalyzer with the default filters."""
    from src.linters.dry.file_analyzer import FileAnalyzer
    return FileAnalyzer(None)


DryAnalyzerT = FileAnalyzerT.extend()
DryAnalyzerT.build_native = _native_file_analyzer
_BRACE_CODE = "".join(f"    let total_{i} = compute_value(input_{i}, {i}) + offset_{i};\n" for i in range(6))


@contract(DRYF + "analyze~c15", props=["C15"], no_selftest=True,
          types=dict(self=DryAnalyzerT, file_path=PathT, content=Str, language=Str, config=DRYConfigT), returns=Blocks,
          modifies=["self._python_analyzer._statement_detector"])
class DryAnalyzeOnlyItsLanguages:
    def requires(config):
        return config.min_duplicate_lines >= 1

    def ensures_other_languages_record_nothing(language, result):
        # property text: "language-specific linters never report on a file of another language"
        return implies(language not in ("python", "typescript", "javascript"), len(result) == 0)



    # inputs from the property's own quantifier ("files of every supported and several unsupported extensions ... whose
    # content would trigger rules of another language"): run natively when the solver cannot decide the clause
    def witness_other_languages_record_nothing():
        import pathlib
        cfg = {"__rec__": "DRYConfig", "enabled": True, "min_duplicate_lines": 3, "min_duplicate_tokens": 1, "min_occurrences": 2,
               "python_min_occurrences": None, "typescript_min_occurrences": None, "javascript_min_occurrences": None,
               "storage_mode": "memory", "ignore_patterns": [], "detect_duplicate_constants": False,
               "min_constant_occurrences": 2, "python_min_constant_occurrences": None, "typescript_min_constant_occurrences": None}
        return {"self": {}, "file_path": pathlib.Path("lib.rs"), "content": "fn f() {\n" + _BRACE_CODE + "}\n", "language": "rust",
                "config": cfg}
