"""C15 (parts 1 and 3) -- each command reports only its own rules; no linter reads another linter's configuration.

Property text: "`thailint X` outputs only violations whose rule id belongs to linter X, and running or configuring
other linters never changes X's findings."

(1) c15-filter-table. All registered rules run on every file (Orchestrator._get_rules_for_file, proved in
    contracts/c10_orchestrator.py: `result == rules_of(gs)` whatever the file), so what a command shows is decided by its
    rule-id filter alone. On every run the check extracts
      IDS  = rule_id of every rule the real registry discovers (under the venv interpreter, $VERIF_REPO on sys.path)
             + every constant `rule_id=` argument found by an AST scan of src/linters and src/core,
      phi_X = the filter predicate of command X, read off `_run_X_lint` / the executor (`[v for v in all if <phi>]`),
    and discharges, for every command X, the finite obligation   forall id in IDS. phi_X(id) <=> owner(id) == X
    exhaustively, where `owner` is the documented rule-id prefix table below (spec side).
(3) c15-read-frame. Syntactic non-interference: no string constant in the package of linter R equals a configuration
    section name of another linter (so every constant metadata key R reads is one of its own section names or a
    non-section key such as `_project_root`), and metadata is never indexed with a key that is not a constant of the
    package."""
import ast
import glob
import json
import os
import subprocess
import sys
import types

from pyvc.api import custom

# ---- spec side: which rule ids belong to which command (docs/cli-reference.md, docs/<linter>-linter.md: every linter's
# ---- rule ids are `<linter>` or `<linter>.<kind>`)
COMMAND_PREFIX = {
    "nesting": "nesting", "srp": "srp", "dry": "dry", "magic-numbers": "magic-numbers", "stringly-typed": "stringly-typed",
    "improper-logging": "improper-logging", "print-statements": "improper-logging",  # deprecated alias of improper-logging
    "method-property": "method-property", "stateless-class": "stateless-class", "lazy-ignores": "lazy-ignores", "lbyl": "lbyl",
    "file-placement": "file-placement", "pipeline": "collection-pipeline", "file-header": "file-header",
    "perf": "performance", "unwrap-abuse": "unwrap-abuse", "clone-abuse": "clone-abuse", "blocking-async": "blocking-async",
}
COMMAND_EXACT = {  # commands that show one rule of the performance linter
    "string-concat-loop": "performance.string-concat-loop", "regex-in-loop": "performance.regex-in-loop",
}


def linter_of(rule_id):
    """The linter a rule id belongs to: the text before the first '.' (the whole id when there is none)."""
    return rule_id.split(".")[0]


def owns(command, rule_id):
    if command in COMMAND_EXACT:
        return rule_id == COMMAND_EXACT[command]
    return linter_of(rule_id) == COMMAND_PREFIX[command]


# ---- extraction -------------------------------------------------------------------------------------------------------
_DISCOVER = r"""
import json, os, sys
sys.path.insert(0, os.environ["VERIF_REPO"])
from src.core.registry import RuleRegistry
r = RuleRegistry()
r.discover_rules("src.linters")
print("IDS=" + json.dumps(sorted(x.rule_id for x in r.list_all())))
"""


def registered_rule_ids(repo):
    env = dict(os.environ, VERIF_REPO=repo)
    p = subprocess.run([sys.executable, "-c", _DISCOVER], capture_output=True, text=True, env=env, timeout=120, cwd=repo)
    for line in p.stdout.splitlines():
        if line.startswith("IDS="):
            return json.loads(line[4:])
    raise RuntimeError("rule discovery failed: " + (p.stderr or p.stdout)[-800:])


def constant_rule_ids(repo):
    """Every string constant passed as `rule_id=` (Violation(...), ViolationInfo(...), build_violation...(...))."""
    out = {}
    for base in ("src/linters", "src/core"):
        for path in sorted(glob.glob(os.path.join(repo, base, "**", "*.py"), recursive=True)):
            tree = ast.parse(open(path, encoding="utf-8").read())
            for n in ast.walk(tree):
                if isinstance(n, ast.Call):
                    for k in n.keywords:
                        if k.arg == "rule_id" and isinstance(k.value, ast.Constant) and isinstance(k.value.value, str):
                            out.setdefault(k.value.value, f"{os.path.relpath(path, repo)}:{k.value.lineno}")
    return out


def _cli_trees(repo):
    for path in sorted(glob.glob(os.path.join(repo, "src", "cli", "linters", "*.py"))):
        yield os.path.relpath(path, repo), ast.parse(open(path, encoding="utf-8").read())


def _filter_of(fn, funcs):
    """The condition of `[v for v in <all> if <cond>]` where <all> = execute_linting_on_paths(...): in fn itself or in the
    one `_run_*` helper it calls. Returns (cond ast, element name) or (None, reason)."""
    def own(f):
        src = None
        for n in ast.walk(f):
            if isinstance(n, ast.Assign) and isinstance(n.value, ast.Call) and ast.unparse(n.value.func) == "execute_linting_on_paths" \
                    and len(n.targets) == 1 and isinstance(n.targets[0], ast.Name):
                src = n.targets[0].id
        if src is None:
            return None
        comps = [n for n in ast.walk(f) if isinstance(n, ast.ListComp) and len(n.generators) == 1
                 and isinstance(n.generators[0].iter, ast.Name) and n.generators[0].iter.id == src]
        if len(comps) != 1:
            return (None, f"{f.name}: {len(comps)} comprehensions over the lint result")
        c = comps[0]
        g = c.generators[0]
        if not (isinstance(c.elt, ast.Name) and isinstance(g.target, ast.Name) and c.elt.id == g.target.id and len(g.ifs) == 1):
            return (None, f"{f.name}: the comprehension is not a pure filter `[v for v in all if cond]`")
        # everything else in f must only pass the filtered list on
        return (g.ifs[0], g.target.id)
    r = own(fn)
    if r is not None:
        return r
    helpers = [c for c in ast.walk(fn) if isinstance(c, ast.Call) and isinstance(c.func, ast.Name) and c.func.id.startswith("_run_")
               and c.func.id in funcs]
    if len(helpers) != 1:
        return (None, f"{fn.name}: calls {len(helpers)} _run_* helpers")
    r = own(funcs[helpers[0].func.id])
    return r if r is not None else (None, f"{helpers[0].func.id}: no filter over execute_linting_on_paths(...) found")


def command_filters(repo):
    """command name -> (predicate rule_id -> bool, source text) or (None, reason)."""
    out = {}
    for rel, tree in _cli_trees(repo):
        funcs = {f.name: f for f in tree.body if isinstance(f, ast.FunctionDef)}
        cmds = {}  # command name -> executor function name
        for n in ast.walk(tree):
            if isinstance(n, ast.Call) and ast.unparse(n.func) == "create_linter_command" and len(n.args) >= 2 \
                    and isinstance(n.args[0], ast.Constant) and isinstance(n.args[1], ast.Name):
                cmds[n.args[0].value] = n.args[1].id
        for f in tree.body:
            if isinstance(f, ast.FunctionDef):
                for d in f.decorator_list:
                    if isinstance(d, ast.Call) and ast.unparse(d.func) == "cli.command" and d.args \
                            and isinstance(d.args[0], ast.Constant):
                        ex = [c.func.id for c in ast.walk(f) if isinstance(c, ast.Call) and isinstance(c.func, ast.Name)
                              and c.func.id.startswith("_execute_") and c.func.id in funcs]
                        if len(ex) == 1:
                            cmds[d.args[0].value] = ex[0]
                        else:
                            out[d.args[0].value] = (None, f"{rel}::{f.name} calls {len(ex)} executors")
        for name, ex in cmds.items():
            if ex not in funcs:
                out[name] = (None, f"executor {ex} not defined in {rel}")
                continue
            cond, var = _filter_of(funcs[ex], funcs)
            if cond is None:
                out[name] = (None, var)
                continue
            code = compile(ast.Expression(body=cond), f"<filter of {name}>", "eval")
            out[name] = ((lambda code=code, var=var: lambda rid: bool(eval(code, {}, {var: types.SimpleNamespace(rule_id=rid)})))(),
                         ast.unparse(cond))
    return out


@custom("c15-filter-table", props=["C15"])
def c15_filter_table(ctx):
    repo = ctx["repo"]
    obs = []
    try:
        ids = {i: "registered rule" for i in registered_rule_ids(repo)}
    except Exception as e:  # noqa
        return [{"name": "c15-filter-table/rule-ids", "kind": "exhaustive", "verdict": "unknown", "solver": "registry", "ms": 0.0,
                 "note": f"cannot discover the rules: {e!r}"[:400]}]
    for i, where in constant_rule_ids(repo).items():
        ids.setdefault(i, where)
    obs.append({"name": "c15-filter-table/rule-ids", "kind": "exhaustive", "solver": "registry+ast", "ms": 0.0,
                "verdict": "discharged" if len(ids) >= 20 else "refuted", "note": f"{len(ids)} emittable rule ids extracted"})
    filters = command_filters(repo)
    expected = set(COMMAND_PREFIX) | set(COMMAND_EXACT)
    for cmd in sorted(expected | set(filters)):
        name = f"c15-filter-table/{cmd}"
        if cmd not in expected:
            obs.append({"name": name, "kind": "exhaustive", "verdict": "refuted", "solver": "exhaustive", "ms": 0.0,
                        "note": "a linter command that the documented ownership table does not know",
                        "model_inputs": {"command": cmd}})
            continue
        if cmd not in filters:
            obs.append({"name": name, "kind": "exhaustive", "verdict": "refuted", "solver": "exhaustive", "ms": 0.0,
                        "note": "documented command not found in src/cli/linters", "model_inputs": {"command": cmd}})
            continue
        pred, text = filters[cmd]
        if pred is None:
            obs.append({"name": name, "kind": "exhaustive", "verdict": "unknown", "solver": "exhaustive", "ms": 0.0,
                        "note": f"filter not extractable: {text}"})
            continue
        bad = []
        for rid in sorted(ids):
            try:
                got = pred(rid)
            except Exception as e:  # noqa
                bad.append({"rule_id": rid, "error": repr(e)})
                continue
            if got != owns(cmd, rid):
                bad.append({"rule_id": rid, "shown": got, "owned": owns(cmd, rid), "from": ids[rid]})
        own_n = sum(1 for rid in ids if owns(cmd, rid))
        if own_n == 0:
            bad.append({"error": "the command owns none of the emittable rule ids"})
        obs.append({"name": name, "kind": "exhaustive", "solver": "exhaustive", "ms": 0.0,
                    "verdict": "discharged" if not bad else "refuted",
                    "note": f"filter `{text}` over {len(ids)} ids ({own_n} owned)" + (f": {bad[:3]}" if bad else ""),
                    "model_inputs": {"command": cmd, "filter": text, "disagreements": bad} if bad else None,
                    "witness_confirmed": bool(bad)})
    return obs


# ---- (3) read frame ---------------------------------------------------------------------------------------------------
SECTION_NAMES = {  # linter package -> the configuration section names it may read (docs/configuration.md; both spellings)
    "nesting": {"nesting"}, "srp": {"srp"}, "dry": {"dry"}, "lbyl": {"lbyl"}, "cqs": {"cqs"},
    "magic_numbers": {"magic-numbers", "magic_numbers"},
    "print_statements": {"print-statements", "print_statements", "improper-logging", "improper_logging"},
    "method_property": {"method-property", "method_property"},
    "stateless_class": {"stateless-class", "stateless_class"},
    "lazy_ignores": {"lazy-ignores", "lazy_ignores"},
    "stringly_typed": {"stringly-typed", "stringly_typed"},
    "file_header": {"file-header", "file_header"},
    "file_placement": {"file-placement", "file_placement"},
    "performance": {"performance", "string-concat-loop", "string_concat_loop", "regex-in-loop", "regex_in_loop"},
    "collection_pipeline": {"collection-pipeline", "collection_pipeline", "pipeline"},
    "unwrap_abuse": {"unwrap-abuse", "unwrap_abuse"}, "clone_abuse": {"clone-abuse", "clone_abuse"},
    "blocking_async": {"blocking-async", "blocking_async"},
}


def _without_docstrings(tree):
    for n in ast.walk(tree):
        if isinstance(n, (ast.FunctionDef, ast.AsyncFunctionDef, ast.ClassDef, ast.Module)) and n.body \
                and isinstance(n.body[0], ast.Expr) and isinstance(n.body[0].value, ast.Constant) \
                and isinstance(n.body[0].value.value, str):
            n.body = n.body[1:] or [ast.Pass()]
    return tree


def _is_metadata(e):
    return (isinstance(e, ast.Attribute) and e.attr == "metadata") or (isinstance(e, ast.Name) and e.id == "metadata")


@custom("c15-read-frame", props=["C15"])
def c15_read_frame(ctx):
    repo = ctx["repo"]
    obs = []
    pkgs = sorted(d for d in os.listdir(os.path.join(repo, "src", "linters"))
                  if os.path.isdir(os.path.join(repo, "src", "linters", d)) and not d.startswith("__"))
    for pkg in pkgs:
        name = f"c15-read-frame/{pkg}"
        if pkg not in SECTION_NAMES:
            obs.append({"name": name, "kind": "syntactic", "verdict": "refuted", "solver": "ast", "ms": 0.0,
                        "note": "linter package without an entry in the documented section table",
                        "model_inputs": {"package": pkg}})
            continue
        foreign = set().union(*[v for k, v in SECTION_NAMES.items() if k != pkg]) - SECTION_NAMES[pkg]
        bad = []
        for path in sorted(glob.glob(os.path.join(repo, "src", "linters", pkg, "**", "*.py"), recursive=True)):
            tree = _without_docstrings(ast.parse(open(path, encoding="utf-8").read()))
            rel = os.path.relpath(path, repo)
            for n in ast.walk(tree):
                if isinstance(n, ast.Constant) and isinstance(n.value, str) and n.value in foreign:
                    bad.append(f"{rel}:{n.lineno}: the section name {n.value!r} of another linter")
                # metadata[<non-constant>] / metadata.get(<non-constant>) with a key that is not a plain local name
                # bound by iterating a constant tuple of this package
                if isinstance(n, ast.Subscript) and _is_metadata(n.value) and not isinstance(n.slice, (ast.Constant, ast.Name)):
                    bad.append(f"{rel}:{n.lineno}: metadata indexed with a computed key")
                if isinstance(n, ast.Call) and isinstance(n.func, ast.Attribute) and n.func.attr == "get" and _is_metadata(n.func.value) \
                        and n.args and not isinstance(n.args[0], (ast.Constant, ast.Name)):
                    bad.append(f"{rel}:{n.lineno}: metadata.get with a computed key")
        obs.append({"name": name, "kind": "syntactic", "solver": "ast", "ms": 0.0, "verdict": "discharged" if not bad else "refuted",
                    "note": "; ".join(bad[:4]), "model_inputs": {"package": pkg, "reads": bad} if bad else None,
                    "witness_confirmed": bool(bad)})
    return obs


# ---- (2b) every language-specific rule sits behind a proved or recognisable language guard ----------------------------
_CLASSES = r"""
import json, os, sys, inspect
sys.path.insert(0, os.environ["VERIF_REPO"])
from src.core.registry import RuleRegistry
from src.core.base import MultiLanguageLintRule
from src.core.python_lint_rule import PythonOnlyLintRule
r = RuleRegistry()
r.discover_rules("src.linters")
out = []
for x in r.list_all():
    c = type(x)
    out.append({"rule_id": x.rule_id, "cls": c.__name__, "file": os.path.relpath(inspect.getsourcefile(c), os.environ["VERIF_REPO"]),
                "template": "python-only" if isinstance(x, PythonOnlyLintRule) else "multi" if isinstance(x, MultiLanguageLintRule) else None,
                "own": [m for m in ("check", "_dispatch_by_language", "_should_analyze", "_check_rust") if m in c.__dict__]})
print("RULES=" + json.dumps(out))
"""
# documented single-language rules with their own check() (docs/<linter>-linter.md "Language support")
GUARDED = {"blocking-async": "rust", "clone-abuse": "rust", "unwrap-abuse": "rust",
           "collection-pipeline.embedded-filter": "python", "improper-logging.conditional-verbose": "python",
           "stateless-class.violation": "python"}
# rules whose check() itself starts with `if context.language != L: return []`
INLINE_GUARDED = {"lazy-ignores": "python"}
# rules that leave the language choice to a dispatch helper: (file, class, method, documented languages). The helper must
# be a pure dispatch: `if language <test on documented languages>: return <analysis>` ... and a final `return []`
DELEGATED = {"dry.duplicate-code": ("src/linters/dry/file_analyzer.py", "FileAnalyzer", "analyze",
                                    {"python", "typescript", "javascript"})}
# documented as applying to several file types (not "language-specific linters" in the sense of the property)
MULTI_FILE_TYPE = {"file-header.validation", "file-placement"}


def _lang_consts(test):
    """The language constants a dispatch test compares `language` / `context.language` with (None: not such a test)."""
    def const(e):
        if isinstance(e, ast.Constant) and isinstance(e.value, str):
            return e.value
        if isinstance(e, ast.Attribute) and isinstance(e.value, ast.Name) and e.value.id == "Language":
            return e.attr.lower()
        return None
    if not (isinstance(test, ast.Compare) and ast.unparse(test.left) in ("language", "context.language") and len(test.ops) == 1):
        return None
    c = test.comparators[0]
    if isinstance(test.ops[0], ast.Eq):
        return {const(c)} if const(c) else None
    if isinstance(test.ops[0], ast.In) and isinstance(c, (ast.Tuple, ast.List, ast.Set)):
        vals = {const(x) for x in c.elts}
        return None if None in vals else vals
    return None


def _dispatch_shape(fn, documented):
    """None if fn is a pure language dispatch onto the documented languages, else the reason."""
    body = [st for st in fn.body if not (isinstance(st, ast.Expr) and isinstance(st.value, ast.Constant))]
    if not body or not (isinstance(body[-1], ast.Return) and ast.unparse(body[-1].value) == "[]"):
        return "the dispatch does not end in `return []` (languages it does not name fall through to an analysis)"
    seen = set()
    for st in body[:-1]:
        if not (isinstance(st, ast.If) and not st.orelse and len(st.body) == 1 and isinstance(st.body[0], ast.Return)):
            return f"line {st.lineno}: not of the form `if <language test>: return <analysis>`"
        langs = _lang_consts(st.test)
        if langs is None:
            return f"line {st.lineno}: the test is not a comparison of the language with constants"
        if ast.unparse(st.body[0].value) == "[]":
            continue
        if not langs <= documented:
            return f"line {st.lineno}: analyses {sorted(langs - documented)}, documented: {sorted(documented)}"
        seen |= langs
    if seen != documented:
        return f"analyses {sorted(seen)}, documented: {sorted(documented)}"
    return None


def _inline_guard_language(chk):
    """check() starts with `if context.language != L: return []`."""
    for st in chk.body:
        if isinstance(st, ast.Expr) and isinstance(st.value, ast.Constant):
            continue
        if isinstance(st, ast.If) and isinstance(st.test, ast.Compare) and ast.unparse(st.test.left) == "context.language" \
                and len(st.test.ops) == 1 and isinstance(st.test.ops[0], ast.NotEq) and len(st.body) == 1 \
                and isinstance(st.body[0], ast.Return) and ast.unparse(st.body[0].value) == "[]":
            c = st.test.comparators[0]
            if isinstance(c, ast.Constant):
                return c.value
            if isinstance(c, ast.Attribute) and isinstance(c.value, ast.Name) and c.value.id == "Language":
                return c.attr.lower()
        return None
    return None


def _method(tree, cls, name):
    for c in tree.body:
        if isinstance(c, ast.ClassDef) and c.name == cls:
            for f in c.body:
                if isinstance(f, ast.FunctionDef) and f.name == name:
                    return f
    return None


def _guard_language(sa):
    """The single language `_should_analyze` insists on: `return context.language == L and ...` or
    `if context.language != L: return False` as a top-level statement; None when not of that form."""
    def const(e):
        if isinstance(e, ast.Constant) and isinstance(e.value, str):
            return e.value
        if isinstance(e, ast.Attribute) and isinstance(e.value, ast.Name) and e.value.id == "Language":
            return e.attr.lower()
        return None
    for st in sa.body:
        if isinstance(st, ast.If) and isinstance(st.test, ast.Compare) and ast.unparse(st.test.left) == "context.language" \
                and len(st.test.ops) == 1 and isinstance(st.test.ops[0], ast.NotEq) and len(st.body) == 1 \
                and isinstance(st.body[0], ast.Return) and ast.unparse(st.body[0].value) == "False":
            return const(st.test.comparators[0])
        if isinstance(st, ast.Return) and isinstance(st.value, ast.BoolOp) and isinstance(st.value.op, ast.And):
            t = st.value.values[0]
            if isinstance(t, ast.Compare) and ast.unparse(t.left) == "context.language" and len(t.ops) == 1 \
                    and isinstance(t.ops[0], ast.Eq):
                return const(t.comparators[0])
    return None


def _check_is_guarded(chk):
    """check() returns [] unless self._should_analyze(context[, config]) -- before doing any analysis: every top-level
    statement before the guard is an assignment from a self._get_config / self._load_config call."""
    for st in chk.body:
        if isinstance(st, ast.Expr) and isinstance(st.value, ast.Constant):
            continue
        if isinstance(st, ast.If) and isinstance(st.test, ast.UnaryOp) and isinstance(st.test.op, ast.Not) \
                and isinstance(st.test.operand, ast.Call) and ast.unparse(st.test.operand.func) == "self._should_analyze" \
                and len(st.body) == 1 and isinstance(st.body[0], ast.Return) and ast.unparse(st.body[0].value) == "[]":
            return True
        if isinstance(st, ast.Assign) and isinstance(st.value, ast.Call) \
                and ast.unparse(st.value.func) in ("self._get_config", "self._load_config"):
            continue
        return False
    return False


@custom("c15-language-guards", props=["C15"])
def c15_language_guards(ctx):
    """Every registered rule is either an instance of a template whose check() is proved to yield nothing on other
    languages (MultiLanguageLintRule / PythonOnlyLintRule, contracts/c15_language.py) without overriding it, or its own
    check() starts with the `_should_analyze` guard on the documented language, or it is a documented multi-file-type rule."""
    repo = ctx["repo"]
    p = subprocess.run([sys.executable, "-c", _CLASSES], capture_output=True, text=True, env=dict(os.environ, VERIF_REPO=repo),
                       timeout=120, cwd=repo)
    rules = None
    for line in p.stdout.splitlines():
        if line.startswith("RULES="):
            rules = json.loads(line[6:])
    if rules is None:
        return [{"name": "c15-language-guards/rules", "kind": "syntactic", "verdict": "unknown", "solver": "registry", "ms": 0.0,
                 "note": ("rule discovery failed: " + (p.stderr or p.stdout)[-400:])}]
    base = ast.parse(open(os.path.join(repo, "src", "core", "base.py"), encoding="utf-8").read())
    base_dispatch = _method(_without_docstrings(base), "MultiLanguageLintRule", "_dispatch_by_language")
    obs = []
    for r in rules:
        name, why, note = f"c15-language-guards/{r['rule_id']}", None, ""
        tree = _without_docstrings(ast.parse(open(os.path.join(repo, r["file"]), encoding="utf-8").read()))
        if r["template"] and "check" not in r["own"] and "_dispatch_by_language" not in r["own"]:
            note = f"{r['template']} template, check() inherited (proved)"
        elif r["template"] == "multi" and {"check", "_dispatch_by_language"} <= set(r["own"]):
            own_d, own_c = _method(tree, r["cls"], "_dispatch_by_language"), _method(tree, r["cls"], "check")
            if ast.dump(ast.Module(body=own_d.body, type_ignores=[])) != ast.dump(ast.Module(body=base_dispatch.body, type_ignores=[])):
                why = "own _dispatch_by_language differs from the proved template"
            else:
                rets = [n for n in ast.walk(own_c) if isinstance(n, ast.Return)]
                ok = all(ast.unparse(n.value) in ("[]", "self._dispatch_by_language(context, config)") for n in rets) \
                    and ast.unparse(own_c.body[-1]) == "return self._dispatch_by_language(context, config)"
                why = None if ok else "own check() does not end in the template dispatch"
                note = "own check()/dispatch identical to the proved template"
        elif r["rule_id"] in GUARDED:
            chk, sa = _method(tree, r["cls"], "check"), _method(tree, r["cls"], "_should_analyze")
            if chk is None or sa is None:
                why = "no check()/_should_analyze() of its own"
            elif not _check_is_guarded(chk):
                why = "check() does not start with `if not self._should_analyze(...): return []`"
            elif _guard_language(sa) != GUARDED[r["rule_id"]]:
                why = f"_should_analyze insists on {_guard_language(sa)!r}, documented: {GUARDED[r['rule_id']]!r}"
            else:
                note = f"guarded by _should_analyze: {GUARDED[r['rule_id']]} only"
        elif r["rule_id"] in INLINE_GUARDED:
            chk = _method(tree, r["cls"], "check")
            got = _inline_guard_language(chk) if chk is not None else None
            if got != INLINE_GUARDED[r["rule_id"]]:
                why = f"check() does not start with `if context.language != {INLINE_GUARDED[r['rule_id']]}: return []` (found {got!r})"
            else:
                note = f"check() guarded inline: {got} only (and proved: contracts/c15_language.py)"
        elif r["rule_id"] in DELEGATED:
            dfile, dcls, dmeth, documented = DELEGATED[r["rule_id"]]
            dtree = _without_docstrings(ast.parse(open(os.path.join(repo, dfile), encoding="utf-8").read()))
            fn = _method(dtree, dcls, dmeth)
            why = f"dispatch helper {dcls}.{dmeth} not found" if fn is None else _dispatch_shape(fn, documented)
            note = f"language choice delegated to {dcls}.{dmeth}: pure dispatch onto {sorted(documented)} (and proved: analyze~c15)"
        elif r["rule_id"] in MULTI_FILE_TYPE:
            note = "documented multi-file-type rule (not restricted to one language)"
        else:
            why = "rule with its own check() that the documented language table does not know"
        obs.append({"name": name, "kind": "syntactic", "solver": "ast", "ms": 0.0, "verdict": "discharged" if why is None else "refuted",
                    "note": why or note, "model_inputs": {"rule": r, "reason": why} if why else None, "witness_confirmed": bool(why)})
    return obs


# ---- (2c) bounded native check: the language of a file is decided by that file alone -----------------------------------
_PER_FILE = r'''
import json, os, sys, tempfile, shutil, logging, itertools
sys.path.insert(0, os.environ["VERIF_REPO"])
logging.disable(logging.CRITICAL)
from pathlib import Path
from src.orchestrator.core import Orchestrator

PY = "def f(x):\n    return x * 4711 + 1234\n"
TS = "export function f(x: number): number {\n  return x * 4711 + 1234;\n}\n"
# name -> (content, language the property assigns: by extension, case-insensitively; extensionless: python shebang)
FILES = {
    "a.py": (PY, "python"), "B.PY": (PY, "python"), "c.ts": (TS, "typescript"), "d.JS": (TS.replace(": number", ""), "javascript"),
    "script": ("#!/usr/bin/env python3\n" + PY, "python"),          # extensionless script with a python shebang
    "Tiltfile": (PY, None),                                         # extensionless, python-looking, NO shebang: unknown
    "run": ("#!/bin/sh\necho 4711 1234\n", None),                   # extensionless, other shebang: unknown
    "notes.txt": (PY, None), "data.csv": ("4711,1234\n", None),     # unrecognised extensions
}

def per_file(vs):
    out = {}
    for v in vs:
        if v.rule_id.startswith(("dry.", "stringly-typed")):
            continue  # cross-file rules
        out.setdefault(Path(v.file_path).name, []).append(json.dumps(v.to_dict(), sort_keys=True, default=str))
    return {k: sorted(x) for k, x in out.items()}

def fresh(root):
    o = Orchestrator(project_root=root)
    o.config = {}
    return o

bad, n = [], 0
tmp = Path(tempfile.mkdtemp(prefix="c15lang_"))
try:
    (tmp / ".git").mkdir()
    for name, (content, _) in FILES.items():
        (tmp / name).write_text(content, encoding="utf-8")
    alone = {name: per_file(fresh(tmp).lint_files([tmp / name])).get(name, []) for name in FILES}
    for name, (_, lang) in FILES.items():
        n += 1
        src = [json.loads(x)["rule_id"] for x in alone[name] if json.loads(x)["rule_id"].startswith("magic-numbers")]
        if lang is None and src:
            bad.append({"file": name, "problem": "unrecognised file type yields source-analysis violations", "rules": src})
        if lang is not None and not src:
            bad.append({"file": name, "problem": f"{lang} file was not analysed (no magic-number finding)"})
    for x, y in itertools.permutations(FILES, 2):
        n += 1
        got = per_file(fresh(tmp).lint_files([tmp / x, tmp / y]))
        for name in (x, y):
            if got.get(name, []) != alone[name]:
                bad.append({"order": [x, y], "file": name, "alone": len(alone[name]), "in_run": len(got.get(name, [])),
                            "problem": "findings of a file depend on the other file of the run"})
    # reuse: ONE orchestrator object, one file per call, in both orders (a long-lived Linter / library use)
    for x, y in (("script", "Tiltfile"), ("Tiltfile", "script"), ("a.py", "notes.txt"), ("run", "script")):
        n += 1
        o = fresh(tmp)
        first = per_file(o.lint_files([tmp / x])).get(x, [])
        second = per_file(o.lint_files([tmp / y])).get(y, [])
        if first != alone[x] or second != alone[y]:
            bad.append({"calls": [x, y], "problem": "findings of a file depend on an earlier call on the same orchestrator",
                        "alone": [len(alone[x]), len(alone[y])], "got": [len(first), len(second)]})
    # recognised languages that a linter does not support: duplicated brace-style code in Go / Java / Rust files, with
    # the (cross-file) DRY linter switched on -- DRY is documented for Python, TypeScript and JavaScript only; Go and Java
    # have no source-analysis linter at all
    block = "".join(f"    total_{i} = compute_value(input_{i}, {i}) + offset_{i};\n" for i in range(6))
    other = {}
    for ext in ("go", "java", "rs"):
        for k in (1, 2):
            other[f"dup{k}.{ext}"] = "fn f" + str(k) + "() {\n" + block + "}\n"
    for name, content in other.items():
        (tmp / name).write_text(content, encoding="utf-8")
    o = Orchestrator(project_root=tmp)
    o.config = {"dry": {"enabled": True, "min_duplicate_lines": 3, "cache_enabled": False, "storage_mode": "memory"}}
    for v in o.lint_files([tmp / name for name in other]):
        n += 1
        ext = Path(v.file_path).suffix
        file_level = v.rule_id.startswith(("file-header", "file-placement"))
        if (ext in (".go", ".java") and not file_level) or (ext == ".rs" and v.rule_id.startswith("dry.")):
            bad.append({"file": Path(v.file_path).name, "rule": v.rule_id, "problem": "a linter reports on a language it does not support"})
    # "running or configuring other linters never changes X's findings": an ILL-TYPED value in the section of one linter
    # (its rule then fails or misbehaves on its own) must leave the findings of every OTHER linter on the same file
    # exactly as they are with a clean configuration
    busy = tmp / "busy.py"
    busy.write_text("import re\n\n\ndef busy(items, limit):\n    out = ''\n    print('busy', limit)\n    for item in items:\n"
                    "        if item:\n            for part in item:\n                if part > 4711:\n                    while limit:\n"
                    "                        if limit > 1234:\n                            return part * 5678\n                        limit -= 1\n"
                    "        out += str(item)\n        if re.match('a+', out):\n            continue\n    return out\n", encoding="utf-8")
    def by_linter(cfg):
        o = Orchestrator(project_root=tmp)
        o.config = cfg
        out = {}
        for v in o.lint_files([busy]):
            if not v.rule_id.startswith(("dry.", "stringly-typed")):
                out.setdefault(v.rule_id.split(".")[0], []).append(json.dumps(v.to_dict(), sort_keys=True, default=str))
        return {k: sorted(x) for k, x in out.items()}
    clean = by_linter({})
    if len(clean) < 4:
        bad.append({"problem": f"the probe file triggers only {sorted(clean)}"})
    ILL_TYPED = {"magic-numbers": {"allowed_numbers": 5}, "nesting": {"max_nesting_depth": "deep"}, "srp": {"max_methods": "many"},
                 "file-header": {"ignore": 5}, "improper-logging": {"ignore": 7}, "performance": {"enabled": []},
                 "method-property": {"max_body_statements": "few"}, "lbyl": {"enabled": {}}, "cqs": {"ignore_methods": 3},
                 "stateless-class": {"min_methods": "two"}, "collection-pipeline": {"min_continues": "one"},
                 "lazy-ignores": {"enabled": "?"}, "file-placement": {"directories": 3}}
    for section, value in ILL_TYPED.items():
        n += 1
        try:
            got = by_linter({section: value})
        except ValueError:
            continue  # the linter REJECTS the value: a configuration error ends the run (exit 2), by design
        except Exception as e:  # noqa
            bad.append({"section": section, "value": value, "problem": f"an ill-typed value in one section aborts the whole run: {e!r}"[:200]})
            continue
        owner = {"improper-logging": "improper-logging", "performance": "performance"}.get(section, section)
        for linter in sorted(set(clean) | set(got)):
            if linter != owner and got.get(linter, []) != clean.get(linter, []):
                bad.append({"section": section, "value": value, "linter": linter, "clean": len(clean.get(linter, [])),
                            "now": len(got.get(linter, [])), "problem": "another linter's section changes this linter's findings"})
    # EVERY linter command on a directory that holds only files of unrecognised types (prose with temporal wording, data,
    # shell / stylesheet / build files, python-looking text without a python extension or shebang): no command may report
    # anything -- at the observation point of the property (CLI, --format json, exit code)
    from click.testing import CliRunner
    from src.cli.main import cli
    import src.cli.linters  # noqa: F401  (registers the commands)
    udir = tmp / "unknown_types"
    udir.mkdir()
    prose = "Currently this was updated on 2024-01-01 and will soon be replaced.\n"
    for name, content in {"README.md": "# Title\n" + prose, "NOTES.MD": prose, "deploy.sh": "echo 4711 1234\n" + "# " + prose,
                          "site.css": "a { margin: 4711px; }\n/* " + prose + " */\n", "notes.txt": PY, "data.csv": "4711,1234\n",
                          "Makefile": "all:\n\techo 4711\n", "Tiltfile": PY, "model.rb": "def f(x)\n  x * 4711 + 1234\nend\n"}.items():
        (udir / name).write_text(content, encoding="utf-8")
    commands = sorted(name for name, cmd in cli.commands.items()
                      if any(getattr(p, "name", "") == "format" for p in cmd.params) and any(getattr(p, "name", "") == "paths" for p in cmd.params))
    for name in commands:
        n += 1
        r = CliRunner().invoke(cli, [name, "--format", "json", str(udir)])
        try:
            doc = json.loads(r.output[r.output.index("{"):])
            shown = sorted({v["rule_id"] + " on " + Path(v["file_path"]).name for v in doc["violations"]})
        except Exception as e:  # noqa
            shown = [f"unreadable output: {r.output[-200:]!r}"]
        if r.exit_code != 0 or shown:
            bad.append({"command": name, "exit": r.exit_code, "reports": shown[:6],
                        "problem": "a command reports on files of unrecognised type"})
    if len(commands) < 15:
        bad.append({"problem": f"only {len(commands)} linter commands found"})
finally:
    shutil.rmtree(tmp, ignore_errors=True)
print("RESULT=" + json.dumps({"cases": n, "bad": bad[:20]}))
'''


@custom("c15-language-per-file-bounded", props=["C15"])
def c15_language_per_file(ctx):
    """BOUNDED NATIVE CHECK (not a proof; listed under `bounded`). Property text: "A file is analysed as Python,
    TypeScript, JavaScript or Rust according to ITS extension (case-insensitively; extensionless scripts by a python
    shebang) ... a file of an unrecognised type yields no source-analysis violation." On the real Orchestrator.lint_files:
    9 file kinds (known extensions in both cases, extensionless with python / other / no shebang, unrecognised
    extensions); every file alone gets the documented treatment, and in every ordered pair of files each file's
    per-file findings are exactly those it gets alone (language detection has no memory across files); duplicated code
    in Go / Java / Rust files gets no finding from linters that do not support those languages; and every linter command
    of the CLI, run on a directory of 9 files of unrecognised types, reports nothing and exits 0; an ill-typed value in
    the configuration section of one linter (13 sections) leaves every other linter's findings on a probe file
    unchanged (non-interference: Orchestrator._execute_rules contains a failing rule). The symbolic
    counterpart is the contract of Orchestrator.lint_file (contracts/c10_orchestrator.py: language == detect_language_spec
    of that file) together with detect_language (contracts/c15_language.py)."""
    import time
    t0 = time.time()
    p = subprocess.run([sys.executable, "-c", _PER_FILE], capture_output=True, text=True, timeout=900,
                       env=dict(os.environ, VERIF_REPO=ctx["repo"], PYTHONWARNINGS="ignore"), cwd="/tmp")
    res = None
    for line in p.stdout.splitlines():
        if line.startswith("RESULT="):
            res = json.loads(line[7:])
    name = "c15-language-per-file-bounded"
    if res is None:
        return [{"name": name, "kind": "bounded", "verdict": "refuted", "tool": "cpython differential", "budget": "-", "cases": 0,
                 "note": "the differential run failed: " + (p.stderr or p.stdout)[-600:], "witness_confirmed": True,
                 "model_inputs": {"stderr": (p.stderr or "")[-1500:]}, "ms": round((time.time() - t0) * 1000)}]
    bad = res["bad"]
    return [{"name": name, "kind": "bounded", "verdict": "passed" if not bad else "refuted", "tool": "cpython differential",
             "budget": "9 file kinds alone + all 72 ordered pairs; duplicated Go/Java/Rust files with DRY on; every linter command on 9 unknown-type files; 13 ill-typed sections of other linters", "cases": res["cases"],
             "note": "" if not bad else f"{bad[:2]}", "witness_confirmed": bool(bad),
             "model_inputs": {"disagreements": bad} if bad else None, "ms": round((time.time() - t0) * 1000)}]
