"""C15 (part 2) -- language detection and language dispatch.

Property text: "A file is analysed as Python, TypeScript, JavaScript or Rust according to its extension
(case-insensitively; extensionless scripts by a python shebang); language-specific linters never report on a file of
another language, and a file of an unrecognised type yields no source-analysis violation."

File-system reads are trusted externals: fs_exists / fs_size / fs_text are one uninterpreted snapshot of the file
system per verification unit; reading may fail (OSError when not fs_io_ok, UnicodeDecodeError when not fs_utf8_ok)."""
import pathlib as _pl

import z3

from pyvc.api import contract, lemma, Int, Bool, Str, Opt, SeqOf, Rec, Any, implies, call, uf
from pyvc.ex_call import EXTERNALS
from pyvc.run import RaiseSig
from pyvc.ty import VExc, VInt, VRec, VStr
from contracts._common import PathT, path_name
from contracts.c09_paths import name_suffix, fs_exists

LD = "src/orchestrator/language_detector.py::"
BASE = "src/core/base.py::"
PYR = "src/core/python_lint_rule.py::"

# documented table (docs/index.md "Language support" / module docstring): extension -> language
EXTENSIONS = {".py": "python", ".js": "javascript", ".ts": "typescript", ".tsx": "typescript", ".jsx": "javascript",
              ".java": "java", ".go": "go", ".rs": "rust"}


def _native_text(p):
    return _pl.Path(p).read_text(encoding="utf-8")


def _native_io_ok(p):
    try:
        _pl.Path(p).read_bytes()
        return True
    except OSError:
        return False


def _native_utf8_ok(p):
    try:
        _pl.Path(p).read_bytes().decode("utf-8")
        return True
    except (OSError, UnicodeDecodeError):
        return False


fs_size = uf("fs_size", [PathT], Int, concrete=lambda p: _pl.Path(p).stat().st_size)
fs_text = uf("fs_text", [PathT], Str, concrete=_native_text)
fs_io_ok = uf("fs_io_ok", [PathT], Bool, concrete=_native_io_ok)
fs_utf8_ok = uf("fs_utf8_ok", [PathT], Bool, concrete=_native_utf8_ok)

_S = z3.StringSort()


def _x_stat(ex, args, kwargs, lineno):
    """p.stat(): only st_size is modelled (>= 0); the path must exist (else OSError -- a safety obligation)."""
    p = args[0].t
    ex.safety(z3.Function("uf.fs_exists", PathT.sort(), z3.BoolSort())(p), "stat() of a path not known to exist", lineno)
    size = z3.Function("uf.fs_size", PathT.sort(), z3.IntSort())(p)
    ex.ufs_used.add("fs_size")
    ex.assume(size >= 0)
    return VRec(Rec("stat_result", st_size=Int), {"st_size": VInt(size)})


def _x_read_text(ex, args, kwargs, lineno):
    """p.read_text(encoding="utf-8"): OSError unless fs_io_ok(p), UnicodeDecodeError unless fs_utf8_ok(p)."""
    p = args[0].t
    if not ex.decide(z3.Function("uf.fs_io_ok", PathT.sort(), z3.BoolSort())(p)):
        raise RaiseSig(VExc("OSError"))
    if not ex.decide(z3.Function("uf.fs_utf8_ok", PathT.sort(), z3.BoolSort())(p)):
        raise RaiseSig(VExc("UnicodeDecodeError"))
    ex.ufs_used.update({"fs_io_ok", "fs_utf8_ok", "fs_text"})
    return VStr(z3.Function("uf.fs_text", PathT.sort(), _S)(p))


EXTERNALS.setdefault("Path.stat", _x_stat)
EXTERNALS.setdefault("Path.read_text", _x_read_text)


# ------------------------------------------------------------------------------------------ specification
def shebang_says_python(file_path):
    """The file is readable as UTF-8 and its first line is a shebang naming python."""
    return fs_io_ok(file_path) and fs_utf8_ok(file_path) \
        and fs_text(file_path).split("\n")[0].startswith("#!") and "python" in fs_text(file_path).split("\n")[0]


def detect_language_spec(file_path):
    """Property text: by extension, case-insensitively; otherwise (no / unknown extension) a non-empty existing file
    whose first line is a python shebang is Python; everything else is "unknown"."""
    return EXTENSIONS.get(name_suffix(path_name(file_path)).lower(), "unknown") \
        if name_suffix(path_name(file_path)).lower() in EXTENSIONS \
        else ("python" if fs_exists(file_path) and fs_size(file_path) > 0 and shebang_says_python(file_path) else "unknown")


# ------------------------------------------------------------------------------------------ language_detector.py
@contract(LD + "_parse_shebang_language", props=["C15", "C11"], types=dict(line=Str), returns=Opt(Str))
class ParseShebangLanguage:
    def value(line):
        return "python" if line.startswith("#!") and "python" in line else None


@contract(LD + "_read_first_line", props=["C15", "C11"], types=dict(file_path=PathT), returns=Str,
          raises=["OSError", "UnicodeDecodeError"])
class ReadFirstLine:
    def raises_when(file_path):
        return not (fs_io_ok(file_path) and fs_utf8_ok(file_path))

    def value(file_path):
        return fs_text(file_path).split("\n")[0]


@contract(LD + "_detect_from_shebang", props=["C15", "C11"], types=dict(file_path=PathT), returns=Opt(Str))
class DetectFromShebang:
    def value(file_path):
        return "python" if shebang_says_python(file_path) else None


@contract(LD + "detect_language", props=["C15", "C11", "C10", "C14", "C08"], types=dict(file_path=PathT), returns=Str)
class DetectLanguage:
    def value(file_path):
        return detect_language_spec(file_path)

    def ensures_known_extension_wins(file_path, result):
        # the shebang is consulted only when the (lower-cased) extension is not in the table
        return implies(name_suffix(path_name(file_path)).lower() in EXTENSIONS,
                       result == EXTENSIONS.get(name_suffix(path_name(file_path)).lower(), "unknown"))

    def ensures_only_documented_languages(file_path, result):
        return result in ("python", "javascript", "typescript", "java", "go", "rust", "unknown")


# ------------------------------------------------------------------------------------------ language dispatch
from contracts._common import ViolationT  # noqa: E402

CtxT = Rec("LintContext", cls=BASE + "BaseLintContext", file_path=Opt(PathT), file_content=Opt(Str), language=Str)
CfgT = Rec("LinterConfig", enabled=Bool, key=Int)  # `key`: ghost identity of the configuration object
MLRuleT = Rec("MultiLanguageLintRule", cls=BASE + "MultiLanguageLintRule", key=Int)  # `key`: ghost identity of the rule
ABSTRACT = "abstract method: the language-specific analysis of a concrete rule (dynamic dispatch); the interface " \
           "contract records ON WHICH LANGUAGES it may be invoked -- that precondition is what the dispatcher must establish"


@contract(BASE + "MultiLanguageLintRule._load_config", props=["C15"], types=dict(self=MLRuleT, context=CtxT), returns=CfgT,
          assumed="abstract method: configuration loading of a concrete rule (C05 covers the concrete loaders)")
class MLLoadConfig:
    def ensures(result):
        return True


@contract(BASE + "MultiLanguageLintRule._check_python", props=["C15"], types=dict(self=MLRuleT, context=CtxT, config=CfgT),
          returns=SeqOf(ViolationT), assumed=ABSTRACT)
class MLCheckPython:
    def requires(context):
        return context.language == "python" and context.file_content is not None


@contract(BASE + "MultiLanguageLintRule._check_typescript", props=["C15"], types=dict(self=MLRuleT, context=CtxT, config=CfgT),
          returns=SeqOf(ViolationT), assumed=ABSTRACT)
class MLCheckTypeScript:
    def requires(context):
        return context.language in ("typescript", "javascript") and context.file_content is not None


@contract(BASE + "MultiLanguageLintRule._check_rust", props=["C15"], types=dict(self=MLRuleT, context=CtxT, config=CfgT),
          returns=SeqOf(ViolationT), assumed=ABSTRACT + " (the base implementation returns [])")
class MLCheckRust:
    def requires(context):
        return context.language == "rust" and context.file_content is not None


@contract(BASE + "MultiLanguageLintRule._dispatch_by_language", props=["C15"],
          types=dict(self=MLRuleT, context=CtxT, config=CfgT), returns=SeqOf(ViolationT))
class MLDispatch:
    def requires(context):
        return context.file_content is not None

    def ensures_other_languages_yield_nothing(context, result):
        # property text: "a file of an unrecognised type yields no source-analysis violation"
        return implies(context.language not in ("python", "typescript", "javascript", "rust"), len(result) == 0)


@contract(BASE + "MultiLanguageLintRule.check", props=["C15"], types=dict(self=MLRuleT, context=CtxT, config=CfgT),
          returns=SeqOf(ViolationT), inline=["has_file_content"])
class MLCheck:
    def ensures_other_languages_yield_nothing(context, result):
        return implies(context.language not in ("python", "typescript", "javascript", "rust"), len(result) == 0)

    def ensures_no_content_no_violation(context, result):
        return implies(context.file_content is None, len(result) == 0)


# ------------------------------------------------------------------------------------------ Python-only rules
PyRuleT = Rec("PythonOnlyLintRule", cls=PYR + "PythonOnlyLintRule", _config_override=Opt(CfgT), key=Int)


@contract(PYR + "PythonOnlyLintRule._should_analyze", props=["C15"], types=dict(self=PyRuleT, context=CtxT), returns=Bool,
          inline=["has_file_content"])
class PySHouldAnalyze:
    def value(context):
        return context.language == "python" and context.file_content is not None


@contract(PYR + "PythonOnlyLintRule._get_config", props=["C15"], types=dict(self=PyRuleT, context=CtxT), returns=CfgT,
          assumed="configuration loading (override or load_linter_config with the subclass's abstract key/class): C05")
class PyGetConfig:
    def ensures(result):
        return True


@contract(PYR + "PythonOnlyLintRule._is_enabled", props=["C15"], types=dict(self=PyRuleT, config=CfgT), returns=Bool)
class PyIsEnabled:
    def value(config):
        return config.enabled


@contract(PYR + "PythonOnlyLintRule._analyze", props=["C15"], types=dict(self=PyRuleT, code=Str, file_path=Str, config=CfgT),
          returns=SeqOf(ViolationT), assumed="abstract method: the analysis of a concrete Python-only rule")
class PyAnalyze:
    def ensures(result):
        return True


@contract(PYR + "PythonOnlyLintRule.check", props=["C15"], types=dict(self=PyRuleT, context=CtxT, config=CfgT),
          returns=SeqOf(ViolationT))
class PyCheck:
    def ensures_python_only(context, result):
        # property text: "language-specific linters never report on a file of another language"
        return implies(context.language != "python", len(result) == 0)

    def ensures_no_content_no_violation(context, result):
        return implies(context.file_content is None, len(result) == 0)
