"""C15 (part 2) -- language detection and language dispatch.

Property text: "A file is analysed as Python, TypeScript, JavaScript or Rust according to its extension
(case-insensitively; extensionless scripts by a python shebang); language-specific linters never report on a file of
another language, and a file of an unrecognised type yields no source-analysis violation."

File-system reads are trusted externals: fs_exists / fs_size / fs_text are one uninterpreted snapshot of the file
system per verification unit; reading may fail (OSError when not fs_io_ok, UnicodeDecodeError when not fs_utf8_ok)."""
import pathlib as _pl

import z3

from pyvc.api import contract, lemma, Int, Bool, Str, Opt, SeqOf, Rec, Any, implies, call, uf
from pyvc.ex_call import EXTERNALS
from pyvc.run import RaiseSig
from pyvc.ty import VExc, VInt, VRec, VStr
from contracts._common import PathT, path_name
from contracts.c09_paths import name_suffix, fs_exists

LD = "src/orchestrator/language_detector.py::"
BASE = "src/core/base.py::"
PYR = "src/core/python_lint_rule.py::"

# documented table (docs/index.md "Language support" / module docstring): extension -> language
EXTENSIONS = {".py": "python", ".js": "javascript", ".ts": "typescript", ".tsx": "typescript", ".jsx": "javascript",
              ".java": "java", ".go": "go", ".rs": "rust"}


def _native_text(p):
    return _pl.Path(p).read_text(encoding="utf-8")


def _native_io_ok(p):
    try:
        _pl.Path(p).read_bytes()
        return True
    except OSError:
        return False


def _native_utf8_ok(p):
    try:
        _pl.Path(p).read_bytes().decode("utf-8")
        return True
    except (OSError, UnicodeDecodeError):
        return False


def _native_stat_ok(p):
    try:
        _pl.Path(p).stat()
        return True
    except OSError:
        return False


fs_stat_ok = uf("fs_stat_ok", [PathT], Bool, concrete=_native_stat_ok)
fs_size = uf("fs_size", [PathT], Int, concrete=lambda p: _pl.Path(p).stat().st_size)
fs_text = uf("fs_text", [PathT], Str, concrete=_native_text)
fs_io_ok = uf("fs_io_ok", [PathT], Bool, concrete=_native_io_ok)
fs_utf8_ok = uf("fs_utf8_ok", [PathT], Bool, concrete=_native_utf8_ok)

_S = z3.StringSort()


def _x_stat(ex, args, kwargs, lineno):
    """p.stat(): OSError unless fs_stat_ok(p) -- NOT implied by an earlier exists() (the file may vanish in between,
    the gap C11 states for detect_language); only st_size is modelled (fs_size(p) >= 0)."""
    p = args[0].t
    if ex.merge_depth == 0 and ex.spec_depth == 0:
        if not ex.decide(z3.Function("uf.fs_stat_ok", PathT.sort(), z3.BoolSort())(p)):
            raise RaiseSig(VExc("OSError"))
    size = z3.Function("uf.fs_size", PathT.sort(), z3.IntSort())(p)
    ex.ufs_used.update({"fs_size", "fs_stat_ok"})
    ex.assume(size >= 0)
    return VRec(Rec("stat_result", st_size=Int), {"st_size": VInt(size)})


def _x_read_text(ex, args, kwargs, lineno):
    """p.read_text(encoding="utf-8"): OSError unless fs_io_ok(p), UnicodeDecodeError unless fs_utf8_ok(p)."""
    p = args[0].t
    if ex.merge_depth == 0 and ex.spec_depth == 0:
        if not ex.decide(z3.Function("uf.fs_io_ok", PathT.sort(), z3.BoolSort())(p)):
            raise RaiseSig(VExc("OSError"))
        if not ex.decide(z3.Function("uf.fs_utf8_ok", PathT.sort(), z3.BoolSort())(p)):
            raise RaiseSig(VExc("UnicodeDecodeError"))
    ex.ufs_used.update({"fs_io_ok", "fs_utf8_ok", "fs_text"})
    return VStr(z3.Function("uf.fs_text", PathT.sort(), _S)(p))


# one deterministic file-system snapshot per verification unit (functional specs need reads to be functions of the
# path); same raise sets as the C11 model. Registered unconditionally: C11's handlers defer to these (setdefault).
EXTERNALS["Path.stat"] = _x_stat
EXTERNALS["Path.read_text"] = _x_read_text


# ------------------------------------------------------------------------------------------ specification
def shebang_says_python(file_path):
    """The file is readable as UTF-8 and its first line is a shebang naming python."""
    return fs_io_ok(file_path) and fs_utf8_ok(file_path) \
        and fs_text(file_path).split("\n")[0].startswith("#!") and "python" in fs_text(file_path).split("\n")[0]


def known_extension(file_path):
    return name_suffix(path_name(file_path)).lower() in EXTENSIONS


def detect_stat_race(file_path):
    """The one way detect_language can fail (C11 'stated gap'): the extension is unknown, exists() said yes, and the
    following stat() raises OSError (file removed / made unreachable in between)."""
    return not known_extension(file_path) and fs_exists(file_path) and not fs_stat_ok(file_path)


def detect_language_spec(file_path):
    """Property text: by extension, case-insensitively; otherwise (no / unknown extension) a non-empty existing file
    whose first line is a python shebang is Python; everything else is "unknown"."""
    return EXTENSIONS.get(name_suffix(path_name(file_path)).lower(), "unknown") \
        if name_suffix(path_name(file_path)).lower() in EXTENSIONS \
        else ("python" if fs_exists(file_path) and fs_size(file_path) > 0 and shebang_says_python(file_path) else "unknown")


# ------------------------------------------------------------------------------------------ language_detector.py
@contract(LD + "_parse_shebang_language", props=["C15", "C11"], types=dict(line=Str), returns=Opt(Str), raises=[])
class ParseShebangLanguage:
    def value(line):
        return "python" if line.startswith("#!") and "python" in line else None


@contract(LD + "_read_first_line", no_selftest=True, props=["C15", "C11"], types=dict(file_path=PathT), returns=Str,
          raises=["OSError", "UnicodeDecodeError"])
class ReadFirstLine:
    """Not a containment point itself: its caller contains both classes. str.split always yields >= 1 piece."""
    def raises_when(file_path):
        return not (fs_io_ok(file_path) and fs_utf8_ok(file_path))

    def on_raise_only_read_errors(exc_class):
        return exc_class in ("OSError", "UnicodeDecodeError")

    def value(file_path):
        return fs_text(file_path).split("\n")[0]


@contract(LD + "_detect_from_shebang", no_selftest=True, props=["C15", "C11"], types=dict(file_path=PathT), returns=Opt(Str), raises=[])
class DetectFromShebang:
    """Unreadable / binary file => None (language 'unknown'), never an exception."""
    def value(file_path):
        return "python" if shebang_says_python(file_path) else None

    def ensures_python_or_nothing(result):
        return result is None or result == "python"


@contract(LD + "detect_language", no_selftest=True, props=["C15", "C11", "C10", "C14", "C08"], types=dict(file_path=PathT), returns=Str,
          raises=["OSError"])
class DetectLanguage:
    """C11 stated gap: `file_path.exists() and file_path.stat().st_size > 0` -- stat() after exists() is outside every
    handler, so an OSError from stat escapes (exactly when detect_stat_race). No other exception class can."""
    def raises_when(file_path):
        return detect_stat_race(file_path)

    def on_raise_only_the_stat_race(exc_class):
        return exc_class == "OSError"

    def value(file_path):
        return detect_language_spec(file_path)

    def ensures_a_language_name(result):
        return len(result) > 0

    def ensures_known_extension_wins(file_path, result):
        # the shebang is consulted only when the (lower-cased) extension is not in the table
        return implies(name_suffix(path_name(file_path)).lower() in EXTENSIONS,
                       result == EXTENSIONS.get(name_suffix(path_name(file_path)).lower(), "unknown"))

    def ensures_only_documented_languages(file_path, result):
        return result in ("python", "javascript", "typescript", "java", "go", "rust", "unknown")


# ------------------------------------------------------------------------------------------ language dispatch
from contracts._common import ViolationT  # noqa: E402

CtxT = Rec("LintContext", cls=BASE + "BaseLintContext", file_path=Opt(PathT), file_content=Opt(Str), language=Str)
CfgT = Rec("LinterConfig", enabled=Bool, key=Int)  # `key`: ghost identity of the configuration object
MLRuleT = Rec("MultiLanguageLintRule", cls=BASE + "MultiLanguageLintRule", key=Int)  # `key`: ghost identity of the rule
loaded_config = uf("loaded_config", [MLRuleT, CtxT], CfgT)  # what the concrete rule's _load_config returns (C05)
ABSTRACT = "abstract method: the language-specific analysis of a concrete rule (dynamic dispatch); the interface " \
           "contract records ON WHICH LANGUAGES it may be invoked -- that precondition is what the dispatcher must establish"


@contract(BASE + "MultiLanguageLintRule._load_config", props=["C15", "C05"], types=dict(self=MLRuleT, context=CtxT),
          returns=CfgT, assumed="abstract method: configuration loading of a concrete rule (C05 covers the concrete loaders)")
class MLLoadConfig:
    def value(self, context):
        return loaded_config(self, context)


@contract(BASE + "MultiLanguageLintRule._check_python", props=["C15"], types=dict(self=MLRuleT, context=CtxT, config=CfgT),
          returns=SeqOf(ViolationT), assumed=ABSTRACT)
class MLCheckPython:
    def requires(context):
        return context.language == "python" and context.file_content is not None


@contract(BASE + "MultiLanguageLintRule._check_typescript", props=["C15"], types=dict(self=MLRuleT, context=CtxT, config=CfgT),
          returns=SeqOf(ViolationT), assumed=ABSTRACT)
class MLCheckTypeScript:
    def requires(context):
        return context.language in ("typescript", "javascript") and context.file_content is not None


@contract(BASE + "MultiLanguageLintRule._check_rust", props=["C15"], types=dict(self=MLRuleT, context=CtxT, config=CfgT),
          returns=SeqOf(ViolationT), assumed=ABSTRACT + " (the base implementation returns [])")
class MLCheckRust:
    def requires(context):
        return context.language == "rust" and context.file_content is not None


@contract(BASE + "MultiLanguageLintRule._dispatch_by_language", props=["C15", "C05"],
          types=dict(self=MLRuleT, context=CtxT, config=CfgT), returns=SeqOf(ViolationT))
class MLDispatch:
    def requires(context):
        return context.file_content is not None

    def ensures_other_languages_yield_nothing(context, result):
        # property text: "a file of an unrecognised type yields no source-analysis violation"
        return implies(context.language not in ("python", "typescript", "javascript", "rust"), len(result) == 0)


@contract(BASE + "MultiLanguageLintRule.check", props=["C15", "C05"], types=dict(self=MLRuleT, context=CtxT, config=CfgT),
          returns=SeqOf(ViolationT), inline=["has_file_content"])
class MLCheck:
    def ensures_disabled_reports_nothing(self, context, result):
        return implies(not loaded_config(self, context).enabled, len(result) == 0)

    def ensures_other_languages_yield_nothing(context, result):
        return implies(context.language not in ("python", "typescript", "javascript", "rust"), len(result) == 0)

    def ensures_no_content_no_violation(context, result):
        return implies(context.file_content is None, len(result) == 0)


# ------------------------------------------------------------------------------------------ Python-only rules
PyRuleT = Rec("PythonOnlyLintRule", cls=PYR + "PythonOnlyLintRule", _config_override=Opt(CfgT), key=Int)
py_loaded_config = uf("py_loaded_config", [PyRuleT, CtxT], CfgT)  # override, or load_linter_config(...) (C05)


@contract(PYR + "PythonOnlyLintRule._should_analyze", props=["C15", "C05"], types=dict(self=PyRuleT, context=CtxT), returns=Bool,
          inline=["has_file_content"])
class PySHouldAnalyze:
    def value(context):
        return context.language == "python" and context.file_content is not None


@contract(PYR + "PythonOnlyLintRule._get_config", props=["C15", "C05"], types=dict(self=PyRuleT, context=CtxT), returns=CfgT,
          assumed="configuration loading (override or load_linter_config with the subclass's abstract key/class): C05")
class PyGetConfig:
    def value(self, context):
        return py_loaded_config(self, context)


@contract(PYR + "PythonOnlyLintRule._is_enabled", props=["C15", "C05"], types=dict(self=PyRuleT, config=CfgT), returns=Bool)
class PyIsEnabled:
    def value(config):
        return config.enabled


@contract(PYR + "PythonOnlyLintRule._analyze", props=["C15"], types=dict(self=PyRuleT, code=Str, file_path=Str, config=CfgT),
          returns=SeqOf(ViolationT), assumed="abstract method: the analysis of a concrete Python-only rule")
class PyAnalyze:
    def ensures(result):
        return True


@contract(PYR + "PythonOnlyLintRule.check", props=["C15", "C05"], types=dict(self=PyRuleT, context=CtxT, config=CfgT),
          returns=SeqOf(ViolationT))
class PyCheck:
    def ensures_disabled_reports_nothing(self, context, result):
        return implies(not py_loaded_config(self, context).enabled, len(result) == 0)

    def ensures_python_only(context, result):
        # property text: "language-specific linters never report on a file of another language"
        return implies(context.language != "python", len(result) == 0)

    def ensures_no_content_no_violation(context, result):
        return implies(context.file_content is None, len(result) == 0)


# ------------------------------------------------------------------------------------------ rules with an inline language guard
LZ = "src/linters/lazy_ignores/linter.py::"


LazyRuleT = Rec("LazyIgnoresRule", cls=LZ + "LazyIgnoresRule")


@contract(LZ + "LazyIgnoresRule.check_content", props=["C15"], types=dict(self=LazyRuleT, code=Str, file_path=Str),
          returns=SeqOf(ViolationT),
          assumed="the analysis itself (directive scanning and header matching): C04/C12 territory; here only the interface")
class LazyCheckContent:
    def ensures(result):
        return True


@contract(LZ + "LazyIgnoresRule.check", props=["C15"], types=dict(self=LazyRuleT, context=CtxT), returns=SeqOf(ViolationT))
class LazyCheck:
    def ensures_python_only(context, result):
        return implies(context.language != "python", len(result) == 0)

    def ensures_no_content_no_violation(context, result):
        return implies(context.file_content is None, len(result) == 0)


# ------------------------------------------------------------------------------------------ file-header: gated by the detected language
# The header parser is chosen by context.language alone. Documented header languages (docs/file-header-linter.md):
# Python, TypeScript, JavaScript, Bash, Markdown, CSS. Property text: "a file of an unrecognised type yields no
# source-analysis violation" -- so for any other language value (in particular "unknown") the rule reports nothing,
# whatever the file is called and whatever it contains.
FH = "src/linters/file_header/linter.py::"
HEADER_LANGUAGES = ("python", "typescript", "javascript", "bash", "markdown", "css")
FHRuleT = Rec("FileHeaderRule", cls=FH + "FileHeaderRule")
FHConfigT = Rec("FileHeaderConfig", key=Int)
HEADER_ANALYSIS = "header extraction / field validation / atemporal wording of ONE parser (C12 covers the locations): interface only"


def _native_header_rule(fields):
    from src.linters.file_header.linter import FileHeaderRule
    return FileHeaderRule()


def _native_context(fields):
    """A real lint context for native replay / witnesses (BaseLintContext itself is abstract)."""
    import pathlib
    from src.orchestrator.core import FileLintContext
    p = fields.get("file_path")
    return FileLintContext(pathlib.Path(str(p)) if p is not None else None, fields.get("language") or "unknown",
                           content=fields.get("file_content"), metadata={})


def _native_header_config(fields):
    from src.linters.file_header.config import FileHeaderConfig
    return FileHeaderConfig()


def _native_lazy_rule(fields):
    from src.linters.lazy_ignores.linter import LazyIgnoresRule
    return LazyIgnoresRule()


FHRuleT.build_native = _native_header_rule
FHConfigT.build_native = _native_header_config
LazyRuleT.build_native = _native_lazy_rule
CtxT.build_native = _native_context


@contract(FH + "FileHeaderRule._check_header_with_parser", props=["C15"], types=dict(self=FHRuleT, context=CtxT, config=FHConfigT),
          returns=SeqOf(ViolationT), assumed=HEADER_ANALYSIS)
class FHCheckWithParser:
    def ensures(result):
        return True


@contract(FH + "FileHeaderRule._check_markdown_header", props=["C15"], types=dict(self=FHRuleT, context=CtxT, config=FHConfigT),
          returns=SeqOf(ViolationT), assumed=HEADER_ANALYSIS)
class FHCheckMarkdown:
    def ensures(result):
        return True


@contract(FH + "FileHeaderRule._has_file_ignore", props=["C15"], types=dict(self=FHRuleT, context=CtxT), returns=Bool,
          assumed="file-level ignore directives in the first lines (C04): interface only")
class FHHasFileIgnore:
    def ensures(result):
        return True


@contract(FH + "FileHeaderRule._load_config", props=["C15"], types=dict(self=FHRuleT, context=CtxT), returns=FHConfigT,
          assumed="configuration loading (C05): interface only")
class FHLoadConfig:
    def ensures(result):
        return True


@contract(FH + "FileHeaderRule._should_ignore_file", props=["C15"], types=dict(self=FHRuleT, context=CtxT, config=FHConfigT),
          returns=Bool, assumed="ignore-pattern matching on the path (C09): interface only")
class FHShouldIgnoreFile:
    def ensures(result):
        return True


def _plain_text_witness(name, language):
    import pathlib
    return {"self": {}, "config": {"__rec__": "FileHeaderConfig", "key": 0},
            "context": {"__rec__": "LintContext", "file_path": pathlib.Path(name), "language": language,
                        "file_content": "currently this is just some prose, updated 2024-01-01\n"}}


@contract(FH + "FileHeaderRule._check_language_header", props=["C15"], types=dict(self=FHRuleT, context=CtxT, config=FHConfigT),
          returns=SeqOf(ViolationT))
class FHCheckLanguageHeader:
    def ensures_only_header_languages(context, result):
        return implies(context.language not in HEADER_LANGUAGES, len(result) == 0)

    # inputs from the property's quantifier ("files of ... several unsupported extensions"): unrecognised file types
    def witness_only_header_languages():
        return _plain_text_witness("README.md", "unknown")

    def witness_shell_script_of_unknown_language():
        return _plain_text_witness("deploy.SH", "unknown")

    def witness_stylesheet_of_unknown_language():
        return _plain_text_witness("site.css", "unknown")

    def witness_recognised_language_without_header_support():
        return _plain_text_witness("main.go", "go")


@contract(FH + "FileHeaderRule.check", props=["C15"], types=dict(self=FHRuleT, context=CtxT, config=FHConfigT),
          returns=SeqOf(ViolationT))
class FHCheck:
    def ensures_only_header_languages(context, result):
        return implies(context.language not in HEADER_LANGUAGES, len(result) == 0)

    def witness_only_header_languages():
        w = _plain_text_witness("NOTES.md", "unknown")
        return {"self": w["self"], "context": w["context"]}
