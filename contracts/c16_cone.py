"""C16 / C01 -- dependency cone above the rules: which language (hence which per-language override section) a file gets.

"Language-specific threshold overrides apply only to files of that language" (C16; the same precedence governs
nesting.max_nesting_depth, C01) depends on functions that other properties own: the language detector
(contracts/c15_language.py), the context the orchestrator builds and hands to the rules (contracts/c10_orchestrator.py) and
the metadata / language accessors of the config loader (contracts/c05_config.py). Those contracts are reused read-only:
this module adds "C16" and "C01" to their `props` at load time (so `./check C16` / `./check C01` re-verify them against
the current source) and states the composition as lemmas: every documented extension selects ITS language."""
from pyvc import api as _api
from pyvc.api import lemma, call
from contracts._common import PathT, path_name
from contracts import c15_language as _c15  # noqa: F401  (detect_language and helpers)
from contracts import c10_orchestrator as _c10  # noqa: F401  (FileLintContext, lint_file, rule execution)
from contracts import c05_config as _c05  # noqa: F401  (get_metadata, get_language, load_linter_config, from_dict)
from contracts.c09_paths import name_suffix

LD = "src/orchestrator/language_detector.py::"
O = "src/orchestrator/core.py::"
LU = "src/core/linter_utils.py::"
DEPENDS = [
    (LD + "detect_language", "the language name that selects srp.<language> / nesting.<language>"),
    (LD + "_detect_from_shebang", "fallback of detect_language for files without a known extension"),
    (LD + "_parse_shebang_language", "fallback of detect_language"),
    (LD + "_read_first_line", "fallback of detect_language"),
    (O + "FileLintContext.__init__", "the context (language, metadata) every rule receives"),
    (O + "Orchestrator.lint_file", "observation point: detects the language, builds the context, runs the rules"),
    (O + "Orchestrator._execute_rules", "hands the context to every rule"),
    (O + "Orchestrator._get_rules_for_file", "which rules see the file"),
    (LU + "get_metadata", "the configuration the rule reads"),
    (LU + "get_language", "the language the rule passes to from_dict"),
    (LU + "load_linter_config", "section + language -> config object"),
]
MISSING = []
for _t, _why in DEPENDS:
    _c = _api.REGISTRY.get(_t)
    if _c is None:
        MISSING.append(_t)
        continue
    for _p in ("C16", "C01"):
        if _p not in _c.props:
            _c.props.append(_p)

# documented table (docs/api-reference.md "Supported languages", docs/srp-linter.md, docs/nesting-linter.md): the
# extensions of the four languages whose classes / functions are judged, and the language each belongs to
DOCUMENTED = ((".py", "python"), (".js", "javascript"), (".jsx", "javascript"), (".ts", "typescript"), (".tsx", "typescript"),
              (".rs", "rust"))


def suffix_of(p):
    return name_suffix(path_name(p)).lower()


@lemma(props=["C16", "C01"], types=dict(p=PathT), name="every-documented-extension-selects-its-language")
def extension_selects_language(p):
    """A .js / .jsx file is JavaScript (judged by srp.javascript / nesting.javascript), a .ts / .tsx file TypeScript, .py
    Python, .rs Rust -- case-insensitively, whatever the file contains."""
    if suffix_of(p) == ".py":
        return call(LD + "detect_language", p) == "python"
    if suffix_of(p) == ".js":
        return call(LD + "detect_language", p) == "javascript"
    if suffix_of(p) == ".jsx":
        return call(LD + "detect_language", p) == "javascript"
    if suffix_of(p) == ".ts":
        return call(LD + "detect_language", p) == "typescript"
    if suffix_of(p) == ".tsx":
        return call(LD + "detect_language", p) == "typescript"
    if suffix_of(p) == ".rs":
        return call(LD + "detect_language", p) == "rust"
    return True
