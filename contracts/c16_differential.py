"""C16 -- bounded native differential check at the property's observation point (Orchestrator.lint_file).

NOT a proof (listed under `bounded` in the evidence). The concrete counterpart of the property's quantifier: generated
classes / structs with method counts and body sizes swept around the limits (public, private, dunder, property, static,
constructor members; several classes per file; blank lines, comment lines and unusual-but-legal whitespace such as form
feeds in between) are written as Python, TypeScript, JavaScript and Rust files and linted through ONE Orchestrator per
configuration -- files of different languages in the same run, configurations with per-language overrides -- so that
everything between the command and the metrics takes part (language detection, config loading per file and language,
rule dispatch, class discovery, metrics, evaluation, violation builder). The expected verdicts are computed from the
generation parameters, never from the code under check: reported iff public methods > max_methods or lines of code >
max_loc or (check_keywords and a keyword occurs in the name); message lists exactly those criteria with the true counts;
one violation per class at its header line; the thresholds are <language>.<key> over <key> over the default (7 / 200)."""
import random

from pyvc.api import custom

KEYWORDS = ["Manager", "Handler", "Processor", "Utility", "Helper"]
NOISE = ["", "", "", "\x0c", "  \x0c"]          # blank lines, some carrying a form feed (legal whitespace in all four languages)
COMMENT_NOISE = ["", " plain", " page\x0cbreak", " tab\x0bhere", " unit\x1fsep"]


def gen_class(rng, idx):
    """Parameters of one class: name, number of public / private / special members, extra code lines, filler lines."""
    base = rng.choice(["Order", "Report", "Account", "Parser", "Widget"])
    suffix = rng.choice(["", "", "", rng.choice(KEYWORDS)])
    return {"name": f"{base}{suffix}{idx}", "public": rng.choice([0, 1, 2, 3, 4, 5, 6, 7, 8, 9]), "private": rng.choice([0, 1, 3]),
            "special": rng.choice([0, 1]), "prop": rng.choice([0, 1, 2]), "pad": rng.choice([0, 0, 2, 5, 9, 14]),
            "filler": rng.choice([0, 1, 3]), "split_impl": rng.random() < 0.5}


def _filler(rng, lines, comment, n, indent):
    """n lines that are NOT lines of code: blank (possibly with a form feed) or comment lines."""
    for _ in range(n):
        if rng.random() < 0.5:
            lines.append(rng.choice(NOISE))
        else:
            lines.append(indent + comment + rng.choice(COMMENT_NOISE))


def render_py(rng, c, lines):
    """Appends the class; returns (header line, public methods, lines of code)."""
    _filler(rng, lines, "#", c["filler"], "")
    for _ in range(rng.choice([0, 0, 1, 2])):
        lines.append(rng.choice(["@decorated", "@register('x')"]))   # decorators: not the header, not lines of the class
    header = len(lines) + 1
    lines.append(f"class {c['name']}:")
    loc = 1
    lines.append("    kind = 'x'")
    loc += 1
    for i in range(c["pad"]):
        _filler(rng, lines, "#", rng.choice([0, 0, 1]), "    ")
        lines.append(f"    field_{i} = {i}")
        loc += 1
    members = []
    members += [("pub", f"act_{i}") for i in range(c["public"])]
    members += [("priv", f"_help_{i}") for i in range(c["private"])]
    members += [("dunder", "__init__")] * c["special"]
    members += [("prop", f"value_{i}") for i in range(c["prop"])]
    rng.shuffle(members)
    public = 0
    for kind, name in members:
        _filler(rng, lines, "#", rng.choice([0, 1]), "    ")
        if kind == "prop":
            lines.append("    @property")
            loc += 1
        elif kind == "pub" and rng.random() < 0.3:
            lines.append("    @staticmethod")
            loc += 1
        lines.append(f"    {'async ' if kind == 'pub' and rng.random() < 0.2 else ''}def {name}(self):")
        lines.append("        return 1")
        loc += 2
        public += kind == "pub"
    lines.append("")
    return header, public, loc


def render_ts(rng, c, lines):
    _filler(rng, lines, "//", c["filler"], "")
    header = len(lines) + 1
    lines.append(f"{'export ' if rng.random() < 0.3 else ''}class {c['name']} {{")
    loc = 1
    for i in range(c["pad"]):
        _filler(rng, lines, "//", rng.choice([0, 0, 1]), "  ")
        lines.append(f"  field_{i}: number = {i};")
        loc += 1
    members = [("pub", f"act_{i}") for i in range(c["public"])] + [("priv", f"_help_{i}") for i in range(c["private"])] \
        + [("ctor", "constructor")] * c["special"]
    rng.shuffle(members)
    public = 0
    for kind, name in members:
        _filler(rng, lines, "//", rng.choice([0, 1]), "  ")
        lines.append(f"  {'static ' if kind == 'pub' and rng.random() < 0.3 else ''}{name}() {{")
        lines.append("    return;")
        lines.append("  }")
        loc += 3
        public += kind == "pub"
    lines.append("}")
    loc += 1
    lines.append("")
    return header, public, loc


def render_rs(rng, c, lines):
    _filler(rng, lines, "//", c["filler"], "")
    header = len(lines) + 1
    lines.append(f"struct {c['name']} {{")
    loc = 1
    for i in range(c["pad"]):
        _filler(rng, lines, "//", rng.choice([0, 0, 1]), "    ")
        lines.append(f"    field_{i}: i32,")
        loc += 1
    lines.append("}")
    loc += 1
    members = [("pub", f"act_{i}") for i in range(c["public"])] + [("priv", f"_help_{i}") for i in range(c["private"])]
    rng.shuffle(members)
    blocks = [members[:len(members) // 2], members[len(members) // 2:]] if c["split_impl"] else [members]
    public = 0
    for block in blocks:
        _filler(rng, lines, "//", rng.choice([0, 1]), "")
        lines.append(f"impl {c['name']} {{")
        loc += 1
        for kind, name in block:
            _filler(rng, lines, "//", rng.choice([0, 1]), "    ")
            lines.append(f"    {'pub ' if rng.random() < 0.5 else ''}fn {name}(&self) -> i32 {{")
            lines.append("        1")
            lines.append("    }")
            loc += 3
            public += kind == "pub"
        lines.append("}")
        loc += 1
    lines.append("")
    return header, public, loc


RENDER = {"python": render_py, "typescript": render_ts, "javascript": render_ts, "rust": render_rs}
# every documented extension of the four languages (docs/api-reference.md): each must select ITS language's override section
EXT = {"python": [".py"], "typescript": [".ts", ".tsx"], "javascript": [".js", ".jsx"], "rust": [".rs"]}


def js_safe(lines):
    """JavaScript files: no TypeScript-only syntax."""
    return [ln.replace(": number = ", " = ").replace("export ", "") for ln in lines]


def gen_config(rng):
    cfg = {}
    if rng.random() < 0.8:
        cfg["max_methods"] = rng.choice([1, 2, 3, 5, 7])
    if rng.random() < 0.8:
        cfg["max_loc"] = rng.choice([5, 9, 14, 22, 40])
    if rng.random() < 0.5:
        cfg["check_keywords"] = rng.random() < 0.5
    if rng.random() < 0.3:
        cfg["keywords"] = rng.sample(KEYWORDS, 2)
    for lang in ("python", "typescript", "javascript", "rust"):
        if rng.random() < 0.6:
            sec = {}
            if rng.random() < 0.8:
                sec["max_methods"] = rng.choice([1, 2, 4, 6, 8])
            if rng.random() < 0.8:
                sec["max_loc"] = rng.choice([4, 8, 12, 20, 33])
            cfg[lang] = sec
    return cfg


def thresholds(cfg, lang):
    sec = cfg.get(lang, {}) if isinstance(cfg.get(lang), dict) else {}
    return (sec.get("max_methods", cfg.get("max_methods", 7)), sec.get("max_loc", cfg.get("max_loc", 200)),
            cfg.get("check_keywords", True), cfg.get("keywords", KEYWORDS))


def expected_message(name, public, loc, cfg, lang):
    max_m, max_l, check_kw, kws = thresholds(cfg, lang)
    issues = []
    if public > max_m:
        issues.append(f"{public} methods (max: {max_m})")
    if loc > max_l:
        issues.append(f"{loc} lines (max: {max_l})")
    if check_kw and any(k in name for k in kws):
        issues.append("responsibility keyword in name")
    return f"Class '{name}' may violate SRP: {', '.join(issues)}" if issues else None


@custom("c16-generated-classes-differential-bounded", props=["C16"])
def c16_generated_classes_differential(ctx):
    import tempfile
    import time
    from pathlib import Path
    from pyvc.native import _ensure_repo_on_path
    t0 = time.time()
    name = "c16-generated-classes-differential-bounded"
    try:
        _ensure_repo_on_path()
        from src.orchestrator.core import Orchestrator
    except Exception as e:  # noqa
        return [{"name": name, "kind": "bounded", "verdict": "unknown", "note": f"cannot import: {e!r}"[:300], "tool": "cpython",
                 "budget": "-", "cases": 0}]
    rng = random.Random(1600 + int(ctx.get("seed", 0)))
    thorough = ctx.get("tier") == "thorough"
    n_files, n_cfgs = (12, 40) if thorough else (6, 16)
    bad, cases = None, 0
    with tempfile.TemporaryDirectory() as tmp:
        root = Path(tmp)
        files = []
        for i in range(n_files):
            for lang in ("python", "typescript", "javascript", "rust"):
                lines, classes = [], []
                for j in range(rng.choice([1, 2, 3])):
                    c = gen_class(rng, f"{i}x{j}")
                    header, public, loc = RENDER[lang](rng, c, lines)
                    classes.append((header, c["name"], public, loc))
                if lang == "javascript":
                    lines = js_safe(lines)
                p = root / f"m{i}{EXT[lang][i % len(EXT[lang])]}"
                p.write_text("\n".join(lines) + "\n")
                files.append((p, lang, classes, "\n".join(lines)))
        for k in range(n_cfgs):
            cfg = gen_config(rng)
            order = list(files)
            rng.shuffle(order)     # files of different languages interleaved within ONE run
            try:
                orch = Orchestrator(project_root=root, config={"srp": cfg})
            except Exception as e:  # noqa
                bad = ("orchestrator", cfg, repr(e), "", "")
                break
            for p, lang, classes, text in order:
                cases += 1
                try:
                    got = sorted((v.line, v.message) for v in orch.lint_file(p) if v.rule_id.startswith("srp"))
                except Exception as e:  # noqa
                    bad = (p.name, cfg, "exception " + repr(e)[:200], "", text)
                    break
                want = sorted((header, m) for header, cname, public, loc in classes
                              for m in [expected_message(cname, public, loc, cfg, lang)] if m is not None)
                if got != want:
                    bad = (p.name, cfg, f"reported {got}", f"expected {want}", text)
                    break
            if bad:
                break
    note = "" if bad is None else (f"{bad[0]} with srp config {bad[1]}: {bad[2]} {bad[3]}; source:\n{bad[4]!r}")[:1800]
    return [{"name": name, "kind": "bounded", "verdict": "passed" if bad is None else "refuted", "note": note,
             "tool": "cpython (Orchestrator.lint_file on generated Python/TypeScript/JavaScript/Rust files)",
             "budget": f"{n_files * 4} generated files x {n_cfgs} configurations (per-language overrides, mixed-language runs)",
             "cases": cases, "ms": round((time.time() - t0) * 1000, 1), "witness_confirmed": bad is not None,
             "model_inputs": {"file": bad[0], "srp": bad[1], "source": bad[4]} if bad else None}]
