"""C16 -- SRP thresholds (contracts on src/linters/srp/*)."""
from pyvc.api import contract, lemma, Int, Bool, Str, SeqOf, Rec, Opt, implies, call

Metrics = Rec("Metrics", as_dict=True, method_count=Int, loc=Int, has_keyword=Bool)
SRPConfigT = Rec("SRPConfig", cls="src/linters/srp/config.py::SRPConfig", pycls="src.linters.srp.config:SRPConfig",
                 max_methods=Int, max_loc=Int, enabled=Bool, check_keywords=Bool,
                 keywords=SeqOf(Str), ignore=SeqOf(Str))

EVAL = "src/linters/srp/metrics_evaluator.py::evaluate_metrics"


def expected_issues(method_count, loc, has_keyword, max_methods, max_loc, check_keywords):
    """Property text: lists exactly the criteria that were exceeded, with the true counts."""
    return (([f"{method_count} methods (max: {max_methods})"] if method_count > max_methods else [])
            + ([f"{loc} lines (max: {max_loc})"] if loc > max_loc else [])
            + (["responsibility keyword in name"] if check_keywords and has_keyword else []))


@contract(EVAL, props=["C16", "C05"], types=dict(metrics=Metrics, config=SRPConfigT), returns=SeqOf(Str))
class EvaluateMetrics:
    def ensures_reported_iff(metrics, config, result):
        return (len(result) > 0) == (metrics["method_count"] > config.max_methods
                                     or metrics["loc"] > config.max_loc
                                     or (config.check_keywords and metrics["has_keyword"]))

    def ensures_exact_issues(metrics, config, result):
        return result == expected_issues(metrics["method_count"], metrics["loc"], metrics["has_keyword"],
                                         config.max_methods, config.max_loc, config.check_keywords)
