"""C16 -- SRP thresholds (contracts on src/linters/srp/*)."""
from pyvc.api import contract, lemma, Int, Bool, Str, SeqOf, Rec, Opt, implies, call

Metrics = Rec("Metrics", as_dict=True, method_count=Int, loc=Int, has_keyword=Bool)
SRPConfigT = Rec("SRPConfig", cls="src/linters/srp/config.py::SRPConfig", pycls="src.linters.srp.config:SRPConfig",
                 max_methods=Int, max_loc=Int, enabled=Bool, check_keywords=Bool,
                 keywords=SeqOf(Str), ignore=SeqOf(Str))

EVAL = "src/linters/srp/metrics_evaluator.py::evaluate_metrics"


def expected_issues(method_count, loc, has_keyword, max_methods, max_loc, check_keywords):
    """Property text: lists exactly the criteria that were exceeded, with the true counts."""
    return (([f"{method_count} methods (max: {max_methods})"] if method_count > max_methods else [])
            + ([f"{loc} lines (max: {max_loc})"] if loc > max_loc else [])
            + (["responsibility keyword in name"] if check_keywords and has_keyword else []))


@contract(EVAL, props=["C16", "C05"], types=dict(metrics=Metrics, config=SRPConfigT), returns=SeqOf(Str))
class EvaluateMetrics:
    def ensures_reported_iff(metrics, config, result):
        return (len(result) > 0) == (metrics["method_count"] > config.max_methods
                                     or metrics["loc"] > config.max_loc
                                     or (config.check_keywords and metrics["has_keyword"]))

    def ensures_exact_issues(metrics, config, result):
        return result == expected_issues(metrics["method_count"], metrics["loc"], metrics["has_keyword"],
                                         config.max_methods, config.max_loc, config.check_keywords)


# ====================================================================================== heuristics.py (Python classes)
import ast  # noqa: E402

from pyvc.api import Any, Dict, TupleOf, mk, ih, opaque, reveal, use  # noqa: E402
from contracts._nodes import PyNode, TSNode  # noqa: E402
from contracts._common import ViolationT, PathT  # noqa: E402,F401  (also registers the ast.walk external)

H = "src/linters/srp/heuristics.py::"


def is_property_decorator(d):
    return isinstance(d, ast.Name) and d.id == "property"


def py_is_public_method(n):
    """Property text / docs: public methods = function definitions in the class body that are neither
    @property nor underscore-prefixed (private and dunder members are not counted)."""
    return (isinstance(n, (ast.FunctionDef, ast.AsyncFunctionDef))
            and not any(is_property_decorator(d) for d in n.decorator_list)
            and not n.name.startswith("_"))


@contract(H + "_is_private_method", props=["C16"], types=dict(method_name=Str), returns=Bool)
class IsPrivateMethod:
    def value(method_name):
        return method_name.startswith("_")


@contract(H + "has_property_decorator", props=["C16"], types=dict(func_node=PyNode), returns=Bool)
class HasPropertyDecorator:
    def requires(func_node):
        return func_node is not None

    def value(func_node):
        return any(is_property_decorator(d) for d in func_node.decorator_list)


@contract(H + "_is_countable_method", props=["C16"], types=dict(node=PyNode), returns=Bool)
class IsCountableMethod:
    def requires(node):
        return node is not None

    def value(node):
        return not any(is_property_decorator(d) for d in node.decorator_list) and not node.name.startswith("_")


@contract(H + "has_responsibility_keyword", props=["C16"], types=dict(class_name=Str, keywords=SeqOf(Str)), returns=Bool)
class HasResponsibilityKeyword:
    def value(class_name, keywords):
        return any(keyword in class_name for keyword in keywords)


def py_method_count(body):
    """Property text: the number of public methods of the class."""
    return sum(1 for n in body if py_is_public_method(n))


def py_is_func(n):
    return isinstance(n, (ast.FunctionDef, ast.AsyncFunctionDef))


def py_countable(n):
    return not any(is_property_decorator(d) for d in n.decorator_list) and not n.name.startswith("_")


# The three filters are opaque: the fusion proof below is pure equational reasoning over their unfolding lemmas.
@opaque
def py_funcs(body: SeqOf(PyNode)) -> SeqOf(PyNode):
    return [n for n in body if py_is_func(n)]


@opaque
def py_countables(s: SeqOf(PyNode)) -> SeqOf(PyNode):
    return [n for n in s if py_countable(n)]


@opaque
def py_publics(body: SeqOf(PyNode)) -> SeqOf(PyNode):
    return [n for n in body if py_is_public_method(n)]


@lemma(props=["C16"], types=dict(x=PyNode, t=SeqOf(PyNode)), name="py-filter-cons")
def py_cons_lemma(x, t):
    reveal(py_countables, [x] + t)
    reveal(py_countables, t)
    return py_countables([x] + t) == ([x] if py_countable(x) else []) + py_countables(t)


@lemma(props=["C16"], types=dict(body=SeqOf(PyNode)), name="py-filter-unfold")
def py_unfold_lemma(body):
    if len(body) == 0:
        reveal(py_funcs, body)
        reveal(py_publics, body)
        reveal(py_countables, body)
        return py_funcs(body) == [] and py_publics(body) == [] and py_countables(body) == []
    reveal(py_funcs, body)
    reveal(py_funcs, body[1:])
    reveal(py_publics, body)
    reveal(py_publics, body[1:])
    return (py_funcs(body) == ([body[0]] if py_is_func(body[0]) else []) + py_funcs(body[1:])
            and py_publics(body) == ([body[0]] if py_is_public_method(body[0]) else []) + py_publics(body[1:]))


@lemma(props=["C16"], types=dict(body=SeqOf(PyNode)), name="py-filter-fusion")
def py_fusion_lemma(body):
    """Filtering function nodes and then countable ones == filtering public methods in one pass."""
    use(py_unfold_lemma, body)
    if len(body) == 0:
        return py_countables(py_funcs(body)) == py_publics(body)
    ih(py_fusion_lemma, body[1:])
    if py_is_func(body[0]):
        use(py_cons_lemma, body[0], py_funcs(body[1:]))
        return py_countables(py_funcs(body)) == py_publics(body)
    return py_countables(py_funcs(body)) == py_publics(body)


@lemma(props=["C16"], types=dict(body=SeqOf(PyNode)), name="py-filter-length-is-count")
def py_len_lemma(body):
    use(py_unfold_lemma, body)
    if len(body) == 0:
        return len(py_publics(body)) == py_method_count(body)
    ih(py_len_lemma, body[1:])
    return len(py_publics(body)) == py_method_count(body)


def py_count_lemma(body):
    return py_fusion_lemma(body) and py_len_lemma(body)


@contract(H + "count_methods", props=["C16"], types=dict(class_node=PyNode), returns=Int)
class CountMethods:
    def requires(class_node):
        return class_node is not None

    def reveals(class_node):
        return reveal(py_funcs, class_node.body) and reveal(py_countables, py_funcs(class_node.body))

    def lemmas_public_methods(class_node):
        return py_count_lemma(class_node.body)

    def ensures_public_methods(class_node, result):
        return result == py_method_count(class_node.body)


def py_is_code_line(line):
    """Docs: lines of code exclude blank lines and comment lines."""
    return line.strip() != "" and not line.strip().startswith("#")


def py_class_lines(class_node, source):
    """Source lines lineno .. end_lineno of the class (1-based, inclusive)."""
    return source.split("\n")[class_node.lineno - 1:(class_node.end_lineno if class_node.end_lineno else class_node.lineno)]


def py_code_line_count(lines):
    return sum(1 for line in lines if py_is_code_line(line))


@lemma(props=["C16"], types=dict(lines=SeqOf(Str)), name="py-loc-filter-length-is-count")
def py_loc_lemma(lines):
    """The list built by heuristics.count_loc has as many elements as there are code lines."""
    if len(lines) == 0:
        return len([s for line in lines if (s := line.strip()) and not s.startswith("#")]) == py_code_line_count(lines)
    ih(py_loc_lemma, lines[1:])
    return len([s for line in lines if (s := line.strip()) and not s.startswith("#")]) == py_code_line_count(lines)


@contract(H + "count_loc", props=["C16"], types=dict(class_node=PyNode, source=Str), returns=Int)
class CountLoc:
    def requires(class_node, source):
        return class_node is not None

    def lemmas_code_lines(class_node, source):
        return py_loc_lemma(py_class_lines(class_node, source))

    def ensures_code_lines(class_node, source, result):
        return result == py_code_line_count(py_class_lines(class_node, source))


# ====================================================================================== python_analyzer.py
PA = "src/linters/srp/python_analyzer.py::"
ClassMetrics = Rec("ClassMetrics", as_dict=True, class_name=Str, method_count=Int, loc=Int, has_keyword=Bool,
                   line=Int, column=Int)


def has_keyword(name, keywords):
    """Property text: the name contains a configured responsibility keyword."""
    return any(keyword in name for keyword in keywords)


@contract(PA + "find_all_classes", props=["C16"], types=dict(tree=PyNode, classes=SeqOf(PyNode), node=PyNode),
          returns=SeqOf(PyNode))
class PyFindAllClasses:
    """Every class definition reachable from the tree (ast.walk is trusted), each exactly once, in walk order."""
    def requires(tree):
        return tree is not None

    def value(tree):
        return [node for node in tree.walk if isinstance(node, ast.ClassDef)]

    def inv0(tree, classes, rest):
        return [node for node in tree.walk if isinstance(node, ast.ClassDef)] == \
            classes + [node for node in rest if isinstance(node, ast.ClassDef)]


@contract(PA + "analyze_class", props=["C16"], types=dict(class_node=PyNode, source=Str, config=SRPConfigT),
          returns=ClassMetrics)
class PyAnalyzeClass:
    def requires(class_node, source, config):
        return class_node is not None

    def ensures_metrics(class_node, source, config, result):
        return (result["method_count"] == py_method_count(class_node.body)
                and result["loc"] == py_code_line_count(py_class_lines(class_node, source))
                and result["has_keyword"] == has_keyword(class_node.name, config.keywords))

    def ensures_header_position(class_node, source, config, result):
        return (result["class_name"] == class_node.name and result["line"] == class_node.lineno
                and result["column"] == class_node.col_offset)


PyAnalyzerT = Rec("PythonSRPAnalyzer", cls=PA + "PythonSRPAnalyzer")


@contract(PA + "PythonSRPAnalyzer.find_all_classes", props=["C16"], types=dict(self=PyAnalyzerT, tree=PyNode),
          returns=SeqOf(PyNode))
class PyWrapFindAllClasses:
    def requires(self, tree):
        return tree is not None

    def value(self, tree):
        return [node for node in tree.walk if isinstance(node, ast.ClassDef)]


@contract(PA + "PythonSRPAnalyzer.analyze_class", props=["C16"],
          types=dict(self=PyAnalyzerT, class_node=PyNode, source=Str, config=SRPConfigT), returns=ClassMetrics)
class PyWrapAnalyzeClass:
    def requires(self, class_node, source, config):
        return class_node is not None

    def ensures_metrics(self, class_node, source, config, result):
        return (result["method_count"] == py_method_count(class_node.body)
                and result["loc"] == py_code_line_count(py_class_lines(class_node, source))
                and result["has_keyword"] == has_keyword(class_node.name, config.keywords))

    def ensures_header_position(self, class_node, source, config, result):
        return (result["class_name"] == class_node.name and result["line"] == class_node.lineno
                and result["column"] == class_node.col_offset)


# ====================================================================================== typescript_metrics_calculator.py
TM = "src/linters/srp/typescript_metrics_calculator.py::"


def first_child_of_type(s: SeqOf(TSNode), k: Str) -> TSNode:
    if len(s) == 0:
        return None
    if s[0].type == k:
        return s[0]
    return first_child_of_type(s[1:], k)


def ts_method_name(node):
    """Name of a method_definition: text of its first property_identifier child (None if it has none)."""
    c = first_child_of_type(node.children, "property_identifier")
    return None if c is None else c.text.decode()


def ts_is_public_method(node):
    """Property text / docs: a public method is a method_definition that is neither the constructor nor
    underscore-prefixed."""
    return (node.type == "method_definition" and ts_method_name(node) != "constructor"
            and not (ts_method_name(node) is not None and ts_method_name(node) != ""
                     and ts_method_name(node).startswith("_")))


def ts_method_count(class_node):
    body = first_child_of_type(class_node.children, "class_body")
    return 0 if body is None else sum(1 for child in body.children if ts_is_public_method(child))


def ts_has_text(n: TSNode) -> Bool:
    return n is not None and n.text is not None


def ts_idents_have_text(s: SeqOf(TSNode)) -> Bool:
    """tree-sitter invariant: nodes obtained from a parsed source carry their text (trusted)."""
    return len(s) == 0 or ((s[0].type != "property_identifier" or s[0].text is not None) and ts_idents_have_text(s[1:]))


@contract(TM + "_get_class_body", props=["C16"], types=dict(class_node=TSNode, child=TSNode), returns=TSNode)
class TsGetClassBody:
    def requires(class_node):
        return class_node is not None

    def value(class_node):
        return first_child_of_type(class_node.children, "class_body")

    def inv0(class_node, rest):
        return first_child_of_type(class_node.children, "class_body") == first_child_of_type(rest, "class_body")


@contract(TM + "_get_method_name", props=["C16"], types=dict(node=TSNode, child=TSNode), returns=Opt(Str))
class TsGetMethodName:
    def requires(node):
        return node is not None and ts_idents_have_text(node.children)

    def value(node):
        return ts_method_name(node)

    def inv0(node, rest):
        return first_child_of_type(node.children, "property_identifier") == first_child_of_type(rest, "property_identifier") \
            and ts_idents_have_text(rest)


@contract(TM + "_is_countable_method", props=["C16"], types=dict(node=TSNode, method_name=Opt(Str)), returns=Bool)
class TsIsCountableMethod:
    def requires(node):
        return node is not None and ts_idents_have_text(node.children)

    def value(node):
        return ts_is_public_method(node)


def ts_methods_have_text(s: SeqOf(TSNode)) -> Bool:
    return len(s) == 0 or (ts_idents_have_text(s[0].children) and ts_methods_have_text(s[1:]))


def ts_class_wf(class_node):
    """Trusted tree-sitter fact: the identifiers of the class members carry their text."""
    return class_node is not None and (first_child_of_type(class_node.children, "class_body") is None
                                       or ts_methods_have_text(first_child_of_type(class_node.children, "class_body").children))


def ts_count_from(s: SeqOf(TSNode)) -> Int:
    if len(s) == 0:
        return 0
    return (1 if ts_is_public_method(s[0]) else 0) + ts_count_from(s[1:])


@lemma(props=["C16"], types=dict(s=SeqOf(TSNode)), name="ts-count-is-public-method-count")
def ts_count_lemma(s):
    if len(s) == 0:
        return ts_count_from(s) == sum(1 for child in s if ts_is_public_method(child))
    ih(ts_count_lemma, s[1:])
    return ts_count_from(s) == sum(1 for child in s if ts_is_public_method(child))


@contract(TM + "count_methods", props=["C16"], types=dict(class_node=TSNode, class_body=TSNode, method_count=Int, child=TSNode),
          returns=Int)
class TsCountMethods:
    def requires(class_node):
        return ts_class_wf(class_node)

    def lemmas_public_methods(class_node):
        return implies(first_child_of_type(class_node.children, "class_body") is not None,
                       ts_count_lemma(first_child_of_type(class_node.children, "class_body").children))

    def ensures_public_methods(class_node, result):
        return result == ts_method_count(class_node)

    def inv0(class_node, class_body, method_count, rest):
        return class_body is not None and class_body == first_child_of_type(class_node.children, "class_body") \
            and ts_count_from(class_body.children) == method_count + ts_count_from(rest) and ts_methods_have_text(rest)


def ts_is_code_line(line):
    """docs/srp-linter.md (How it works, 3): lines of code exclude blank lines and comments."""
    return line.strip() != "" and not line.strip().startswith("//")


def ts_node_lines(node, source):
    return source.split("\n")[node.start_point[0]:node.end_point[0] + 1]


def ts_code_line_count(node, source):
    return sum(1 for line in ts_node_lines(node, source) if ts_is_code_line(line))


def ts_line_span(node):
    """What the code counts (known finding C16-ts-loc-span): every line from the header to the closing brace."""
    return node.end_point[0] - node.start_point[0] + 1


@contract(TM + "count_loc", props=["C16"], types=dict(class_node=TSNode, source=Str), returns=Int)
class TsCountLoc:
    def requires(class_node, source):
        # tree-sitter facts: the node ends after it starts and lies inside the source text
        return (class_node is not None and class_node.start_point[0] <= class_node.end_point[0]
                and class_node.end_point[0] < len(source.split("\n")))

    def ensures_code_lines(class_node, source, result):
        # documented metric (expected to fail: known finding C16-ts-loc-span)
        return result == ts_code_line_count(class_node, source)

    def witness_code_lines():
        # the class of the native reproduction (known_findings.json, C16-ts-loc-span): 3 code lines, span 5
        return {"class_node": {"__node__": "n1", "type": "class_declaration", "start_point": [0, 0], "end_point": [4, 1],
                               "children": [], "text": None},
                "source": "class Foo {\n  a(): void {}\n\n  // comment\n}"}

    def ensures_line_span(class_node, source, result):
        # finding-adjusted: the raw line span, blank and comment lines included
        return result == ts_line_span(class_node)


TsCalcT = Rec("TypeScriptMetricsCalculator", cls=TM + "TypeScriptMetricsCalculator")


@contract(TM + "TypeScriptMetricsCalculator.count_methods", props=["C16"], types=dict(self=TsCalcT, class_node=TSNode), returns=Int)
class TsCalcCountMethods:
    def requires(self, class_node):
        return ts_class_wf(class_node)

    def value(self, class_node):
        return ts_method_count(class_node)


@contract(TM + "TypeScriptMetricsCalculator.count_loc", props=["C16"], types=dict(self=TsCalcT, class_node=TSNode, source=Str),
          returns=Int)
class TsCalcCountLoc:
    def requires(self, class_node, source):
        return class_node is not None and class_node.start_point[0] <= class_node.end_point[0]

    def value(self, class_node, source):
        return ts_line_span(class_node)


# ====================================================================================== typescript_analyzer.py
from contracts.c01_ts_base import ts_collect_type, ts_identifier_name  # noqa: E402

TA = "src/linters/srp/typescript_analyzer.py::"
TsAnalyzerT = Rec("TypeScriptSRPAnalyzer", cls=TA + "TypeScriptSRPAnalyzer", tree_sitter_available=Bool,
                  metrics_calculator=TsCalcT)


def ts_class_name(class_node):
    return "UnnamedClass" if ts_identifier_name(class_node) == "anonymous" else ts_identifier_name(class_node)


@contract(TA + "TypeScriptSRPAnalyzer.find_all_classes", props=["C16"], types=dict(self=TsAnalyzerT, root_node=TSNode),
          returns=SeqOf(TSNode))
class TsFindAllClasses:
    """Every class_declaration of the tree exactly once, in document order."""
    def ensures_all_classes(self, root_node, result):
        return implies(root_node is not None, result == ts_collect_type(root_node, "class_declaration"))


@contract(TA + "TypeScriptSRPAnalyzer.analyze_class", props=["C16"],
          types=dict(self=TsAnalyzerT, class_node=TSNode, source=Str, config=SRPConfigT), returns=ClassMetrics)
class TsAnalyzeClass:
    def requires(self, class_node, source, config):
        return ts_class_wf(class_node) and class_node.start_point[0] <= class_node.end_point[0]

    def ensures_metrics(self, class_node, source, config, result):
        return (result["method_count"] == ts_method_count(class_node)
                and result["loc"] == ts_line_span(class_node)
                and result["has_keyword"] == has_keyword(ts_class_name(class_node), config.keywords))

    def ensures_header_position(self, class_node, source, config, result):
        return (result["class_name"] == ts_class_name(class_node) and result["line"] == class_node.start_point[0] + 1
                and result["column"] == class_node.start_point[1])
