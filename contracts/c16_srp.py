"""C16 -- SRP thresholds (contracts on src/linters/srp/*)."""
from pyvc.api import contract, lemma, Int, Bool, Str, SeqOf, Rec, Opt, implies, call

Metrics = Rec("Metrics", as_dict=True, method_count=Int, loc=Int, has_keyword=Bool)
SRPConfigT = Rec("SRPConfig", cls="src/linters/srp/config.py::SRPConfig", pycls="src.linters.srp.config:SRPConfig",
                 max_methods=Int, max_loc=Int, enabled=Bool, check_keywords=Bool,
                 keywords=SeqOf(Str), ignore=SeqOf(Str))

EVAL = "src/linters/srp/metrics_evaluator.py::evaluate_metrics"


def expected_issues(method_count, loc, has_keyword, max_methods, max_loc, check_keywords):
    """Property text: lists exactly the criteria that were exceeded, with the true counts."""
    return (([f"{method_count} methods (max: {max_methods})"] if method_count > max_methods else [])
            + ([f"{loc} lines (max: {max_loc})"] if loc > max_loc else [])
            + (["responsibility keyword in name"] if check_keywords and has_keyword else []))


@contract(EVAL, props=["C16", "C05"], types=dict(metrics=Metrics, config=SRPConfigT), returns=SeqOf(Str))
class EvaluateMetrics:
    def ensures_reported_iff(metrics, config, result):
        return (len(result) > 0) == (metrics["method_count"] > config.max_methods
                                     or metrics["loc"] > config.max_loc
                                     or (config.check_keywords and metrics["has_keyword"]))

    def ensures_exact_issues(metrics, config, result):
        return result == expected_issues(metrics["method_count"], metrics["loc"], metrics["has_keyword"],
                                         config.max_methods, config.max_loc, config.check_keywords)


# ====================================================================================== heuristics.py (Python classes)
import ast  # noqa: E402

from pyvc.api import Any, Dict, TupleOf, mk, ih, opaque, reveal, use  # noqa: E402
from contracts._nodes import PyNode, TSNode  # noqa: E402
from contracts._common import ViolationT, PathT, py_walk  # noqa: E402,F401  (also registers the ast.walk external)

H = "src/linters/srp/heuristics.py::"


def is_property_decorator(d):
    return isinstance(d, ast.Name) and d.id == "property"


def py_is_public_method(n):
    """Property text / docs: public methods = function definitions in the class body that are neither
    @property nor underscore-prefixed (private and dunder members are not counted)."""
    return (isinstance(n, (ast.FunctionDef, ast.AsyncFunctionDef))
            and not any(is_property_decorator(d) for d in n.decorator_list)
            and not n.name.startswith("_"))


@contract(H + "_is_private_method", props=["C16"], types=dict(method_name=Str), returns=Bool)
class IsPrivateMethod:
    def value(method_name):
        return method_name.startswith("_")


@contract(H + "has_property_decorator", props=["C16"], types=dict(func_node=PyNode), returns=Bool)
class HasPropertyDecorator:
    def native_domain(func_node):
        return isinstance(func_node, (ast.FunctionDef, ast.AsyncFunctionDef))

    def requires(func_node):
        return func_node is not None

    def value(func_node):
        return any(is_property_decorator(d) for d in func_node.decorator_list)


@contract(H + "_is_countable_method", props=["C16"], types=dict(node=PyNode), returns=Bool)
class IsCountableMethod:
    def native_domain(node):
        return isinstance(node, (ast.FunctionDef, ast.AsyncFunctionDef))

    def requires(node):
        return node is not None

    def value(node):
        return not any(is_property_decorator(d) for d in node.decorator_list) and not node.name.startswith("_")


@contract(H + "has_responsibility_keyword", props=["C16"], types=dict(class_name=Str, keywords=SeqOf(Str)), returns=Bool)
class HasResponsibilityKeyword:
    def value(class_name, keywords):
        return any(keyword in class_name for keyword in keywords)


def py_method_count(body):
    """Property text: the number of public methods of the class."""
    return sum(1 for n in body if py_is_public_method(n))


def py_is_func(n):
    return isinstance(n, (ast.FunctionDef, ast.AsyncFunctionDef))


def py_countable(n):
    return not any(is_property_decorator(d) for d in n.decorator_list) and not n.name.startswith("_")


# The three filters are opaque: the fusion proof below is pure equational reasoning over their unfolding lemmas.
@opaque
def py_funcs(body: SeqOf(PyNode)) -> SeqOf(PyNode):
    return [n for n in body if py_is_func(n)]


@opaque
def py_countables(s: SeqOf(PyNode)) -> SeqOf(PyNode):
    return [n for n in s if py_countable(n)]


@opaque
def py_publics(body: SeqOf(PyNode)) -> SeqOf(PyNode):
    return [n for n in body if py_is_public_method(n)]


@lemma(props=["C16"], types=dict(x=PyNode, t=SeqOf(PyNode)), name="py-filter-cons")
def py_cons_lemma(x, t):
    reveal(py_countables, [x] + t)
    reveal(py_countables, t)
    return py_countables([x] + t) == ([x] if py_countable(x) else []) + py_countables(t)


@lemma(props=["C16"], types=dict(body=SeqOf(PyNode)), name="py-filter-unfold")
def py_unfold_lemma(body):
    if len(body) == 0:
        reveal(py_funcs, body)
        reveal(py_publics, body)
        reveal(py_countables, body)
        return py_funcs(body) == [] and py_publics(body) == [] and py_countables(body) == []
    reveal(py_funcs, body)
    reveal(py_funcs, body[1:])
    reveal(py_publics, body)
    reveal(py_publics, body[1:])
    return (py_funcs(body) == ([body[0]] if py_is_func(body[0]) else []) + py_funcs(body[1:])
            and py_publics(body) == ([body[0]] if py_is_public_method(body[0]) else []) + py_publics(body[1:]))


@lemma(props=["C16"], types=dict(body=SeqOf(PyNode)), name="py-filter-fusion")
def py_fusion_lemma(body):
    """Filtering function nodes and then countable ones == filtering public methods in one pass."""
    use(py_unfold_lemma, body)
    if len(body) == 0:
        return py_countables(py_funcs(body)) == py_publics(body)
    ih(py_fusion_lemma, body[1:])
    if py_is_func(body[0]):
        use(py_cons_lemma, body[0], py_funcs(body[1:]))
        return py_countables(py_funcs(body)) == py_publics(body)
    return py_countables(py_funcs(body)) == py_publics(body)


@lemma(props=["C16"], types=dict(body=SeqOf(PyNode)), name="py-filter-length-is-count")
def py_len_lemma(body):
    use(py_unfold_lemma, body)
    if len(body) == 0:
        return len(py_publics(body)) == py_method_count(body)
    ih(py_len_lemma, body[1:])
    return len(py_publics(body)) == py_method_count(body)


def py_count_lemma(body):
    return py_fusion_lemma(body) and py_len_lemma(body)


@contract(H + "count_methods", props=["C16"], types=dict(class_node=PyNode), returns=Int)
class CountMethods:
    def native_domain(class_node):
        return isinstance(class_node, ast.ClassDef)

    def requires(class_node):
        return class_node is not None

    def reveals(class_node):
        return reveal(py_funcs, class_node.body) and reveal(py_countables, py_funcs(class_node.body))

    def lemmas_public_methods(class_node):
        return py_count_lemma(class_node.body)

    def ensures_public_methods(class_node, result):
        return result == py_method_count(class_node.body)


def py_is_code_line(line):
    """Docs: lines of code exclude blank lines and comment lines."""
    return line.strip() != "" and not line.strip().startswith("#")


def py_class_lines(class_node, source):
    """Source lines lineno .. end_lineno of the class (1-based, inclusive)."""
    return source.split("\n")[class_node.lineno - 1:(class_node.end_lineno if class_node.end_lineno else class_node.lineno)]


def py_code_line_count(lines):
    return sum(1 for line in lines if py_is_code_line(line))


@lemma(props=["C16", "C13"], types=dict(lines=SeqOf(Str)), name="py-loc-filter-length-is-count")
def py_loc_lemma(lines):
    """The list built by heuristics.count_loc has as many elements as there are code lines."""
    if len(lines) == 0:
        return len([s for line in lines if (s := line.strip()) and not s.startswith("#")]) == py_code_line_count(lines)
    ih(py_loc_lemma, lines[1:])
    return len([s for line in lines if (s := line.strip()) and not s.startswith("#")]) == py_code_line_count(lines)


@contract(H + "count_loc", props=["C16", "C13"], types=dict(class_node=PyNode, source=Str), returns=Int)
class CountLoc:
    def native_domain(class_node, source):
        return isinstance(class_node, ast.ClassDef)

    def requires(class_node, source):
        return class_node is not None

    def lemmas_code_lines(class_node, source):
        return py_loc_lemma(py_class_lines(class_node, source))

    def ensures_code_lines(class_node, source, result):
        return result == py_code_line_count(py_class_lines(class_node, source))


# ====================================================================================== python_analyzer.py
PA = "src/linters/srp/python_analyzer.py::"
ClassMetrics = Rec("ClassMetrics", as_dict=True, class_name=Str, method_count=Int, loc=Int, has_keyword=Bool,
                   line=Int, column=Int)


def has_keyword(name, keywords):
    """Property text: the name contains a configured responsibility keyword."""
    return any(keyword in name for keyword in keywords)


@contract(PA + "find_all_classes", props=["C16", "C12"], types=dict(tree=PyNode, classes=SeqOf(PyNode), node=PyNode),
          returns=SeqOf(PyNode))
class PyFindAllClasses:
    """Every class definition reachable from the tree (ast.walk is trusted), each exactly once, in walk order."""
    def requires(tree):
        return tree is not None

    def value(tree):
        return [node for node in py_walk(tree) if isinstance(node, ast.ClassDef)]

    def inv0(tree, classes, rest):
        return [node for node in py_walk(tree) if isinstance(node, ast.ClassDef)] == \
            classes + [node for node in rest if isinstance(node, ast.ClassDef)]


def py_metrics(class_node, source, config):
    """Metrics record of one Python class (what analyze_class returns)."""
    return mk(ClassMetrics, class_name=class_node.name, method_count=py_method_count(class_node.body),
              loc=py_code_line_count(py_class_lines(class_node, source)),
              has_keyword=has_keyword(class_node.name, config.keywords), line=class_node.lineno, column=class_node.col_offset)


@contract(PA + "analyze_class", props=["C16", "C12"], types=dict(class_node=PyNode, source=Str, config=SRPConfigT),
          returns=ClassMetrics)
class PyAnalyzeClass:
    def native_domain(class_node, source, config):
        return isinstance(class_node, ast.ClassDef)

    def requires(class_node, source, config):
        return class_node is not None

    def value(class_node, source, config):
        # C12: EXACTLY these six keys -- "line" is the class header (class_node.lineno) and the record carries no other key
        # that a consumer could take for the location
        return py_metrics(class_node, source, config)

    def ensures_metrics(class_node, source, config, result):
        return (result["method_count"] == py_method_count(class_node.body)
                and result["loc"] == py_code_line_count(py_class_lines(class_node, source))
                and result["has_keyword"] == has_keyword(class_node.name, config.keywords))

    def ensures_header_position(class_node, source, config, result):
        return (result["class_name"] == class_node.name and result["line"] == class_node.lineno
                and result["column"] == class_node.col_offset)


PyAnalyzerT = Rec("PythonSRPAnalyzer", cls=PA + "PythonSRPAnalyzer")


@contract(PA + "PythonSRPAnalyzer.find_all_classes", props=["C16", "C12"], types=dict(self=PyAnalyzerT, tree=PyNode),
          returns=SeqOf(PyNode))
class PyWrapFindAllClasses:
    def requires(self, tree):
        return tree is not None

    def value(self, tree):
        return [node for node in py_walk(tree) if isinstance(node, ast.ClassDef)]


@contract(PA + "PythonSRPAnalyzer.analyze_class", props=["C16", "C12"],
          types=dict(self=PyAnalyzerT, class_node=PyNode, source=Str, config=SRPConfigT), returns=ClassMetrics)
class PyWrapAnalyzeClass:
    def native_domain(self, class_node, source, config):
        return isinstance(class_node, ast.ClassDef)

    def requires(self, class_node, source, config):
        return class_node is not None

    def value(self, class_node, source, config):
        return py_metrics(class_node, source, config)

    def ensures_metrics(self, class_node, source, config, result):
        return (result["method_count"] == py_method_count(class_node.body)
                and result["loc"] == py_code_line_count(py_class_lines(class_node, source))
                and result["has_keyword"] == has_keyword(class_node.name, config.keywords))

    def ensures_header_position(self, class_node, source, config, result):
        return (result["class_name"] == class_node.name and result["line"] == class_node.lineno
                and result["column"] == class_node.col_offset)


# ====================================================================================== typescript_metrics_calculator.py
TM = "src/linters/srp/typescript_metrics_calculator.py::"


def first_child_of_type(s: SeqOf(TSNode), k: Str) -> TSNode:
    if len(s) == 0:
        return None
    if s[0].type == k:
        return s[0]
    return first_child_of_type(s[1:], k)


def ts_method_name(node):
    """Name of a method_definition: text of its first property_identifier child (None if it has none)."""
    c = first_child_of_type(node.children, "property_identifier")
    return None if c is None else c.text.decode()


def ts_is_public_method(node):
    """Property text / docs: a public method is a method_definition that is neither the constructor nor
    underscore-prefixed."""
    return (node.type == "method_definition" and ts_method_name(node) != "constructor"
            and not (ts_method_name(node) is not None and ts_method_name(node) != ""
                     and ts_method_name(node).startswith("_")))


def ts_method_count(class_node):
    body = first_child_of_type(class_node.children, "class_body")
    return 0 if body is None else sum(1 for child in body.children if ts_is_public_method(child))


@contract(TM + "_get_class_body", props=["C16"], types=dict(class_node=TSNode, child=TSNode), returns=TSNode)
class TsGetClassBody:
    def requires(class_node):
        return class_node is not None

    def value(class_node):
        return first_child_of_type(class_node.children, "class_body")

    def inv0(class_node, rest):
        return first_child_of_type(class_node.children, "class_body") == first_child_of_type(rest, "class_body")


@contract(TM + "_get_method_name", props=["C16"], types=dict(node=TSNode, child=TSNode), returns=Opt(Str),
          no_selftest=True)  # the random tree generator produces text-less tokens, which parse trees never contain (_nodes.py)
class TsGetMethodName:
    def requires(node):
        return node is not None

    def value(node):
        return ts_method_name(node)

    def inv0(node, rest):
        return first_child_of_type(node.children, "property_identifier") == first_child_of_type(rest, "property_identifier")


@contract(TM + "_is_countable_method", props=["C16"], types=dict(node=TSNode, method_name=Opt(Str)), returns=Bool,
          no_selftest=True)
class TsIsCountableMethod:
    def requires(node):
        return node is not None

    def value(node):
        return ts_is_public_method(node)


def ts_count_from(s: SeqOf(TSNode)) -> Int:
    if len(s) == 0:
        return 0
    return (1 if ts_is_public_method(s[0]) else 0) + ts_count_from(s[1:])


@lemma(props=["C16"], types=dict(s=SeqOf(TSNode)), name="ts-count-is-public-method-count")
def ts_count_lemma(s):
    if len(s) == 0:
        return ts_count_from(s) == sum(1 for child in s if ts_is_public_method(child))
    ih(ts_count_lemma, s[1:])
    return ts_count_from(s) == sum(1 for child in s if ts_is_public_method(child))


@contract(TM + "count_methods", props=["C16"], no_selftest=True, types=dict(class_node=TSNode, class_body=TSNode, method_count=Int, child=TSNode),
          returns=Int)
class TsCountMethods:
    def requires(class_node):
        return class_node is not None

    def lemmas_public_methods(class_node):
        return implies(first_child_of_type(class_node.children, "class_body") is not None,
                       ts_count_lemma(first_child_of_type(class_node.children, "class_body").children))

    def ensures_public_methods(class_node, result):
        return result == ts_method_count(class_node)

    def inv0(class_node, class_body, method_count, rest):
        return class_body is not None and class_body == first_child_of_type(class_node.children, "class_body") \
            and ts_count_from(class_body.children) == method_count + ts_count_from(rest)


def ts_is_code_line(line):
    """docs/srp-linter.md (How it works, 3): lines of code exclude blank lines and comments (truthy iff the stripped line
    is non-empty and does not start a `//` comment; same expression shape as count_loc so that both denote one counting
    function; the boolean reading is lemma ts-code-lines-are-nonblank-noncomment-lines)."""
    return line.strip() and not line.strip().startswith("//")


def ts_documented_code_line(line):
    return line.strip() != "" and not line.strip().startswith("//")


def ts_node_lines(node, source):
    return source.split("\n")[node.start_point[0]:node.end_point[0] + 1]


def ts_code_line_count(node, source):
    return sum(1 for line in ts_node_lines(node, source) if ts_is_code_line(line))


@lemma(props=["C16"], types=dict(lines=SeqOf(Str)), name="ts-code-lines-are-nonblank-noncomment-lines")
def ts_code_line_lemma(lines):
    """The counting predicate of the TypeScript count_loc is the documented one (non-blank and not a // comment line)."""
    if len(lines) == 0:
        return sum(1 for line in lines if ts_is_code_line(line)) == sum(1 for line in lines if ts_documented_code_line(line))
    ih(ts_code_line_lemma, lines[1:])
    return sum(1 for line in lines if ts_is_code_line(line)) == sum(1 for line in lines if ts_documented_code_line(line))


@contract(TM + "count_loc", props=["C16"], types=dict(class_node=TSNode, source=Str), returns=Int)
class TsCountLoc:
    def requires(class_node, source):
        return class_node is not None

    def value(class_node, source):
        # documented metric: the non-blank, non-comment lines of the class (fixed: C16-ts-loc-span)
        return ts_code_line_count(class_node, source)


TsCalcT = Rec("TypeScriptMetricsCalculator", cls=TM + "TypeScriptMetricsCalculator")


@contract(TM + "TypeScriptMetricsCalculator.count_methods", props=["C16"], no_selftest=True, types=dict(self=TsCalcT, class_node=TSNode), returns=Int)
class TsCalcCountMethods:
    def requires(self, class_node):
        return class_node is not None

    def value(self, class_node):
        return ts_method_count(class_node)


@contract(TM + "TypeScriptMetricsCalculator.count_loc", props=["C16"], types=dict(self=TsCalcT, class_node=TSNode, source=Str),
          returns=Int)
class TsCalcCountLoc:
    def requires(self, class_node, source):
        return class_node is not None

    def value(self, class_node, source):
        return ts_code_line_count(class_node, source)


# ====================================================================================== typescript_analyzer.py
from contracts.c01_ts_base import ts_collect_type, ts_identifier_name  # noqa: E402

TA = "src/linters/srp/typescript_analyzer.py::"
TsAnalyzerT = Rec("TypeScriptSRPAnalyzer", cls=TA + "TypeScriptSRPAnalyzer", tree_sitter_available=Bool,
                  metrics_calculator=TsCalcT)


def ts_class_name(class_node):
    return "UnnamedClass" if ts_identifier_name(class_node) == "anonymous" else ts_identifier_name(class_node)


@contract(TA + "TypeScriptSRPAnalyzer.find_all_classes", props=["C16", "C12"], types=dict(self=TsAnalyzerT, root_node=TSNode),
          returns=SeqOf(TSNode))
class TsFindAllClasses:
    """Every class_declaration of the tree exactly once, in document order."""
    def ensures_all_classes(self, root_node, result):
        return implies(root_node is not None, result == ts_collect_type(root_node, "class_declaration"))


def ts_metrics_named(class_node, name, source, config):
    return mk(ClassMetrics, class_name=name, method_count=ts_method_count(class_node), loc=ts_code_line_count(class_node, source),
              has_keyword=has_keyword(name, config.keywords), line=class_node.start_point[0] + 1,
              column=class_node.start_point[1])


def ts_metrics(class_node, source, config):
    """Metrics record of one TypeScript class (two explicit cases so that the keyword test captures a plain name)."""
    return ts_metrics_named(class_node, "UnnamedClass", source, config) if ts_identifier_name(class_node) == "anonymous" \
        else ts_metrics_named(class_node, ts_identifier_name(class_node), source, config)


@contract(TA + "TypeScriptSRPAnalyzer.analyze_class", props=["C16", "C12"], no_selftest=True,
          types=dict(self=TsAnalyzerT, class_node=TSNode, source=Str, config=SRPConfigT), returns=ClassMetrics)
class TsAnalyzeClass:
    def requires(self, class_node, source, config):
        return class_node is not None

    def value(self, class_node, source, config):
        return ts_metrics(class_node, source, config)

    def ensures_method_count(self, class_node, source, config, result):
        return result["method_count"] == ts_method_count(class_node)

    def ensures_loc(self, class_node, source, config, result):
        return result["loc"] == ts_code_line_count(class_node, source)

    def ensures_keyword(self, class_node, source, config, result):
        return (result["has_keyword"] == has_keyword("UnnamedClass", config.keywords)) \
            if ts_identifier_name(class_node) == "anonymous" \
            else (result["has_keyword"] == has_keyword(ts_identifier_name(class_node), config.keywords))

    def ensures_header_position(self, class_node, source, config, result):
        return (result["class_name"] == ts_class_name(class_node) and result["line"] == class_node.start_point[0] + 1
                and result["column"] == class_node.start_point[1])


# ====================================================================================== rust_analyzer.py
from contracts.c17_clone import first_of_type, node_text  # noqa: E402  (spec functions of the RustBaseAnalyzer contracts)
from contracts.c17_rust_context import collect_type  # noqa: E402

RA = "src/linters/srp/rust_analyzer.py::"
RustAnalyzerT = Rec("RustSRPAnalyzer", cls=RA + "RustSRPAnalyzer", tree_sitter_available=Bool)


def rs_ident_name(node):
    """RustBaseAnalyzer.extract_identifier_name."""
    return "anonymous" if first_of_type(node.children, "identifier") is None \
        else node_text(first_of_type(node.children, "identifier"))


def rs_type_name(node):
    """Name of a struct_item / target of an impl_item: its first type_identifier child ("" if none)."""
    return "" if first_of_type(node.children, "type_identifier") is None \
        else node_text(first_of_type(node.children, "type_identifier"))


def rs_is_public_method(child):
    """Property text / docs: public methods of a struct = function items of its impl blocks not prefixed with '_'."""
    return child.type == "function_item" and not rs_ident_name(child).startswith("_")


def rs_count_from(s: SeqOf(TSNode)) -> Int:
    if len(s) == 0:
        return 0
    return (1 if rs_is_public_method(s[0]) else 0) + rs_count_from(s[1:])


def rs_impl_method_count(impl_node):
    """Number of public methods of one impl block (0 if it has no declaration list)."""
    decls = first_of_type(impl_node.children, "declaration_list")
    return 0 if decls is None else rs_count_from(decls.children)


def rs_is_code_line(line):
    """docs: lines of code exclude blank lines and comments (truthy iff the stripped line is non-empty and does not
    start a `//` comment; same expression shape as RustSRPAnalyzer._node_loc so that both denote one counting function)."""
    return line.strip() and not line.strip().startswith("//")


def rs_node_lines(node, source):
    return source.split("\n")[node.start_point[0]:node.end_point[0] + 1]


def rs_node_loc(node, source):
    return sum(1 for line in rs_node_lines(node, source) if rs_is_code_line(line))


@contract(RA + "RustSRPAnalyzer.find_all_structs", props=["C16", "C12"], types=dict(self=RustAnalyzerT, root_node=TSNode),
          returns=SeqOf(TSNode))
class RsFindAllStructs:
    def ensures_all_structs(self, root_node, result):
        return implies(root_node is not None, result == collect_type(root_node, "struct_item"))


@contract(RA + "RustSRPAnalyzer.find_all_impl_blocks", props=["C16"], types=dict(self=RustAnalyzerT, root_node=TSNode),
          returns=SeqOf(TSNode))
class RsFindAllImplBlocks:
    def ensures_all_impls(self, root_node, result):
        return implies(root_node is not None, result == collect_type(root_node, "impl_item"))


@contract(RA + "RustSRPAnalyzer.get_impl_target_name", props=["C16"], types=dict(impl_node=TSNode, child=TSNode), returns=Str)
class RsGetImplTargetName:
    def requires(self, impl_node):
        return impl_node is not None

    def value(self, impl_node):
        return rs_type_name(impl_node)

    def inv0(self, impl_node, rest):
        return first_of_type(impl_node.children, "type_identifier") == first_of_type(rest, "type_identifier")


@contract(RA + "RustSRPAnalyzer._find_declaration_list", props=["C16"], types=dict(self=RustAnalyzerT, impl_node=TSNode, child=TSNode),
          returns=TSNode)
class RsFindDeclarationList:
    def requires(self, impl_node):
        return impl_node is not None

    def value(self, impl_node):
        return first_of_type(impl_node.children, "declaration_list")

    def inv0(self, impl_node, rest):
        return first_of_type(impl_node.children, "declaration_list") == first_of_type(rest, "declaration_list")


@contract(RA + "RustSRPAnalyzer._is_countable_method", props=["C16"], types=dict(func_node=TSNode, name=Str), returns=Bool)
class RsIsCountableMethod:
    def requires(self, func_node):
        return func_node is not None

    def value(self, func_node):
        return not rs_ident_name(func_node).startswith("_")


@lemma(props=["C16"], types=dict(s=SeqOf(TSNode)), name="rs-count-is-public-method-count")
def rs_count_lemma(s):
    if len(s) == 0:
        return rs_count_from(s) == sum(1 for child in s if rs_is_public_method(child))
    ih(rs_count_lemma, s[1:])
    return rs_count_from(s) == sum(1 for child in s if rs_is_public_method(child))


@contract(RA + "RustSRPAnalyzer.count_impl_methods", props=["C16"],
          types=dict(impl_node=TSNode, declaration_list=TSNode, count=Int, child=TSNode), returns=Int)
class RsCountImplMethods:
    def requires(self, impl_node):
        return impl_node is not None

    def lemmas_public_methods(self, impl_node):
        return implies(first_of_type(impl_node.children, "declaration_list") is not None,
                       rs_count_lemma(first_of_type(impl_node.children, "declaration_list").children))

    def value(self, impl_node):
        return rs_impl_method_count(impl_node)

    def ensures_public_methods(self, impl_node, result):
        return implies(first_of_type(impl_node.children, "declaration_list") is not None,
                       result == sum(1 for child in first_of_type(impl_node.children, "declaration_list").children
                                     if rs_is_public_method(child)))

    def inv0(self, impl_node, declaration_list, count, rest):
        return declaration_list is not None and declaration_list == first_of_type(impl_node.children, "declaration_list") \
            and rs_count_from(declaration_list.children) == count + rs_count_from(rest)


@contract(RA + "RustSRPAnalyzer._node_loc", props=["C16", "C13"], types=dict(self=RustAnalyzerT, node=TSNode, source=Str), returns=Int)
class RsNodeLoc:
    def requires(self, node, source):
        return node is not None

    def value(self, node, source):
        return rs_node_loc(node, source)


def rs_documented_code_line(line):
    return line.strip() != "" and not line.strip().startswith("//")


@lemma(props=["C16", "C13"], types=dict(lines=SeqOf(Str)), name="rs-code-lines-are-nonblank-noncomment-lines")
def rs_code_line_lemma(lines):
    """The counting predicate of _node_loc is the documented one (non-blank and not a // comment line)."""
    if len(lines) == 0:
        return sum(1 for line in lines if rs_is_code_line(line)) == sum(1 for line in lines if rs_documented_code_line(line))
    ih(rs_code_line_lemma, lines[1:])
    return sum(1 for line in lines if rs_is_code_line(line)) == sum(1 for line in lines if rs_documented_code_line(line))


def rs_total_methods(impl_blocks):
    """Property text: a Rust struct is judged together with ALL its impl blocks: public methods are summed."""
    return sum(rs_impl_method_count(impl_node) for impl_node in impl_blocks)


def rs_total_loc(struct_node, impl_blocks, source):
    return rs_node_loc(struct_node, source) + sum(rs_node_loc(impl_node, source) for impl_node in impl_blocks)


@contract(RA + "RustSRPAnalyzer._count_total_methods", props=["C16"], types=dict(impl_blocks=SeqOf(TSNode)), returns=Int)
class RsCountTotalMethods:
    def value(self, impl_blocks):
        return rs_total_methods(impl_blocks)


@contract(RA + "RustSRPAnalyzer._calculate_loc", props=["C16"],
          types=dict(self=RustAnalyzerT, struct_node=TSNode, impl_blocks=SeqOf(TSNode), source=Str), returns=Int)
class RsCalculateLoc:
    def requires(self, struct_node, impl_blocks, source):
        return struct_node is not None

    def value(self, struct_node, impl_blocks, source):
        return rs_total_loc(struct_node, impl_blocks, source)


def rs_struct_name(node):
    return node_text(first_of_type(node.children, "type_identifier")) \
        if first_of_type(node.children, "type_identifier") is not None else rs_ident_name(node)


@contract(RA + "RustSRPAnalyzer._extract_type_name", props=["C16"], types=dict(node=TSNode, child=TSNode), returns=Str)
class RsExtractTypeName:
    def requires(self, node):
        return node is not None

    def value(self, node):
        return rs_struct_name(node)

    def inv0(self, node, rest):
        return first_of_type(node.children, "type_identifier") == first_of_type(rest, "type_identifier")


def rs_metrics(struct_node, impl_blocks, source, config):
    """Metrics record of one Rust struct judged together with its impl blocks."""
    return mk(ClassMetrics, class_name=rs_struct_name(struct_node), method_count=rs_total_methods(impl_blocks),
              loc=rs_total_loc(struct_node, impl_blocks, source),
              has_keyword=has_keyword(rs_struct_name(struct_node), config.keywords),
              line=struct_node.start_point[0] + 1, column=struct_node.start_point[1])


@contract(RA + "RustSRPAnalyzer.analyze_struct", props=["C16", "C12"],
          types=dict(struct_node=TSNode, impl_blocks=SeqOf(TSNode), source=Str, config=SRPConfigT), returns=ClassMetrics)
class RsAnalyzeStruct:
    def requires(self, struct_node, impl_blocks, source, config):
        return struct_node is not None

    def value(self, struct_node, impl_blocks, source, config):
        return rs_metrics(struct_node, impl_blocks, source, config)

    def ensures_method_count(self, struct_node, impl_blocks, source, config, result):
        return result["method_count"] == rs_total_methods(impl_blocks)

    def ensures_loc(self, struct_node, impl_blocks, source, config, result):
        return result["loc"] == rs_total_loc(struct_node, impl_blocks, source)

    def ensures_keyword(self, struct_node, impl_blocks, source, config, result):
        return result["has_keyword"] == has_keyword(rs_struct_name(struct_node), config.keywords)

    def ensures_header_position(self, struct_node, impl_blocks, source, config, result):
        return (result["class_name"] == rs_struct_name(struct_node) and result["line"] == struct_node.start_point[0] + 1
                and result["column"] == struct_node.start_point[1])


# ====================================================================================== class_analyzer.py
from pyvc.api import uf  # noqa: E402
from contracts.c01_ts_base import ts_root  # noqa: E402
from contracts.c17_rust_context import rust_root  # noqa: E402

CA = "src/linters/srp/class_analyzer.py::"
OptPathT = Opt(PathT)
SrpCtxT = Rec("LintContext", file_path=OptPathT, file_content=Opt(Str), language=Str, metadata=Any)
ClassAnalyzerT = Rec("ClassAnalyzer", cls=CA + "ClassAnalyzer", _python_analyzer=PyAnalyzerT,
                     _typescript_analyzer=TsAnalyzerT, _rust_analyzer=RustAnalyzerT)


def _native_py_parse(text):
    return ast.parse(text)


py_root = uf("py_root", [Str], PyNode, concrete=_native_py_parse)   # Module node of a source text (CPython parser trusted)


def content_of(context):
    return context.file_content if context.file_content else ""


@contract(CA + "ClassAnalyzer._parse_python_safely", props=["C16"], types=dict(self=ClassAnalyzerT, context=SrpCtxT),
          returns=PyNode,
          assumed="CPython parser (ast.parse, external): returns the Module node of the file content; the SyntaxError "
                  "branch (a one-element list with an srp.syntax-error violation) is outside the model: C16 quantifies "
                  "over parseable programs")
class ParsePythonSafely:
    def ensures_root(self, context, result):
        return result is not None and result == py_root(content_of(context))


@contract(CA + "ClassAnalyzer.analyze_python", props=["C16", "C12"], types=dict(self=ClassAnalyzerT, context=SrpCtxT, config=SRPConfigT),
          returns=SeqOf(ClassMetrics))
class AnalyzePython:
    """One metrics record per class definition of the file, in ast.walk order."""
    def value(self, context, config):
        return [py_metrics(class_node, content_of(context), config)
                for class_node in [node for node in py_walk(py_root(content_of(context))) if isinstance(node, ast.ClassDef)]]


@contract(CA + "ClassAnalyzer.analyze_typescript", props=["C16", "C12"], no_selftest=True,
          types=dict(self=ClassAnalyzerT, context=SrpCtxT, config=SRPConfigT, root_node=Opt(TSNode)), returns=SeqOf(ClassMetrics))
class AnalyzeTypescript:
    """One metrics record per class_declaration of the file, in document order (nothing without a parser)."""
    def ensures_one_record_per_class(self, context, config, result):
        return result == ([] if ts_root(content_of(context)) is None else
                          [ts_metrics(class_node, content_of(context), config) for class_node in
                           ts_collect_type(ts_root(content_of(context)), "class_declaration")])


# ---- Rust: impl blocks grouped by the type they target -------------------------------------------------------------
from pyvc.api import Opaque  # noqa: E402
from pyvc.ex_call import external  # noqa: E402
import z3 as _z3  # noqa: E402
from pyvc.ty import VList as _VList  # noqa: E402

ImplMapT = Opaque("ImplMap")      # dict[str, list[impl_item node]] as built by ClassAnalyzer._build_impl_map


def _native_type_name(node):
    for child in node.children:
        if child.type == "type_identifier":
            return "" if child.text is None else child.text.decode()
    return ""


def _native_group(blocks, name):
    return [] if name == "" else [n for n in blocks if _native_type_name(n) == name]


def _native_map(blocks):
    out = {}
    for n in blocks:
        if _native_type_name(n):
            out.setdefault(_native_type_name(n), []).append(n)
    return out


# impl blocks (in document order) whose target type is `name`; nothing for the empty name
impl_group = uf("impl_group", [SeqOf(TSNode), Str], SeqOf(TSNode), concrete=_native_group)
impl_map_of = uf("impl_map_of", [SeqOf(TSNode)], ImplMapT, concrete=_native_map)


@external("ImplMap.get")
def _impl_map_get(ex, args, kwargs, lineno):
    """impl_map.get(name, []) on the map built from `blocks`: the group of that name (trusted reading of the dict)."""
    m, name = args[0], args[1]
    t = m.t
    if not (_z3.is_app(t) and t.decl().name() == "uf.impl_map_of"):
        from pyvc.ty import Unsupported
        raise Unsupported("ImplMap.get on a map that is not impl_map_of(blocks)")
    f = _z3.Function("uf.impl_group", SeqOf(TSNode).sort(), _z3.StringSort(), SeqOf(TSNode).sort())
    ex.ufs_used.add("impl_group")
    return _VList(TSNode, seq=f(t.arg(0), name.t))


@contract(CA + "ClassAnalyzer._build_impl_map", props=["C16"], types=dict(self=ClassAnalyzerT, impl_blocks=SeqOf(TSNode)),
          returns=ImplMapT,
          assumed="dict of node lists filled with setdefault(...).append(...) (aliasing of list values inside a dict is "
                  "outside the verified subset): maps every non-empty target type name to the impl blocks targeting it, "
                  "in document order (uninterpreted impl_group, natively the obvious grouping)")
class BuildImplMap:
    def value(self, impl_blocks):
        return impl_map_of(impl_blocks)


@contract(CA + "ClassAnalyzer.analyze_rust", props=["C16", "C12"],
          types=dict(self=ClassAnalyzerT, context=SrpCtxT, config=SRPConfigT, root_node=Opt(TSNode)), returns=SeqOf(ClassMetrics))
class AnalyzeRust:
    """One metrics record per struct_item, judged together with the impl blocks that target its name."""
    def ensures_one_record_per_struct(self, context, config, result):
        return result == ([] if rust_root(content_of(context)) is None else [
            rs_metrics(struct_node, impl_group(collect_type(rust_root(content_of(context)), "impl_item"), rs_type_name(struct_node)),
                       content_of(context), config)
            for struct_node in collect_type(rust_root(content_of(context)), "struct_item")])


# ====================================================================================== violation_builder.py
from contracts import c12_core  # noqa: E402,F401  (contracts of BaseViolationBuilder.build)
from contracts._common import path_str  # noqa: E402

VB = "src/linters/srp/violation_builder.py::"
SrpBuilderT = Rec("SrpViolationBuilder", cls=VB + "ViolationBuilder")


def path_text(context):
    """str(context.file_path or "")"""
    return path_str(context.file_path) if context.file_path is not None else ""


class _SeverityValue(str):
    """The value string of a Severity member that natively also compares equal to the member itself."""
    def __eq__(self, other):
        return getattr(other, "value", other) == str.__str__(self)

    def __ne__(self, other):
        return not self.__eq__(other)

    __hash__ = str.__hash__


SEV_ERROR = _SeverityValue("error")   # Severity.ERROR, the only severity

# same SMT sort as ViolationT (an EnumOf field is a string); natively the severity is the real Severity member
from pyvc.api import EnumOf  # noqa: E402
SevViolationT = ViolationT.extend(severity=EnumOf("src/core/types.py::Severity", pycls="src.core.types:Severity"))


def srp_message(name, issues):
    """Property text: the message lists exactly the exceeded criteria (with the true counts), comma separated."""
    return f"Class '{name}' may violate SRP: {', '.join(issues)}"


def _native_suggestion(issues):
    from src.linters.srp.violation_builder import ViolationBuilder
    return ViolationBuilder()._generate_suggestion(list(issues))


srp_suggestion = uf("srp_suggestion", [SeqOf(Str)], Str, concrete=_native_suggestion)


@contract(VB + "ViolationBuilder._generate_suggestion", props=["C16"], types=dict(self=SrpBuilderT, issues=SeqOf(Str)), returns=Str,
          assumed="refactoring advice text only (filter/join over fixed sentences): an uninterpreted function of the "
                  "issue list; no property clause depends on it")
class GenerateSuggestion:
    def value(self, issues):
        return srp_suggestion(issues)


@contract(VB + "ViolationBuilder.build_violation", props=["C16", "C12"],
          types=dict(self=SrpBuilderT, metrics=ClassMetrics, issues=SeqOf(Str), rule_id=Str, context=SrpCtxT), returns=SevViolationT)
class SrpBuildViolation:
    def value(self, metrics, issues, rule_id, context):
        return mk(ViolationT, rule_id=rule_id, file_path=path_text(context), line=metrics["line"], column=metrics["column"],
                  message=srp_message(metrics["class_name"], issues), severity=SEV_ERROR, suggestion=srp_suggestion(issues))

    def ensures_header_location(self, metrics, issues, rule_id, context, result):
        # one violation at the class header: the line/column recorded in the metrics, in this file
        return result.line == metrics["line"] and result.column == metrics["column"] and result.file_path == path_text(context)

    def ensures_message_lists_issues(self, metrics, issues, rule_id, context, result):
        return result.rule_id == rule_id and result.message == srp_message(metrics["class_name"], issues)


@contract(VB + "ViolationBuilder.build_violation~open-metrics", props=["C12", "C16"],
          types=dict(self=SrpBuilderT, metrics=Dict, issues=SeqOf(Str), rule_id=Str, context=SrpCtxT), returns=SevViolationT)
class SrpBuildViolationOpenMetrics:
    """Second view (C12): the metrics argument is an OPEN dict -- whatever further keys it carries, the violation sits at
    metrics["line"] / metrics["column"] (the class header recorded by the analyzers), in this file."""
    def requires(self, metrics, issues, rule_id, context):
        return "class_name" in metrics and isinstance(metrics["class_name"], str) and "line" in metrics \
            and isinstance(metrics["line"], int) and "column" in metrics and isinstance(metrics["column"], int)

    def ensures_header_location(self, metrics, issues, rule_id, context, result):
        return result.line == metrics["line"] and result.column == metrics["column"] and result.file_path == path_text(context)

    def ensures_names_the_class(self, metrics, issues, rule_id, context, result):
        return result.rule_id == rule_id and result.message == srp_message(metrics["class_name"], issues)


# ====================================================================================== linter.py
from contracts.c12_core import violation_of  # noqa: E402

LI = "src/linters/srp/linter.py::"
IgnoreParserT = Opaque("IgnoreDirectiveParser")
SrpRuleT = Rec("SRPRule", cls=LI + "SRPRule", _ignore_parser=IgnoreParserT, _class_analyzer=ClassAnalyzerT,
               _violation_builder=SrpBuilderT)
RULE_ID = "srp.violation"

# inline suppression directives are property C04's subject: for C16 an uninterpreted predicate of the violation's
# (rule id, line) and the file content
srp_inline_ignored = uf("srp_inline_ignored", [Str, Int, Str], Bool)


def exceeds(metrics, config):
    """Property text: reported iff public methods exceed max_methods, or lines of code exceed max_loc, or (keyword
    checking on) the name contains a responsibility keyword."""
    return (metrics["method_count"] > config.max_methods or metrics["loc"] > config.max_loc
            or (config.check_keywords and metrics["has_keyword"]))


def issues_of(metrics, config):
    return expected_issues(metrics["method_count"], metrics["loc"], metrics["has_keyword"],
                           config.max_methods, config.max_loc, config.check_keywords)


def suppressed(metrics, context):
    return context.file_content is not None and srp_inline_ignored(RULE_ID, metrics["line"], context.file_content)


def srp_violation(metrics, config, context):
    """THE violation of a class: at its header line/column, message listing exactly the exceeded criteria."""
    return violation_of(RULE_ID, path_text(context), metrics["line"], metrics["column"],
                        srp_message(metrics["class_name"], issues_of(metrics, config)), SEV_ERROR,
                        srp_suggestion(issues_of(metrics, config)))


def verdict(metrics, config, context):
    """None (not reported) or the single violation of the class."""
    return srp_violation(metrics, config, context) if exceeds(metrics, config) and not suppressed(metrics, context) else None


@contract(LI + "SRPRule.rule_id", props=["C16"], types=dict(self=SrpRuleT), returns=Str)
class SrpRuleId:
    def value(self):
        return RULE_ID


@contract(LI + "SRPRule._should_ignore", props=["C16"], types=dict(self=SrpRuleT, violation=ViolationT, context=SrpCtxT),
          returns=Bool,
          assumed="inline suppression directives (ignore parser): subject of property C04; for C16 an uninterpreted "
                  "predicate of (rule id, line, file content), False without file content")
class SrpShouldIgnore:
    def value(self, violation, context):
        return context.file_content is not None and srp_inline_ignored(violation.rule_id, violation.line, context.file_content)


@contract(LI + "SRPRule._create_violation_if_needed", props=["C16", "C12"],
          types=dict(self=SrpRuleT, metrics=ClassMetrics, config=SRPConfigT, context=SrpCtxT, issues=SeqOf(Str)),
          returns=Opt(SevViolationT))
class CreateViolationIfNeeded:
    def value(self, metrics, config, context):
        return verdict(metrics, config, context)

    def ensures_reported_iff_threshold_exceeded(self, metrics, config, context, result):
        return (result is not None) == (exceeds(metrics, config) and not suppressed(metrics, context))

    def ensures_at_class_header(self, metrics, config, context, result):
        return implies(result is not None, result.line == metrics["line"] and result.column == metrics["column"]
                       and result.rule_id == RULE_ID)

    def ensures_message_lists_exactly_the_exceeded_criteria(self, metrics, config, context, result):
        return implies(result is not None, result.message == srp_message(metrics["class_name"], issues_of(metrics, config)))


def reported(metrics_list, config, context):
    """What _build_violations_from_metrics computes: the non-None verdicts, in class order."""
    return [v for m in metrics_list if (v := verdict(m, config, context))]


def reported_doc(metrics_list, config, context):
    """Property text: exactly one violation for every class that exceeds a threshold (and is not suppressed by an
    inline directive), none for the others, in class order."""
    return [srp_violation(m, config, context) for m in metrics_list if exceeds(m, config) and not suppressed(m, context)]


@lemma(props=["C16"], types=dict(metrics_list=SeqOf(ClassMetrics), config=SRPConfigT, context=SrpCtxT),
       name="one-violation-per-offending-class")
def reported_lemma(metrics_list, config, context):
    if len(metrics_list) == 0:
        return reported(metrics_list, config, context) == reported_doc(metrics_list, config, context)
    ih(reported_lemma, metrics_list[1:], config, context)
    return reported(metrics_list, config, context) == reported_doc(metrics_list, config, context)


@contract(LI + "SRPRule._build_violations_from_metrics", props=["C16", "C12"],
          types=dict(self=SrpRuleT, metrics_list=SeqOf(ClassMetrics), config=SRPConfigT, context=SrpCtxT),
          returns=SeqOf(ViolationT))
class BuildViolationsFromMetrics:
    def value(self, metrics_list, config, context):
        return reported(metrics_list, config, context)

    def lemmas_one_violation_per_offending_class(self, metrics_list, config, context):
        return reported_lemma(metrics_list, config, context)

    def ensures_one_violation_per_offending_class(self, metrics_list, config, context, result):
        return result == reported_doc(metrics_list, config, context)


@contract(LI + "SRPRule._is_file_ignored", props=["C16"], types=dict(self=SrpRuleT, context=SrpCtxT, config=SRPConfigT), returns=Bool)
class SrpIsFileIgnored:
    def value(self, context, config):
        return len(config.ignore) > 0 and any(pattern in (path_str(context.file_path) if context.file_path is not None else "None")
                                              for pattern in config.ignore)


@contract(LI + "SRPRule._should_process_file", props=["C16"], types=dict(self=SrpRuleT, context=SrpCtxT, config=SRPConfigT), returns=Bool)
class SrpShouldProcessFile:
    def value(self, context, config):
        return config.enabled and not (len(config.ignore) > 0 and any(
            pattern in (path_str(context.file_path) if context.file_path is not None else "None") for pattern in config.ignore))


def py_reported(context, config):
    return reported([py_metrics(class_node, content_of(context), config)
                     for class_node in [node for node in py_walk(py_root(content_of(context))) if isinstance(node, ast.ClassDef)]],
                    config, context)


@contract(LI + "SRPRule._check_python", props=["C16", "C12"], types=dict(self=SrpRuleT, context=SrpCtxT, config=SRPConfigT),
          returns=SeqOf(ViolationT))
class SrpCheckPython:
    """Python: one violation per offending class of the (parseable) file."""
    def value(self, context, config):
        return py_reported(context, config)


def ts_reported(context, config):
    return reported([] if ts_root(content_of(context)) is None else
                    [ts_metrics(class_node, content_of(context), config) for class_node in
                     ts_collect_type(ts_root(content_of(context)), "class_declaration")], config, context)


@contract(LI + "SRPRule._check_typescript", props=["C16", "C12"], types=dict(self=SrpRuleT, context=SrpCtxT, config=SRPConfigT),
          returns=SeqOf(ViolationT))
class SrpCheckTypescript:
    def value(self, context, config):
        return ts_reported(context, config)


def rs_reported(context, config):
    return reported([] if rust_root(content_of(context)) is None else [
        rs_metrics(struct_node, impl_group(collect_type(rust_root(content_of(context)), "impl_item"), rs_type_name(struct_node)),
                   content_of(context), config)
        for struct_node in collect_type(rust_root(content_of(context)), "struct_item")], config, context)


@contract(LI + "SRPRule._check_rust", props=["C16", "C12"], types=dict(self=SrpRuleT, context=SrpCtxT, config=SRPConfigT),
          returns=SeqOf(ViolationT))
class SrpCheckRust:
    def value(self, context, config):
        return rs_reported(context, config)


def dispatch(context, config):
    """Language dispatch: Python / TypeScript+JavaScript / Rust classes are judged, other languages yield nothing."""
    return py_reported(context, config) if context.language == "python" else (
        ts_reported(context, config) if context.language in ("typescript", "javascript") else (
            rs_reported(context, config) if context.language == "rust" else []))


@contract(LI + "SRPRule._dispatch_by_language", props=["C16", "C12"], types=dict(self=SrpRuleT, context=SrpCtxT, config=SRPConfigT),
          returns=SeqOf(ViolationT))
class SrpDispatchByLanguage:
    def value(self, context, config):
        return dispatch(context, config)


from pyvc.api import is_str_list, as_str_list  # noqa: E402

DEFAULT_KEYWORDS = ["Manager", "Handler", "Processor", "Utility", "Helper"]


def srp_section(context):
    """The ONLY configuration the rule consults: metadata["srp"] of the file's context ({} when absent)."""
    return (dict(context.metadata) if isinstance(context.metadata, dict) else {}).get("srp", {})


def srp_lang_section(context):
    """The override section of THIS file's language ({} when the language has none)."""
    return srp_section(context).get(context.language, {}) if context.language != "" else {}


def srp_pick_of(context, key, default):
    """Property text: <language>.<key> over <key> over the built-in default, for THIS file's language."""
    return srp_lang_section(context).get(key, srp_section(context).get(key, default))


def srp_section_ok(context):
    """Well-typed `srp` section (what the configuration documents): int thresholds, bool switches, lists of strings."""
    return implies(isinstance(srp_section(context), dict),
                   isinstance(srp_lang_section(context), dict)
                   and isinstance(srp_lang_section(context).get("max_methods", 0), int)
                   and isinstance(srp_lang_section(context).get("max_loc", 0), int)
                   and isinstance(srp_section(context).get("max_methods", 0), int)
                   and isinstance(srp_section(context).get("max_loc", 0), int)
                   and isinstance(srp_section(context).get("enabled", True), bool)
                   and isinstance(srp_section(context).get("check_keywords", True), bool)
                   and is_str_list(srp_section(context).get("keywords", DEFAULT_KEYWORDS))
                   and is_str_list(srp_section(context).get("ignore", [])))


def srp_invalid(context):
    """Rejected configurations (ValueError): a non-positive effective threshold."""
    return isinstance(srp_section(context), dict) and (srp_pick_of(context, "max_methods", 7) <= 0
                                                        or srp_pick_of(context, "max_loc", 200) <= 0)


@opaque
def srp_cfg(context: SrpCtxT) -> SRPConfigT:
    """THE configuration of a file: thresholds of its language (override over top level over 7 / 200) and the switches of
    the `srp` section; the defaults when there is no (dict) section."""
    return mk(SRPConfigT,
              max_methods=srp_pick_of(context, "max_methods", 7) if isinstance(srp_section(context), dict) else 7,
              max_loc=srp_pick_of(context, "max_loc", 200) if isinstance(srp_section(context), dict) else 200,
              enabled=srp_section(context).get("enabled", True) if isinstance(srp_section(context), dict) else True,
              check_keywords=srp_section(context).get("check_keywords", True) if isinstance(srp_section(context), dict) else True,
              keywords=as_str_list(srp_section(context).get("keywords", DEFAULT_KEYWORDS)) if isinstance(srp_section(context), dict)
              else DEFAULT_KEYWORDS,
              ignore=as_str_list(srp_section(context).get("ignore", [])) if isinstance(srp_section(context), dict) else [])


def srp_file_ignored(context, config):
    return len(config.ignore) > 0 and any(
        pattern in (path_str(context.file_path) if context.file_path is not None else "None") for pattern in config.ignore)


@contract(LI + "SRPRule._load_config", props=["C16"], types=dict(self=SrpRuleT, context=SrpCtxT, metadata=Any, config_dict=Any,
                                                                 language=Opt(Str)),
          returns=SRPConfigT, raises=["ValueError"], inline=["load_linter_config"])
class SrpLoadConfig:
    """Stateless: the configuration of a file is a function of its context's `srp` section and ITS language only."""
    def requires(self, context):
        return srp_section_ok(context)

    def raises_when(self, context):
        return srp_invalid(context)

    def reveals(self, context):
        return reveal(srp_cfg, context)

    def value(self, context):
        return srp_cfg(context)

    def ensures_thresholds_of_this_language(self, context, result):
        return (result.max_methods == (srp_pick_of(context, "max_methods", 7) if isinstance(srp_section(context), dict) else 7)
                and result.max_loc == (srp_pick_of(context, "max_loc", 200) if isinstance(srp_section(context), dict) else 200))

    def ensures_switches(self, context, result):
        return implies(isinstance(srp_section(context), dict),
                       result.enabled == srp_section(context).get("enabled", True)
                       and result.check_keywords == srp_section(context).get("check_keywords", True)
                       and result.keywords == srp_section(context).get("keywords", DEFAULT_KEYWORDS)
                       and result.ignore == srp_section(context).get("ignore", [])) \
            and implies(not isinstance(srp_section(context), dict),
                        result.enabled and result.check_keywords and result.keywords == DEFAULT_KEYWORDS and result.ignore == [])


@contract(LI + "SRPRule.check", props=["C16", "C12"], types=dict(self=SrpRuleT, context=SrpCtxT, config=SRPConfigT),
          returns=SeqOf(ViolationT), raises=["ValueError"], inline=["has_file_content"])
class SrpCheck:
    """Nothing without content, when disabled or when the file matches an ignore pattern; else the verdicts of the file's
    language under the thresholds of THAT language (a function of this context only: no state carried between files)."""
    def requires(self, context):
        return srp_section_ok(context)

    def raises_when(self, context):
        return context.file_content is not None and srp_invalid(context)

    def ensures_verdicts(self, context, result):
        return result == (dispatch(context, srp_cfg(context))
                          if context.file_content is not None and srp_cfg(context).enabled
                          and not srp_file_ignored(context, srp_cfg(context)) else [])


# ====================================================================================== property-level lemmas
from pyvc.api import dict_put  # noqa: E402

CREATE = LI + "SRPRule._create_violation_if_needed"
SRP_FROM_DICT = "src/linters/srp/config.py::SRPConfig.from_dict"


@lemma(props=["C16"], types=dict(rule=SrpRuleT, metrics=ClassMetrics, config=SRPConfigT, context=SrpCtxT),
       name="boundary-on-the-limit-not-reported")
def boundary_on_limit(rule, metrics, config, context):
    """A class sitting exactly on (or below) both limits, without a flagged keyword, is not reported."""
    if not (metrics["method_count"] <= config.max_methods and metrics["loc"] <= config.max_loc
            and not (config.check_keywords and metrics["has_keyword"])):
        return True
    return call(CREATE, rule, metrics, config, context) is None


@lemma(props=["C16"], types=dict(rule=SrpRuleT, metrics=ClassMetrics, config=SRPConfigT, context=SrpCtxT),
       name="boundary-one-above-the-limit-reported")
def boundary_above_limit(rule, metrics, config, context):
    """One method (or one line) above the limit is reported (unless an inline directive suppresses it), whatever the
    other metrics are; the message names the true count and the limit."""
    if suppressed(metrics, context):
        return True
    if metrics["method_count"] == config.max_methods + 1:
        v = call(CREATE, rule, metrics, config, context)
        return v is not None and f"{config.max_methods + 1} methods (max: {config.max_methods})" in issues_of(metrics, config)
    if metrics["loc"] == config.max_loc + 1:
        v = call(CREATE, rule, metrics, config, context)
        return v is not None and f"{config.max_loc + 1} lines (max: {config.max_loc})" in issues_of(metrics, config)
    return True


@lemma(props=["C16"], types=dict(metrics=Metrics, config=SRPConfigT), name="message-lists-exactly-the-exceeded-criteria")
def message_exact(metrics, config):
    """evaluate_metrics: one entry per exceeded criterion (true counts), nothing else, in the order methods/lines/keyword."""
    issues = call(EVAL, metrics, config)
    ms = f"{metrics['method_count']} methods (max: {config.max_methods})"
    ls = f"{metrics['loc']} lines (max: {config.max_loc})"
    ks = "responsibility keyword in name"
    # one proof path per combination of exceeded criteria
    if metrics["method_count"] > config.max_methods:
        if metrics["loc"] > config.max_loc:
            if config.check_keywords and metrics["has_keyword"]:
                return issues == [ms, ls, ks]
            return issues == [ms, ls]
        if config.check_keywords and metrics["has_keyword"]:
            return issues == [ms, ks]
        return issues == [ms]
    if metrics["loc"] > config.max_loc:
        if config.check_keywords and metrics["has_keyword"]:
            return issues == [ls, ks]
        return issues == [ls]
    if config.check_keywords and metrics["has_keyword"]:
        return issues == [ks]
    return issues == []


def srp_pick(config, language, key, default):
    """Documented precedence: <language>.<key> over <key> over the built-in default."""
    return (config[language][key] if language is not None and language != "" and language in config and key in config[language]
            else (config[key] if key in config else default))


def srp_cfg_ok(config, language):
    """Precondition of the SRPConfig.from_dict contract (well-typed sections), spelled out."""
    return (implies(language is not None and language != "" and language in config, isinstance(config[language], dict))
            and implies("max_methods" in config, isinstance(config["max_methods"], int))
            and implies("max_loc" in config, isinstance(config["max_loc"], int))
            and implies(language is not None and language != "" and language in config,
                        implies("max_methods" in config[language], isinstance(config[language]["max_methods"], int))
                        and implies("max_loc" in config[language], isinstance(config[language]["max_loc"], int))))


@lemma(props=["C16"], types=dict(config=Dict, language=Str, other=Str, section=Any),
       name="language-override-applies-only-to-that-language")
def override_only_own_language(config, language, other, section):
    """Changing (adding, replacing) the override section of ANOTHER language never changes the thresholds used for
    files of `language`; and the own section wins over the top-level value, which wins over the default."""
    if language == other or language == "" or other in ("max_methods", "max_loc"):
        return True
    config2 = dict_put(config, other, section)
    if not (srp_cfg_ok(config, language) and srp_cfg_ok(config2, language)):
        return True
    if not (srp_pick(config, language, "max_methods", 7) > 0 and srp_pick(config, language, "max_loc", 200) > 0
            and srp_pick(config2, language, "max_methods", 7) > 0 and srp_pick(config2, language, "max_loc", 200) > 0):
        return True  # from_dict rejects non-positive thresholds (ValueError), see SRPConfig.__post_init__
    a = call(SRP_FROM_DICT, config, language)
    b = call(SRP_FROM_DICT, config2, language)
    return (a.max_methods == b.max_methods and a.max_loc == b.max_loc
            and a.max_methods == srp_pick(config, language, "max_methods", 7)
            and a.max_loc == srp_pick(config, language, "max_loc", 200))


SyntaxErrorT = Rec("SyntaxErrorInfo", lineno=Opt(Int), offset=Opt(Int), msg=Str)


@contract(CA + "ClassAnalyzer._create_syntax_error_violation", props=["C16", "C12"],
          types=dict(self=ClassAnalyzerT, exc=SyntaxErrorT, context=SrpCtxT), returns=SevViolationT)
class CreateSyntaxErrorViolation:
    def ensures_points_at_the_error(self, exc, context, result):
        return (result.rule_id == "srp.syntax-error" and result.file_path == path_text(context)
                and result.line == (exc.lineno if exc.lineno else 1) and result.column == (exc.offset if exc.offset else 0)
                and result.message == f"Syntax error: {exc.msg}")


# ====================================================================================== bounded stand-in for the one
# assumed piece of SRP decision logic (dict-of-lists grouping): NOT a proof, listed under `bounded` in the evidence
from pyvc.api import custom  # noqa: E402


@custom("c16-impl-map-bounded", props=["C16"])
def c16_impl_map_bounded(ctx):
    """ClassAnalyzer._build_impl_map (assumed contract: value impl_map_of(blocks), read through impl_group) is run
    natively on every sequence of <= 5 impl blocks whose target type is one of A, B or missing: the map's entry for
    every name (and the [] default for unknown / empty names) must be exactly the blocks targeting that name, in order."""
    import itertools
    import time
    from pyvc.native import FakeNode, resolve_target
    t0 = time.time()
    try:
        _, _, cls = resolve_target(CA + "ClassAnalyzer")
        analyzer = cls()
    except Exception as e:  # noqa
        return [{"name": "c16-impl-map-bounded", "kind": "bounded", "verdict": "unknown", "note": f"cannot import: {e!r}"[:300],
                 "tool": "cpython", "budget": "-", "cases": 0}]

    def impl(i, name):
        kids = [FakeNode(type="impl", text=b"impl", children=[])]
        if name is not None:
            kids.append(FakeNode(type="type_identifier", text=name.encode(), children=[]))
        kids.append(FakeNode(type="declaration_list", text=b"{}", children=[]))
        return FakeNode(type="impl_item", id=i, children=kids, text=None)

    bad, cases = None, 0
    for n in range(6):
        for names in itertools.product([None, "A", "B"], repeat=n):
            blocks = [impl(i, nm) for i, nm in enumerate(names)]
            cases += 1
            try:
                got = analyzer._build_impl_map(blocks)
                for key in ("", "A", "B", "C"):
                    if got.get(key, []) != _native_group(blocks, key):
                        bad = (list(names), key, [b.id for b in got.get(key, [])])
                if bad is None and set(got) != {nm for nm in names if nm}:
                    bad = (list(names), "keys", sorted(got))
            except Exception as e:  # noqa
                bad = (list(names), "exception", repr(e))
            if bad:
                break
        if bad:
            break
    return [{"name": "c16-impl-map-bounded", "kind": "bounded", "verdict": "passed" if bad is None else "refuted",
             "note": "" if bad is None else f"_build_impl_map on targets {bad[0]}: entry {bad[1]!r} -> {bad[2]}",
             "tool": "cpython (exhaustive)", "budget": "all sequences of <= 5 impl blocks over targets {A, B, none}",
             "cases": cases, "ms": round((time.time() - t0) * 1000, 1), "witness_confirmed": bad is not None,
             "model_inputs": {"targets": bad[0]} if bad else None}]
