"""C16 -- SRP thresholds (contracts on src/linters/srp/*)."""
from pyvc.api import contract, lemma, Int, Bool, Str, SeqOf, Rec, Opt, implies, call

Metrics = Rec("Metrics", as_dict=True, method_count=Int, loc=Int, has_keyword=Bool)
SRPConfigT = Rec("SRPConfig", cls="src/linters/srp/config.py::SRPConfig", pycls="src.linters.srp.config:SRPConfig",
                 max_methods=Int, max_loc=Int, enabled=Bool, check_keywords=Bool,
                 keywords=SeqOf(Str), ignore=SeqOf(Str))

EVAL = "src/linters/srp/metrics_evaluator.py::evaluate_metrics"


def expected_issues(method_count, loc, has_keyword, max_methods, max_loc, check_keywords):
    """Property text: lists exactly the criteria that were exceeded, with the true counts."""
    return (([f"{method_count} methods (max: {max_methods})"] if method_count > max_methods else [])
            + ([f"{loc} lines (max: {max_loc})"] if loc > max_loc else [])
            + (["responsibility keyword in name"] if check_keywords and has_keyword else []))


@contract(EVAL, props=["C16", "C05"], types=dict(metrics=Metrics, config=SRPConfigT), returns=SeqOf(Str))
class EvaluateMetrics:
    def ensures_reported_iff(metrics, config, result):
        return (len(result) > 0) == (metrics["method_count"] > config.max_methods
                                     or metrics["loc"] > config.max_loc
                                     or (config.check_keywords and metrics["has_keyword"]))

    def ensures_exact_issues(metrics, config, result):
        return result == expected_issues(metrics["method_count"], metrics["loc"], metrics["has_keyword"],
                                         config.max_methods, config.max_loc, config.check_keywords)


# ====================================================================================== heuristics.py (Python classes)
import ast  # noqa: E402

from pyvc.api import Any, Dict, TupleOf, mk, ih, opaque, reveal, use  # noqa: E402
from contracts._nodes import PyNode, TSNode  # noqa: E402
from contracts._common import ViolationT, PathT  # noqa: E402,F401  (also registers the ast.walk external)

H = "src/linters/srp/heuristics.py::"


def is_property_decorator(d):
    return isinstance(d, ast.Name) and d.id == "property"


def py_is_public_method(n):
    """Property text / docs: public methods = function definitions in the class body that are neither
    @property nor underscore-prefixed (private and dunder members are not counted)."""
    return (isinstance(n, (ast.FunctionDef, ast.AsyncFunctionDef))
            and not any(is_property_decorator(d) for d in n.decorator_list)
            and not n.name.startswith("_"))


@contract(H + "_is_private_method", props=["C16"], types=dict(method_name=Str), returns=Bool)
class IsPrivateMethod:
    def value(method_name):
        return method_name.startswith("_")


@contract(H + "has_property_decorator", props=["C16"], types=dict(func_node=PyNode), returns=Bool)
class HasPropertyDecorator:
    def requires(func_node):
        return func_node is not None

    def value(func_node):
        return any(is_property_decorator(d) for d in func_node.decorator_list)


@contract(H + "_is_countable_method", props=["C16"], types=dict(node=PyNode), returns=Bool)
class IsCountableMethod:
    def requires(node):
        return node is not None

    def value(node):
        return not any(is_property_decorator(d) for d in node.decorator_list) and not node.name.startswith("_")


@contract(H + "has_responsibility_keyword", props=["C16"], types=dict(class_name=Str, keywords=SeqOf(Str)), returns=Bool)
class HasResponsibilityKeyword:
    def value(class_name, keywords):
        return any(keyword in class_name for keyword in keywords)


def py_method_count(body):
    """Property text: the number of public methods of the class."""
    return sum(1 for n in body if py_is_public_method(n))


def py_is_func(n):
    return isinstance(n, (ast.FunctionDef, ast.AsyncFunctionDef))


def py_countable(n):
    return not any(is_property_decorator(d) for d in n.decorator_list) and not n.name.startswith("_")


# The three filters are opaque: the fusion proof below is pure equational reasoning over their unfolding lemmas.
@opaque
def py_funcs(body: SeqOf(PyNode)) -> SeqOf(PyNode):
    return [n for n in body if py_is_func(n)]


@opaque
def py_countables(s: SeqOf(PyNode)) -> SeqOf(PyNode):
    return [n for n in s if py_countable(n)]


@opaque
def py_publics(body: SeqOf(PyNode)) -> SeqOf(PyNode):
    return [n for n in body if py_is_public_method(n)]


@lemma(props=["C16"], types=dict(x=PyNode, t=SeqOf(PyNode)), name="py-filter-cons")
def py_cons_lemma(x, t):
    reveal(py_countables, [x] + t)
    reveal(py_countables, t)
    return py_countables([x] + t) == ([x] if py_countable(x) else []) + py_countables(t)


@lemma(props=["C16"], types=dict(body=SeqOf(PyNode)), name="py-filter-unfold")
def py_unfold_lemma(body):
    if len(body) == 0:
        reveal(py_funcs, body)
        reveal(py_publics, body)
        reveal(py_countables, body)
        return py_funcs(body) == [] and py_publics(body) == [] and py_countables(body) == []
    reveal(py_funcs, body)
    reveal(py_funcs, body[1:])
    reveal(py_publics, body)
    reveal(py_publics, body[1:])
    return (py_funcs(body) == ([body[0]] if py_is_func(body[0]) else []) + py_funcs(body[1:])
            and py_publics(body) == ([body[0]] if py_is_public_method(body[0]) else []) + py_publics(body[1:]))


@lemma(props=["C16"], types=dict(body=SeqOf(PyNode)), name="py-filter-fusion")
def py_fusion_lemma(body):
    """Filtering function nodes and then countable ones == filtering public methods in one pass."""
    use(py_unfold_lemma, body)
    if len(body) == 0:
        return py_countables(py_funcs(body)) == py_publics(body)
    ih(py_fusion_lemma, body[1:])
    if py_is_func(body[0]):
        use(py_cons_lemma, body[0], py_funcs(body[1:]))
        return py_countables(py_funcs(body)) == py_publics(body)
    return py_countables(py_funcs(body)) == py_publics(body)


@lemma(props=["C16"], types=dict(body=SeqOf(PyNode)), name="py-filter-length-is-count")
def py_len_lemma(body):
    use(py_unfold_lemma, body)
    if len(body) == 0:
        return len(py_publics(body)) == py_method_count(body)
    ih(py_len_lemma, body[1:])
    return len(py_publics(body)) == py_method_count(body)


def py_count_lemma(body):
    return py_fusion_lemma(body) and py_len_lemma(body)


@contract(H + "count_methods", props=["C16"], types=dict(class_node=PyNode), returns=Int)
class CountMethods:
    def requires(class_node):
        return class_node is not None

    def reveals(class_node):
        return reveal(py_funcs, class_node.body) and reveal(py_countables, py_funcs(class_node.body))

    def lemmas_public_methods(class_node):
        return py_count_lemma(class_node.body)

    def ensures_public_methods(class_node, result):
        return result == py_method_count(class_node.body)


def py_is_code_line(line):
    """Docs: lines of code exclude blank lines and comment lines."""
    return line.strip() != "" and not line.strip().startswith("#")


def py_class_lines(class_node, source):
    """Source lines lineno .. end_lineno of the class (1-based, inclusive)."""
    return source.split("\n")[class_node.lineno - 1:(class_node.end_lineno if class_node.end_lineno else class_node.lineno)]


def py_code_line_count(lines):
    return sum(1 for line in lines if py_is_code_line(line))


@lemma(props=["C16"], types=dict(lines=SeqOf(Str)), name="py-loc-filter-length-is-count")
def py_loc_lemma(lines):
    """The list built by heuristics.count_loc has as many elements as there are code lines."""
    if len(lines) == 0:
        return len([s for line in lines if (s := line.strip()) and not s.startswith("#")]) == py_code_line_count(lines)
    ih(py_loc_lemma, lines[1:])
    return len([s for line in lines if (s := line.strip()) and not s.startswith("#")]) == py_code_line_count(lines)


@contract(H + "count_loc", props=["C16"], types=dict(class_node=PyNode, source=Str), returns=Int)
class CountLoc:
    def requires(class_node, source):
        return class_node is not None

    def lemmas_code_lines(class_node, source):
        return py_loc_lemma(py_class_lines(class_node, source))

    def ensures_code_lines(class_node, source, result):
        return result == py_code_line_count(py_class_lines(class_node, source))


# ====================================================================================== python_analyzer.py
PA = "src/linters/srp/python_analyzer.py::"
ClassMetrics = Rec("ClassMetrics", as_dict=True, class_name=Str, method_count=Int, loc=Int, has_keyword=Bool,
                   line=Int, column=Int)


def has_keyword(name, keywords):
    """Property text: the name contains a configured responsibility keyword."""
    return any(keyword in name for keyword in keywords)


@contract(PA + "find_all_classes", props=["C16"], types=dict(tree=PyNode, classes=SeqOf(PyNode), node=PyNode),
          returns=SeqOf(PyNode))
class PyFindAllClasses:
    """Every class definition reachable from the tree (ast.walk is trusted), each exactly once, in walk order."""
    def requires(tree):
        return tree is not None

    def value(tree):
        return [node for node in tree.walk if isinstance(node, ast.ClassDef)]

    def inv0(tree, classes, done, rest):
        return classes == [node for node in done if isinstance(node, ast.ClassDef)] and done + rest == tree.walk


@contract(PA + "analyze_class", props=["C16"], types=dict(class_node=PyNode, source=Str, config=SRPConfigT),
          returns=ClassMetrics)
class PyAnalyzeClass:
    def requires(class_node, source, config):
        return class_node is not None

    def ensures_metrics(class_node, source, config, result):
        return (result["method_count"] == py_method_count(class_node.body)
                and result["loc"] == py_code_line_count(py_class_lines(class_node, source))
                and result["has_keyword"] == has_keyword(class_node.name, config.keywords))

    def ensures_header_position(class_node, source, config, result):
        return (result["class_name"] == class_node.name and result["line"] == class_node.lineno
                and result["column"] == class_node.col_offset)
