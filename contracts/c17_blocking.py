"""C17 -- blocking-async: analyzer (src/linters/blocking_async/rust_analyzer.py) and config switches (linter.py).

Top-level spec (property text): `blocking-async` reports exactly the std::fs, std::thread::sleep and std::net calls
lexically inside an `async fn` and not inside a spawn_blocking / block_in_place-style wrapper, under the test-code
exemption, each individually switchable by its detect_* option. Which call paths count as std::fs / sleep / std::net
is the documented list (docs/blocking-async-linter.md): `std::fs::<fn>` / `fs::<fn>` for the 14 listed functions,
`std::thread::sleep` / `thread::sleep`, `std::net::<Type>` / `net::<Type>` for TcpStream, TcpListener, UdpSocket.

Triage against the property text:
* closures inside an async fn: lexically inside the async fn -> reported (code agrees).
* a non-async `fn` nested in an async fn: still lexically inside an `async fn` -> reported; `_is_in_async_context`
  not stopping at the nested fn agrees with the literal property text (`in_async_from` below is that reading).
* `async { }` blocks in a sync fn are not an `async fn` -> not reported (code agrees).
* wrapper calls written as METHOD calls (`handle.spawn_blocking(|| ..)`) or with a turbofish
  (`spawn_blocking::<_, T>(|| ..)`) are not recognised: known finding C17-wrapper-call-shapes."""
from pyvc.api import contract, lemma, Int, Bool, Str, SeqOf, Rec, Opt, implies, call, mk, opaque, reveal, ih
from contracts._nodes import TSNode, ts_depth
from contracts._common import ViolationT
from contracts.c12_core import violation_of
from contracts.c17_clone import node_text, first_of_type, field_ident_text
from contracts.c17_rust_context import inside_test_from, is_async_fn, rust_root
from contracts.c17_unwrap import line_ctx

F = "src/linters/blocking_async/rust_analyzer.py::"
L = "src/linters/blocking_async/linter.py::"

FS_FUNCTIONS = ("read_to_string", "read", "write", "create_dir", "create_dir_all", "remove_file", "remove_dir",
                "remove_dir_all", "rename", "copy", "metadata", "read_dir", "canonicalize", "read_link")
NET_TYPES = ("TcpStream", "TcpListener", "UdpSocket")
WRAPPERS = ("asyncify", "spawn_blocking", "block_in_place")
PATTERNS = ("fs-in-async", "sleep-in-async", "net-in-async")

BlockingCallT = Rec("BlockingCall", cls=F + "BlockingCall", pycls="src.linters.blocking_async.rust_analyzer:BlockingCall",
                    line=Int, column=Int, pattern=Str, is_in_test=Bool, context=Str, blocking_api=Str)
BlockingConfigT = Rec("BlockingAsyncConfig", pycls="src.linters.blocking_async.config:BlockingAsyncConfig",
                      enabled=Bool, allow_in_tests=Bool, detect_fs_in_async=Bool, detect_sleep_in_async=Bool,
                      detect_net_in_async=Bool, ignore=SeqOf(Str))
AnalyzerT = Rec("RustBlockingAsyncAnalyzer", cls=F + "RustBlockingAsyncAnalyzer", tree_sitter_available=Bool)


# ------------------------------------------------------------------ path classification (segments of path.split("::"))
def std_fs_parts(parts):
    return len(parts) >= 3 and parts[0] == "std" and parts[1] == "fs" and parts[2] in FS_FUNCTIONS


def short_fs_parts(parts):
    return len(parts) >= 2 and parts[0] == "fs" and parts[1] in FS_FUNCTIONS


def std_sleep_parts(parts):
    return len(parts) >= 3 and parts[0] == "std" and parts[1] == "thread" and parts[2] == "sleep"


def short_sleep_parts(parts):
    return len(parts) >= 2 and parts[0] == "thread" and parts[1] == "sleep"


def std_net_parts(parts):
    return len(parts) >= 3 and parts[0] == "std" and parts[1] == "net" and parts[2] in NET_TYPES


def short_net_parts(parts):
    return len(parts) >= 2 and parts[0] == "net" and parts[1] in NET_TYPES


@opaque
def is_fs_path(path: Str) -> Bool:
    """A documented blocking std::fs call path."""
    return std_fs_parts(path.split("::")) or short_fs_parts(path.split("::"))


@opaque
def is_sleep_path(path: Str) -> Bool:
    return std_sleep_parts(path.split("::")) or short_sleep_parts(path.split("::"))


@opaque
def is_net_path(path: Str) -> Bool:
    return std_net_parts(path.split("::")) or short_net_parts(path.split("::"))


def blocking_pattern(path):
    """_classify_blocking_pattern: first match of fs, sleep, net (the three are pairwise exclusive, see lemma)."""
    if is_fs_path(path):
        return "fs-in-async"
    if is_sleep_path(path):
        return "sleep-in-async"
    if is_net_path(path):
        return "net-in-async"
    return None


PARTS = dict(parts=SeqOf(Str))


@contract(F + "_matches_std_fs_pattern", props=["C17", "C11", "C13", "C19"], types=PARTS, returns=Bool)
class MatchesStdFs:
    def value(parts):
        return std_fs_parts(parts)


@contract(F + "_matches_short_fs_pattern", props=["C17", "C11", "C13", "C19"], types=PARTS, returns=Bool)
class MatchesShortFs:
    def value(parts):
        return short_fs_parts(parts)


@contract(F + "_matches_std_sleep_pattern", props=["C17", "C11", "C13", "C19"], types=PARTS, returns=Bool)
class MatchesStdSleep:
    def value(parts):
        return std_sleep_parts(parts)


@contract(F + "_matches_short_sleep_pattern", props=["C17", "C11", "C13", "C19"], types=PARTS, returns=Bool)
class MatchesShortSleep:
    def value(parts):
        return short_sleep_parts(parts)


@contract(F + "_matches_std_net_pattern", props=["C17", "C11", "C13", "C19"], types=PARTS, returns=Bool)
class MatchesStdNet:
    def value(parts):
        return std_net_parts(parts)


@contract(F + "_matches_short_net_pattern", props=["C17", "C11", "C13", "C19"], types=PARTS, returns=Bool)
class MatchesShortNet:
    def value(parts):
        return short_net_parts(parts)


@contract(F + "_is_blocking_fs", props=["C17", "C11", "C13", "C19"], types=dict(path=Str, parts=SeqOf(Str)), returns=Bool)
class IsBlockingFs:
    def reveals(path):
        return reveal(is_fs_path, path)

    def value(path):
        return is_fs_path(path)


@contract(F + "_is_blocking_sleep", props=["C17", "C11", "C13", "C19"], types=dict(path=Str, parts=SeqOf(Str)), returns=Bool)
class IsBlockingSleep:
    def reveals(path):
        return reveal(is_sleep_path, path)

    def value(path):
        return is_sleep_path(path)


@contract(F + "_is_blocking_net", props=["C17", "C11", "C13", "C19"], types=dict(path=Str, parts=SeqOf(Str)), returns=Bool)
class IsBlockingNet:
    def reveals(path):
        return reveal(is_net_path, path)

    def value(path):
        return is_net_path(path)


@contract(F + "_classify_blocking_pattern", props=["C17", "C11", "C13", "C19"], types=dict(path=Str), returns=Opt(Str))
class ClassifyBlockingPattern:
    def value(path):
        return blocking_pattern(path)

    def ensures_some_pattern_iff_documented_blocking_api(path, result):
        return (result is not None) == (is_fs_path(path) or is_sleep_path(path) or is_net_path(path))


@lemma(props=["C17"], types=dict(path=Str), name="blocking-patterns-exclusive")
def blocking_patterns_exclusive(path):
    """No call path is in two categories, so "first match" classification loses nothing (contrast: clone-abuse)."""
    reveal(is_fs_path, path)
    reveal(is_sleep_path, path)
    reveal(is_net_path, path)
    return (not (is_fs_path(path) and is_sleep_path(path)) and not (is_fs_path(path) and is_net_path(path))
            and not (is_sleep_path(path) and is_net_path(path)))


# ------------------------------------------------------------------ async context
def in_async_from(n: TSNode) -> Bool:
    """n or one of its ancestors is an `async fn` (function_item with an `async` modifier)."""
    return n is not None and ((n.type == "function_item" and is_async_fn(n)) or in_async_from(n.parent))


@contract(F + "RustBlockingAsyncAnalyzer._is_in_async_context", props=["C17", "C11", "C13", "C19"], types=dict(node=TSNode, current=TSNode),
          returns=Bool)
class IsInAsyncContext:
    def requires(node):
        return node is not None

    def value(node):
        # property text: "lexically inside an `async fn`"
        return in_async_from(node.parent)

    def inv0(node, current):
        return in_async_from(node.parent) == in_async_from(current)

    def var0(current):
        return ts_depth(current)


# ------------------------------------------------------------------ wrappers
@opaque
def last_segment(s: Str) -> Str:
    return s.split("::")[-1]


def text_is_wrapper(n):
    return n.text is not None and n.text.decode() in WRAPPERS


def scoped_is_wrapper(n):
    return n.text is not None and last_segment(n.text.decode()) in WRAPPERS


def child_is_wrapper_name(child):
    """Code: only a plain or scoped identifier in function position names a wrapper."""
    if child.type == "identifier":
        return text_is_wrapper(child)
    if child.type == "scoped_identifier":
        return scoped_is_wrapper(child)
    return False


def is_wrapper_call(n):
    return n.type == "call_expression" and any(child_is_wrapper_name(child) for child in n.children)


def wrapped_from(n: TSNode) -> Bool:
    """n or one of its ancestors is a call of a wrapper function."""
    return n is not None and (is_wrapper_call(n) or wrapped_from(n.parent))


@contract(F + "_node_text_matches_wrapper", props=["C17", "C11", "C13", "C19"], types=dict(node=TSNode), returns=Bool)
class NodeTextMatchesWrapper:
    def requires(node):
        return node is not None

    def value(node):
        return text_is_wrapper(node)


@contract(F + "_scoped_name_matches_wrapper", props=["C17", "C11", "C13", "C19"], types=dict(node=TSNode), returns=Bool)
class ScopedNameMatchesWrapper:
    def requires(node):
        return node is not None

    def reveals(node):
        return reveal(last_segment, node_text(node))

    def value(node):
        return scoped_is_wrapper(node)


@contract(F + "_child_is_wrapper_name", props=["C17", "C11", "C13", "C19"], types=dict(child=TSNode), returns=Bool)
class ChildIsWrapperName:
    def requires(child):
        return child is not None

    def value(child):
        return child_is_wrapper_name(child)


@contract(F + "_is_wrapper_call", props=["C17", "C11", "C13", "C19"], types=dict(node=TSNode), returns=Bool)
class IsWrapperCall:
    def requires(node):
        return node is not None

    def value(node):
        return is_wrapper_call(node)


@contract(F + "_is_inside_blocking_wrapper", props=["C17", "C11", "C13", "C19"], types=dict(node=TSNode, current=TSNode), returns=Bool)
class IsInsideBlockingWrapper:
    def requires(node):
        return node is not None

    def value(node):
        return wrapped_from(node.parent)

    def inv0(node, current):
        return wrapped_from(node.parent) == wrapped_from(current)

    def var0(current):
        return ts_depth(current)


# documented notion of "a spawn_blocking / block_in_place-style wrapper": a call whose called function is NAMED
# asyncify / spawn_blocking / block_in_place, however the callee is written
def simple_callee_names_wrapper(f):
    if f.type == "identifier":
        return text_is_wrapper(f)
    if f.type == "scoped_identifier":
        return scoped_is_wrapper(f)
    if f.type == "field_expression":            # receiver.spawn_blocking(..)
        return field_ident_text(f) in WRAPPERS
    return False


def callee_names_wrapper(f):
    if f.type == "generic_function":            # spawn_blocking::<F, R>(..): the function is the first child
        return len(f.children) > 0 and simple_callee_names_wrapper(f.children[0])
    return simple_callee_names_wrapper(f)


def doc_is_wrapper_call(n):
    return n.type == "call_expression" and any(callee_names_wrapper(child) for child in n.children)


@lemma(props=["C17"], types=dict(callee=TSNode), name="wrapper-call-as-documented")
def wrapper_call_as_documented(callee):
    """Property text: "not inside a spawn_blocking/block_in_place-style wrapper" -- the callee of a call names a wrapper
    however it is written. Expected to fail (known finding C17-wrapper-call-shapes): method-call (`h.spawn_blocking(..)`)
    and turbofish (`spawn_blocking::<..>(..)`) callees are not recognised by _child_is_wrapper_name."""
    if callee is None:
        return True
    return call(F + "_child_is_wrapper_name", callee) == callee_names_wrapper(callee)


@lemma(props=["C17"], types=dict(callee=TSNode), name="wrapper-call-as-documented-adjusted")
def wrapper_call_as_documented_adjusted(callee):
    """Finding-adjusted: a recognised wrapper name IS a documented one (no non-wrapper is ever exempted), and the two
    notions coincide for every callee that is not a method call (field_expression) or turbofish (generic_function)."""
    if callee is None:
        return True
    r = call(F + "_child_is_wrapper_name", callee)
    return implies(r, callee_names_wrapper(callee)) and \
        implies(callee.type != "field_expression" and callee.type != "generic_function", r == callee_names_wrapper(callee))


# ------------------------------------------------------------------ one call node
def call_path(n):
    """Text of the first scoped_identifier child ('' if none): the path of a call `a::b::c(..)`."""
    return "" if first_of_type(n.children, "scoped_identifier") is None \
        else node_text(first_of_type(n.children, "scoped_identifier"))


@opaque
def blocking_hit(n: TSNode) -> Opt(Str):
    """The pattern of a call node that names a documented blocking API and is not inside a wrapper, else None."""
    if call_path(n) == "":
        return None
    if blocking_pattern(call_path(n)) is None:
        return None
    if wrapped_from(n.parent):
        return None
    return blocking_pattern(call_path(n))


def blocking_call_of(n, code):
    return mk(BlockingCallT, line=n.start_point[0] + 1, column=n.start_point[1], pattern=blocking_hit(n),
              is_in_test=inside_test_from(n), context=line_ctx(code, n.start_point[0]), blocking_api=call_path(n))


@contract(F + "RustBlockingAsyncAnalyzer._extract_call_path", props=["C17", "C11", "C13", "C19"], types=dict(call_node=TSNode), returns=Str)
class ExtractCallPath:
    def requires(call_node):
        return call_node is not None

    def value(call_node):
        return call_path(call_node)

    def inv0(call_node, rest):
        return first_of_type(call_node.children, "scoped_identifier") == first_of_type(rest, "scoped_identifier")


@contract(F + "RustBlockingAsyncAnalyzer._check_blocking_call", props=["C17", "C12", "C11", "C13", "C19"],
          types=dict(call_node=TSNode, code=Str), returns=Opt(BlockingCallT))
class CheckBlockingCall:
    def requires(call_node, code):
        return call_node is not None

    def reveals(call_node, code):
        return reveal(blocking_hit, call_node)

    def ensures_hit_iff_unwrapped_blocking_api(call_node, code, result):
        return (result is None) == (blocking_hit(call_node) is None)

    def ensures_record_at_call_position(call_node, code, result):
        return implies(result is not None, result == blocking_call_of(call_node, code))


def is_reported_node(n):
    return n.type == "call_expression" and in_async_from(n.parent) and blocking_hit(n) is not None


def collect_blocking(n: TSNode, code: Str) -> SeqOf(BlockingCallT):
    """Pre-order fold: every blocking call in an async context exactly once, in document order."""
    return ([blocking_call_of(n, code)] if is_reported_node(n) else []) + collect_blocking_seq(n.children, code)


def collect_blocking_seq(s: SeqOf(TSNode), code: Str) -> SeqOf(BlockingCallT):
    if len(s) == 0:
        return []
    return collect_blocking(s[0], code) + collect_blocking_seq(s[1:], code)


@contract(F + "RustBlockingAsyncAnalyzer._scan_for_blocking_calls", props=["C17", "C12", "C11", "C13", "C19"],
          types=dict(node=TSNode, code=Str, calls=SeqOf(BlockingCallT), blocking_call=Opt(BlockingCallT)),
          modifies=["calls"])
class ScanForBlockingCalls:
    def requires(node, code, calls):
        return node is not None

    def ensures_every_blocking_call_once_at_its_position(node, code, calls, old):
        return calls == old.calls + collect_blocking(node, code)

    def inv0(node, code, calls, old, rest):
        return old.calls + collect_blocking(node, code) == calls + collect_blocking_seq(rest, code)


@contract(F + "RustBlockingAsyncAnalyzer.find_blocking_calls", props=["C17", "C11", "C13", "C19"], types=dict(self=AnalyzerT, code=Str),
          returns=SeqOf(BlockingCallT), named_types={"BlockingCall": BlockingCallT})
class FindBlockingCalls:
    def ensures_all_blocking_calls_of_the_file(self, code, result):
        return result == ([] if (not self.tree_sitter_available or rust_root(code) is None)
                          else collect_blocking(rust_root(code), code))

    def witness_all_blocking_calls_of_the_file():
        # property quantifier: "nested modules, several attributes, async/sync ..." -- async fns nested in async fns, a sync
        # fn nested in an async fn, a wrapper closure, a test module: every qualifying call exactly once, in document order
        return {"self": {"tree_sitter_available": True},
                "code": "mod a {\n    async fn outer() {\n        std::fs::read_to_string(p);\n        async fn inner() {\n"
                        "            thread::sleep(d);\n            fn helper() {\n                net::TcpStream::connect(a);\n"
                        "            }\n        }\n        tokio::task::spawn_blocking(|| {\n            std::fs::write(p, b);\n"
                        "        });\n    }\n    fn sync_only() {\n        std::fs::read(p);\n    }\n}\n"}


# ------------------------------------------------------------------ config switches (linter.py)
def skipped(c, config):
    return ((c.is_in_test and config.allow_in_tests)
            or (c.pattern == "fs-in-async" and not config.detect_fs_in_async)
            or (c.pattern == "sleep-in-async" and not config.detect_sleep_in_async)
            or (c.pattern == "net-in-async" and not config.detect_net_in_async))


@contract(L + "_should_skip_call", props=["C17"], types=dict(call=BlockingCallT, config=BlockingConfigT), returns=Bool)
class ShouldSkipCall:
    def value(call, config):
        return skipped(call, config)


# ------------------------------------------------------------------ the property's reporting condition
def reported_spec(fs, sleep, net, in_async, wrapped, in_test, allow_in_tests, d_fs, d_sleep, d_net):
    """Property text: std::fs / std::thread::sleep / std::net calls (each individually switchable) lexically inside an
    async fn, not inside a wrapper, and not exempt test code."""
    return (in_async and not wrapped and not (in_test and allow_in_tests)
            and ((fs and d_fs) or (sleep and d_sleep) or (net and d_net)))


@lemma(props=["C17"], types=dict(node=TSNode, code=Str, config=BlockingConfigT), name="blocking-reporting-condition")
def blocking_reporting_condition(node, code, config):
    """_is_in_async_context + _check_blocking_call + _should_skip_call implement the property's reporting condition
    for every call node that has a call path (a scoped identifier in function position)."""
    if node is None or node.type != "call_expression":
        return True
    path = call_path(node)
    reveal(blocking_hit, node)
    if path == "":
        return call(F + "RustBlockingAsyncAnalyzer._check_blocking_call", None, node, code) is None
    reveal(is_fs_path, path)
    reveal(is_sleep_path, path)
    reveal(is_net_path, path)
    in_async = call(F + "RustBlockingAsyncAnalyzer._is_in_async_context", None, node)
    rec = call(F + "RustBlockingAsyncAnalyzer._check_blocking_call", None, node, code)
    spec = reported_spec(is_fs_path(path), is_sleep_path(path), is_net_path(path), in_async_from(node.parent),
                         wrapped_from(node.parent), inside_test_from(node), config.allow_in_tests,
                         config.detect_fs_in_async, config.detect_sleep_in_async, config.detect_net_in_async)
    if not in_async or rec is None:
        return not spec
    return (not call(L + "_should_skip_call", rec, config)) == spec


# ------------------------------------------------------------------ violations (linter.py)
FS_SUGGESTION = ("Use tokio::fs equivalents (e.g., tokio::fs::read_to_string) for async-compatible "
                 "file I/O operations. Blocking std::fs calls in async functions can cause thread "
                 "starvation and deadlocks.")
SLEEP_SUGGESTION = ("Use tokio::time::sleep instead of std::thread::sleep in async functions. "
                    "Blocking the thread with std::thread::sleep prevents the async runtime from "
                    "processing other tasks on the same thread.")
NET_SUGGESTION = ("Use tokio::net equivalents (e.g., tokio::net::TcpStream) for async-compatible "
                  "networking. Blocking std::net calls in async functions can cause thread starvation "
                  "and deadlocks in the async runtime.")


@opaque
def blocking_violation(c: BlockingCallT, file_path: Str) -> ViolationT:
    """The violation reported for a recorded blocking call: same position, rule id `blocking-async.<pattern>`."""
    if c.pattern == "sleep-in-async":
        return violation_of("blocking-async.sleep-in-async", file_path, c.line, c.column,
                            f"Blocking std::thread::sleep inside async function: {c.context}", "error", SLEEP_SUGGESTION)
    if c.pattern == "net-in-async":
        return violation_of("blocking-async.net-in-async", file_path, c.line, c.column,
                            f"Blocking std::net operation inside async function: {c.context}", "error", NET_SUGGESTION)
    return violation_of("blocking-async.fs-in-async", file_path, c.line, c.column,
                        f"Blocking std::fs operation inside async function: {c.context}", "error", FS_SUGGESTION)


@contract(L + "_build_violation_for_call", props=["C17", "C12"], types=dict(call=BlockingCallT, file_path=Str),
          returns=ViolationT,
          inline=["build_fs_in_async_violation", "build_sleep_in_async_violation", "build_net_in_async_violation"])
class BuildViolationForCall:
    def reveals(call, file_path):
        return reveal(blocking_violation, call, file_path)

    def value(call, file_path):
        return blocking_violation(call, file_path)

    def ensures_location(call, file_path, result):
        return result.file_path == file_path and result.line == call.line and result.column == call.column

    def ensures_rule_by_pattern(call, file_path, result):
        return implies(call.pattern in PATTERNS, result.rule_id == "blocking-async." + call.pattern)


@contract(L + "BlockingAsyncRule._build_violations", props=["C17", "C12"],
          types=dict(calls=SeqOf(BlockingCallT), config=BlockingConfigT, file_path=Str), returns=SeqOf(ViolationT))
class BuildViolations:
    def value(calls, config, file_path):
        return [blocking_violation(call, file_path) for call in calls if not skipped(call, config)]


@lemma(props=["C17", "C12"], types=dict(node=TSNode, code=Str, file_path=Str), name="blocking-violation-at-call-position")
def blocking_violation_at_call_position(node, code, file_path):
    if node is None or not is_reported_node(node):
        return True
    v = call(L + "_build_violation_for_call", blocking_call_of(node, code), file_path)
    return v.file_path == file_path and v.line == node.start_point[0] + 1 and v.column == node.start_point[1]


# ------------------------------------------------------------------ the rule's entry point
from contracts.c17_unwrap import CtxT, reported_path  # noqa: E402

RuleWithConfigT = Rec("BlockingAsyncRule", cls=L + "BlockingAsyncRule", _config_override=Opt(BlockingConfigT),
                      _analyzer=AnalyzerT)


def analyzed(context, config):
    """Rust file with content, rule enabled, path not matched by an `ignore` substring pattern."""
    return (context.language == "rust" and context.file_content is not None and config.enabled
            and not any(ignored in reported_path(context) for ignored in config.ignore))


@contract(L + "BlockingAsyncRule.check", props=["C17"], types=dict(self=RuleWithConfigT, context=CtxT),
          returns=SeqOf(ViolationT),
          inline=["_get_config", "_should_analyze", "has_file_content", "resolve_file_path", "is_ignored_path"])
class BlockingCheck:
    """Composition for a rule constructed with an explicit configuration (loading it from files is C05)."""

    def requires(self, context):
        return self._config_override is not None

    def ensures_nothing_unless_analyzed(self, context, result):
        return implies(not analyzed(context, self._config_override), len(result) == 0)

    def witness_nothing_unless_analyzed():
        # concrete input tried natively when the solver cannot decide the clause above: a disabled rule on a reportable file
        return {"self": {"_config_override": {"enabled": False, "allow_in_tests": True, "detect_fs_in_async": True, "detect_sleep_in_async": True, "detect_net_in_async": True, "ignore": []},
                         "_analyzer": {"tree_sitter_available": True}},
                "context": {"file_path": None, "file_content": "async fn f() { std::fs::read_to_string(\"a\"); }", "language": "rust"}}

    def ensures_one_violation_per_reportable_call_in_document_order(self, context, result):
        return implies(analyzed(context, self._config_override) and self._analyzer.tree_sitter_available
                       and rust_root(context.file_content or "") is not None,
                       result == [blocking_violation(call, reported_path(context))
                                  for call in collect_blocking(rust_root(context.file_content or ""), context.file_content or "")
                                  if not skipped(call, self._config_override)])
