"""C17 -- clone-abuse: analyzer (src/linters/clone_abuse/rust_analyzer.py) and config switches (linter.py).

Top-level spec (from the property text): a `.clone()` call is reported iff it is (a) inside a loop,
(b) chained on another clone, or (c) bound by a `let` whose source identifier is never used afterwards,
unless it is in test code while allow_in_tests is on; each pattern individually switchable."""
from pyvc.api import contract, lemma, Int, Bool, Str, SeqOf, Rec, Opt, implies, call, mk
from contracts._nodes import TSNode, ts_depth

F = "src/linters/clone_abuse/rust_analyzer.py::"
L = "src/linters/clone_abuse/linter.py::"
B = "src/analyzers/rust_base.py::"
LOOPS = ("for_expression", "while_expression", "loop_expression")  # "inside a loop": for / while / loop

CloneCallT = Rec("CloneCall", cls=F + "CloneCall", pycls="src.linters.clone_abuse.rust_analyzer:CloneCall",
                 line=Int, column=Int, pattern=Str, is_in_test=Bool, context=Str)
CloneConfigT = Rec("CloneAbuseConfig", pycls="src.linters.clone_abuse.config:CloneAbuseConfig",
                   enabled=Bool, allow_in_tests=Bool, detect_clone_in_loop=Bool, detect_clone_chain=Bool,
                   detect_unnecessary_clone=Bool, ignore=SeqOf(Str))
AnalyzerT = Rec("RustCloneAnalyzer", cls=F + "RustCloneAnalyzer", tree_sitter_available=Bool)


# ------------------------------------------------------------------ spec functions (pure Python, also run natively)
def in_loop_from(n: TSNode) -> Bool:
    """n or one of its ancestors is a loop expression."""
    return n is not None and (n.type in LOOPS or in_loop_from(n.parent))


def first_of_type(s: SeqOf(TSNode), k: Str) -> TSNode:
    if len(s) == 0:
        return None
    if s[0].type == k:
        return s[0]
    return first_of_type(s[1:], k)


def node_text(n):
    return "" if n.text is None else n.text.decode()


def field_ident_text(fe):
    fi = first_of_type(fe.children, "field_identifier")
    return "" if fi is None else node_text(fi)


def method_name(call_node):
    fe = first_of_type(call_node.children, "field_expression")
    return "" if fe is None else field_ident_text(fe)


def receiver_of(call_node):
    """The receiver expression of a method call node, or None."""
    fe = first_of_type(call_node.children, "field_expression")
    if fe is None:
        return None
    return fe.children[0] if len(fe.children) > 0 else None


def is_chained(call_node):
    r = receiver_of(call_node)
    return r is not None and r.type == "call_expression" and method_name(r) == "clone"


def let_up(n: TSNode) -> TSNode:
    """Nearest enclosing let_declaration, not crossing a block or function boundary."""
    if n is None:
        return None
    if n.type == "let_declaration":
        return n
    if n.type in ("block", "function_item"):
        return None
    return let_up(n.parent)


def block_up(n: TSNode) -> TSNode:
    if n is None:
        return None
    if n.type == "block":
        return n
    return block_up(n.parent)


def is_ident(n, identifier):
    return n.type == "identifier" and n.text is not None and n.text.decode() == identifier


def contains_ident(n: TSNode, identifier: Str) -> Bool:
    return is_ident(n, identifier) or any(contains_ident(c, identifier) for c in n.children)


def used_after(s: SeqOf(TSNode), identifier: Str, let_id: Int, found: Bool) -> Bool:
    """Some statement after the one with id let_id (or any, once found) mentions the identifier."""
    if len(s) == 0:
        return False
    if s[0].id == let_id:
        return used_after(s[1:], identifier, let_id, True)
    if found and contains_ident(s[0], identifier):
        return True
    return used_after(s[1:], identifier, let_id, found)


def receiver_identifier(call_node):
    r = receiver_of(call_node)
    if r is None or r.type != "identifier":
        return None
    return node_text(r)


def is_unnecessary(call_node):
    let = let_up(call_node.parent)
    if let is None:
        return False
    ident = receiver_identifier(call_node)
    if ident is None:
        return False
    blk = block_up(let.parent)
    if blk is None:
        return False
    return not used_after(blk.children, ident, let.id, False)


def classify(call_node):
    """Code-level classification (first matching pattern wins: chain, loop, unnecessary)."""
    if is_chained(call_node):
        return "clone-chain"
    if in_loop_from(call_node.parent):
        return "clone-in-loop"
    if is_unnecessary(call_node):
        return "unnecessary-clone"
    return None


# ------------------------------------------------------------------ rust_base helpers
@contract(B + "RustBaseAnalyzer.extract_node_text", props=["C17", "C12", "C02", "C11", "C13", "C19"], types=dict(node=TSNode), returns=Str)
class ExtractNodeText:
    def requires(node):
        return node is not None

    def value(node):
        return node_text(node)


# ------------------------------------------------------------------ analyzer helpers
@contract(F + "_get_field_expression", props=["C17", "C11", "C13", "C19"], types=dict(call_node=TSNode), returns=TSNode)
class GetFieldExpression:
    def requires(call_node):
        return call_node is not None

    def value(call_node):
        return first_of_type(call_node.children, "field_expression")

    def inv0(call_node, rest):
        return first_of_type(call_node.children, "field_expression") == first_of_type(rest, "field_expression")


@contract(F + "_get_receiver_node", props=["C17", "C11", "C13", "C19"], types=dict(field_expr=TSNode), returns=TSNode)
class GetReceiverNode:
    def requires(field_expr):
        return field_expr is not None

    def value(field_expr):
        return field_expr.children[0] if len(field_expr.children) > 0 else None


@contract(F + "RustCloneAnalyzer._extract_field_identifier", props=["C17", "C11", "C13", "C19"], types=dict(field_expr=TSNode), returns=Str)
class ExtractFieldIdentifier:
    def requires(field_expr):
        return field_expr is not None

    def value(field_expr):
        return field_ident_text(field_expr)

    def inv0(field_expr, rest):
        return first_of_type(field_expr.children, "field_identifier") == first_of_type(rest, "field_identifier")


@contract(F + "RustCloneAnalyzer._get_method_name", props=["C17", "C11", "C13", "C19"], types=dict(call_node=TSNode), returns=Str)
class GetMethodName:
    def requires(call_node):
        return call_node is not None

    def value(call_node):
        return method_name(call_node)

    def inv0(call_node, rest):
        return first_of_type(call_node.children, "field_expression") == first_of_type(rest, "field_expression")


@contract(F + "RustCloneAnalyzer._is_inside_loop", props=["C17", "C11", "C13", "C19"], types=dict(node=TSNode), returns=Bool)
class IsInsideLoop:
    def requires(node):
        return node is not None

    def value(node):
        return in_loop_from(node.parent)

    def inv0(node, current):
        return in_loop_from(node.parent) == in_loop_from(current)

    def var0(current):
        return ts_depth(current)


@contract(F + "RustCloneAnalyzer._is_chained_clone", props=["C17", "C11", "C13", "C19"], types=dict(node=TSNode), returns=Bool)
class IsChainedClone:
    def requires(node):
        return node is not None

    def value(node):
        return is_chained(node)


@contract(F + "_find_parent_let_declaration", props=["C17", "C11", "C13", "C19"], types=dict(node=TSNode), returns=TSNode)
class FindParentLet:
    def requires(node):
        return node is not None

    def value(node):
        return let_up(node.parent)

    def inv0(node, current):
        return let_up(node.parent) == let_up(current)

    def var0(current):
        return ts_depth(current)


@contract(F + "_find_parent_block", props=["C17", "C11", "C13", "C19"], types=dict(node=TSNode), returns=TSNode)
class FindParentBlock:
    def requires(node):
        return node is not None

    def value(node):
        return block_up(node.parent)

    def inv0(node, current):
        return block_up(node.parent) == block_up(current)

    def var0(current):
        return ts_depth(current)


@contract(F + "_is_matching_identifier", props=["C17", "C11", "C13", "C19"], types=dict(node=TSNode, identifier=Str), returns=Bool)
class IsMatchingIdentifier:
    def requires(node, identifier):
        return node is not None

    def value(node, identifier):
        return is_ident(node, identifier)


@contract(F + "_node_contains_identifier", props=["C17", "C11", "C13", "C19"], types=dict(node=TSNode, identifier=Str), returns=Bool)
class NodeContainsIdentifier:
    def requires(node, identifier):
        return node is not None

    def value(node, identifier):
        return contains_ident(node, identifier)


@contract(F + "_identifier_used_after", props=["C17", "C11", "C13", "C19"],
          types=dict(identifier=Str, let_node=TSNode, block_node=TSNode, found_let=Bool), returns=Bool)
class IdentifierUsedAfter:
    def requires(identifier, let_node, block_node):
        return let_node is not None and block_node is not None

    def value(identifier, let_node, block_node):
        return used_after(block_node.children, identifier, let_node.id, False)

    def inv0(identifier, let_node, block_node, found_let, rest):
        return used_after(block_node.children, identifier, let_node.id, False) == \
            used_after(rest, identifier, let_node.id, found_let)


@contract(F + "RustCloneAnalyzer._get_clone_receiver_identifier", props=["C17", "C11", "C13", "C19"], types=dict(node=TSNode), returns=Opt(Str))
class GetCloneReceiverIdentifier:
    def requires(node):
        return node is not None

    def value(node):
        return receiver_identifier(node)


@contract(F + "RustCloneAnalyzer._is_unnecessary_clone", props=["C17", "C11", "C13", "C19"], types=dict(node=TSNode), returns=Bool)
class IsUnnecessaryClone:
    def requires(node):
        return node is not None

    def value(node):
        return is_unnecessary(node)


@contract(F + "RustCloneAnalyzer._classify_clone", props=["C17", "C11", "C13", "C19"], types=dict(node=TSNode, code=Str), returns=Opt(Str))
class ClassifyClone:
    def requires(node, code):
        return node is not None

    def value(node, code):
        return classify(node)

    def ensures_some_pattern_iff_abusive(node, code, result):
        # property text: exactly the clones that are in a loop, chained, or unnecessary are classified as abusive
        return (result is not None) == (in_loop_from(node.parent) or is_chained(node) or is_unnecessary(node))


# ------------------------------------------------------------------ config switches (linter.py)
@contract(L + "_should_skip_call", props=["C17"], types=dict(call=CloneCallT, config=CloneConfigT), returns=Bool)
class ShouldSkipCall:
    def value(call, config):
        return ((call.is_in_test and config.allow_in_tests)
                or (call.pattern == "clone-in-loop" and not config.detect_clone_in_loop)
                or (call.pattern == "clone-chain" and not config.detect_clone_chain)
                or (call.pattern == "unnecessary-clone" and not config.detect_unnecessary_clone))


# ------------------------------------------------------------------ the property's reporting condition
def reported_spec(chained, in_loop, unnecessary, in_test, allow_in_tests, d_loop, d_chain, d_unn):
    """Property text: reported iff (in loop / chained / unnecessary, each individually switchable) and not exempt test code."""
    return (not (in_test and allow_in_tests)) and ((in_loop and d_loop) or (chained and d_chain) or (unnecessary and d_unn))


@lemma(props=["C17"], types=dict(node=TSNode, code=Str, in_test=Bool, config=CloneConfigT), name="clone-reporting-condition")
def clone_reporting_condition(node, code, in_test, config):
    """classify + _should_skip_call together implement the property's reporting condition."""
    if node is None:
        return True
    pattern = call(F + "RustCloneAnalyzer._classify_clone", None, node, code)
    spec = reported_spec(is_chained(node), in_loop_from(node.parent), is_unnecessary(node), in_test,
                         config.allow_in_tests, config.detect_clone_in_loop, config.detect_clone_chain,
                         config.detect_unnecessary_clone)
    if pattern is None:
        return not spec
    c = mk(CloneCallT, line=1, column=0, pattern=pattern, is_in_test=in_test, context="")
    skipped = call(L + "_should_skip_call", c, config)
    return (not skipped) == spec


def reported_first_match(chained, in_loop, unnecessary, in_test, allow_in_tests, d_loop, d_chain, d_unn):
    """What the code does (known finding C17-clone-priority): only the FIRST matching pattern (chain, loop,
    unnecessary) is consulted, so switching that one off hides the call even if another enabled pattern matches."""
    return (not (in_test and allow_in_tests)) and (
        (chained and d_chain) or ((not chained) and in_loop and d_loop)
        or ((not chained) and (not in_loop) and unnecessary and d_unn))


@lemma(props=["C17"], types=dict(node=TSNode, code=Str, in_test=Bool, config=CloneConfigT),
       name="clone-reporting-condition-adjusted")
def clone_reporting_condition_adjusted(node, code, in_test, config):
    """Finding-adjusted obligation: any deviation OTHER than the first-match priority is still a violation."""
    if node is None:
        return True
    pattern = call(F + "RustCloneAnalyzer._classify_clone", None, node, code)
    spec = reported_first_match(is_chained(node), in_loop_from(node.parent), is_unnecessary(node), in_test,
                                config.allow_in_tests, config.detect_clone_in_loop, config.detect_clone_chain,
                                config.detect_unnecessary_clone)
    if pattern is None:
        return not spec
    c = mk(CloneCallT, line=1, column=0, pattern=pattern, is_in_test=in_test, context="")
    skipped = call(L + "_should_skip_call", c, config)
    return (not skipped) == spec
