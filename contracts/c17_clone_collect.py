"""C17 -- clone-abuse: the recursive collector (src/linters/clone_abuse/rust_analyzer.py) and violation construction
(linter.py). The classification predicates and the config switches are in c17_clone.py.

Spec: every `.clone()` call that `_classify_clone` classifies as abusive is appended exactly once, in document order
(pre-order fold over the parse tree), with the position of the call node (line = row + 1, column = start column)."""
from pyvc.api import contract, lemma, Int, Bool, Str, SeqOf, Rec, Opt, implies, call, mk, opaque, reveal
from contracts._nodes import TSNode
from contracts._common import ViolationT
from contracts.c12_core import violation_of
from contracts.c17_clone import (CloneCallT, CloneConfigT, method_name, classify, in_loop_from, is_chained, is_unnecessary)
from contracts.c17_rust_context import inside_test_from, rust_root
from contracts.c17_unwrap import line_ctx

F = "src/linters/clone_abuse/rust_analyzer.py::"
L = "src/linters/clone_abuse/linter.py::"
AnalyzerT = Rec("RustCloneAnalyzer", cls=F + "RustCloneAnalyzer", tree_sitter_available=Bool)


@opaque
def clone_pattern(n: TSNode) -> Opt(Str):
    """_classify_clone as a function of the call node (definition: c17_clone.classify; hidden to keep queries small)."""
    return classify(n)


def is_abusive_clone(n):
    """A `.clone()` method call that matches one of the three abuse patterns."""
    return n.type == "call_expression" and method_name(n) == "clone" and clone_pattern(n) is not None


def clone_call_of(n, code):
    return mk(CloneCallT, line=n.start_point[0] + 1, column=n.start_point[1], pattern=clone_pattern(n),
              is_in_test=inside_test_from(n), context=line_ctx(code, n.start_point[0]))


def collect_clone(n: TSNode, code: Str) -> SeqOf(CloneCallT):
    """Pre-order fold: every abusive clone call of the subtree exactly once, in document order."""
    return ([clone_call_of(n, code)] if is_abusive_clone(n) else []) + collect_clone_seq(n.children, code)


def collect_clone_seq(s: SeqOf(TSNode), code: Str) -> SeqOf(CloneCallT):
    if len(s) == 0:
        return []
    return collect_clone(s[0], code) + collect_clone_seq(s[1:], code)


@contract(F + "RustCloneAnalyzer._find_clone_recursive", props=["C17", "C12", "C11", "C13", "C19"],
          types=dict(node=TSNode, code=Str, calls=SeqOf(CloneCallT), method_name=Str, pattern=Opt(Str)), modifies=["calls"],
          loop_split_unchecked=True)  # the feasibility queries for `rest` empty / non-empty time out (2.4 s each) here
class FindCloneRecursive:
    def requires(node, code, calls):
        return node is not None

    def reveals(node, code, calls):
        return reveal(clone_pattern, node)

    def ensures_every_abusive_clone_once_at_its_position(node, code, calls, old):
        return calls == old.calls + collect_clone(node, code)

    def inv0(node, code, calls, old, rest):
        return old.calls + collect_clone(node, code) == calls + collect_clone_seq(rest, code)


@contract(F + "RustCloneAnalyzer.find_clone_calls", props=["C17", "C11", "C13", "C19"], types=dict(self=AnalyzerT, code=Str),
          returns=SeqOf(CloneCallT), named_types={"CloneCall": CloneCallT})
class FindCloneCalls:
    def ensures_all_abusive_clones_of_the_file(self, code, result):
        return result == ([] if (not self.tree_sitter_available or rust_root(code) is None)
                          else collect_clone(rust_root(code), code))


@lemma(props=["C17"], types=dict(node=TSNode, code=Str), name="clone-collected-iff-abusive-pattern")
def clone_collected_iff_pattern(node, code):
    """Property text: exactly the `.clone()` calls inside a loop, chained on another clone, or bound by a `let` whose
    source is never used afterwards are recorded (the record carries the call's own position)."""
    if node is None or node.type != "call_expression" or method_name(node) != "clone":
        return True
    reveal(clone_pattern, node)
    abusive = in_loop_from(node.parent) or is_chained(node) or is_unnecessary(node)
    return is_abusive_clone(node) == abusive and implies(
        abusive, clone_call_of(node, code).line == node.start_point[0] + 1
        and clone_call_of(node, code).column == node.start_point[1]
        and clone_call_of(node, code).pattern in ("clone-chain", "clone-in-loop", "unnecessary-clone"))


# ------------------------------------------------------------------ violations (linter.py)
LOOP_SUGGESTION = ("Consider borrowing instead of cloning in a loop. "
                   "If ownership is needed, use Rc/Arc for shared ownership or collect references.")
CHAIN_SUGGESTION = ("Chained .clone().clone() is redundant. "
                    "A single .clone() produces an owned copy; the second clone is unnecessary.")
UNNECESSARY_SUGGESTION = ("This .clone() may be unnecessary if the original value is not used after cloning. "
                          "Consider passing ownership directly, borrowing, or using Cow for clone-on-write.")


@opaque
def clone_violation(c: CloneCallT, file_path: Str) -> ViolationT:
    """The violation reported for a recorded clone call: same position, rule id `clone-abuse.<pattern>`."""
    if c.pattern == "clone-chain":
        return violation_of("clone-abuse.clone-chain", file_path, c.line, c.column,
                            f"Chained .clone().clone() is redundant: {c.context}", "error", CHAIN_SUGGESTION)
    if c.pattern == "unnecessary-clone":
        return violation_of("clone-abuse.unnecessary-clone", file_path, c.line, c.column,
                            f".clone() may be unnecessary when the original is not used afterward: {c.context}",
                            "error", UNNECESSARY_SUGGESTION)
    return violation_of("clone-abuse.clone-in-loop", file_path, c.line, c.column,
                        f".clone() called inside a loop body may cause performance issues: {c.context}",
                        "error", LOOP_SUGGESTION)


@contract(L + "_build_violation_for_call", props=["C17", "C12"], types=dict(call=CloneCallT, file_path=Str),
          returns=ViolationT,
          inline=["build_clone_in_loop_violation", "build_clone_chain_violation", "build_unnecessary_clone_violation"])
class BuildViolationForCall:
    def reveals(call, file_path):
        return reveal(clone_violation, call, file_path)

    def value(call, file_path):
        return clone_violation(call, file_path)

    def ensures_location(call, file_path, result):
        return result.file_path == file_path and result.line == call.line and result.column == call.column

    def ensures_rule_by_pattern(call, file_path, result):
        return implies(call.pattern in ("clone-chain", "clone-in-loop", "unnecessary-clone"),
                       result.rule_id == "clone-abuse." + call.pattern)


def skipped(c, config):
    return ((c.is_in_test and config.allow_in_tests)
            or (c.pattern == "clone-in-loop" and not config.detect_clone_in_loop)
            or (c.pattern == "clone-chain" and not config.detect_clone_chain)
            or (c.pattern == "unnecessary-clone" and not config.detect_unnecessary_clone))


@contract(L + "CloneAbuseRule._build_violations", props=["C17", "C12"],
          types=dict(calls=SeqOf(CloneCallT), config=CloneConfigT, file_path=Str), returns=SeqOf(ViolationT))
class BuildViolations:
    def value(calls, config, file_path):
        return [clone_violation(call, file_path) for call in calls if not skipped(call, config)]


@lemma(props=["C17", "C12"], types=dict(node=TSNode, code=Str, file_path=Str), name="clone-violation-at-call-position")
def clone_violation_at_call_position(node, code, file_path):
    if node is None or not is_abusive_clone(node):
        return True
    v = call(L + "_build_violation_for_call", clone_call_of(node, code), file_path)
    return v.file_path == file_path and v.line == node.start_point[0] + 1 and v.column == node.start_point[1]


# ------------------------------------------------------------------ the rule's entry point
from contracts.c17_unwrap import CtxT, reported_path  # noqa: E402

RuleWithConfigT = Rec("CloneAbuseRule", cls=L + "CloneAbuseRule", _config_override=Opt(CloneConfigT), _analyzer=AnalyzerT)


def analyzed(context, config):
    """Rust file with content, rule enabled, path not matched by an `ignore` substring pattern."""
    return (context.language == "rust" and context.file_content is not None and config.enabled
            and not any(ignored in reported_path(context) for ignored in config.ignore))


@contract(L + "CloneAbuseRule.check", props=["C17"], types=dict(self=RuleWithConfigT, context=CtxT),
          returns=SeqOf(ViolationT),
          inline=["_get_config", "_should_analyze", "has_file_content", "resolve_file_path", "is_ignored_path"])
class CloneCheck:
    """Composition for a rule constructed with an explicit configuration (loading it from files is C05)."""

    def requires(self, context):
        return self._config_override is not None

    def ensures_nothing_unless_analyzed(self, context, result):
        return implies(not analyzed(context, self._config_override), len(result) == 0)

    def witness_nothing_unless_analyzed():
        # concrete input tried natively when the solver cannot decide the clause above: a disabled rule on a reportable file
        return {"self": {"_config_override": {"enabled": False, "allow_in_tests": True, "detect_clone_in_loop": True, "detect_clone_chain": True, "detect_unnecessary_clone": True, "ignore": []},
                         "_analyzer": {"tree_sitter_available": True}},
                "context": {"file_path": None, "file_content": "fn f(v: Vec<String>) { for x in v.iter() { let a = x.clone(); } }", "language": "rust"}}

    def ensures_one_violation_per_reportable_clone_in_document_order(self, context, result):
        return implies(analyzed(context, self._config_override) and self._analyzer.tree_sitter_available
                       and rust_root(context.file_content or "") is not None,
                       result == [clone_violation(call, reported_path(context))
                                  for call in collect_clone(rust_root(context.file_content or ""), context.file_content or "")
                                  if not skipped(call, self._config_override)])
