"""C17 -- which configuration a Rust rule works with: `_get_config` of the three rules.

Property text: "... x all settings of allow_in_tests / allow_expect / detect_* options": the settings in force for a check
are the ones that come WITH THAT check -- the constructor override if there is one, else the rule's section of THIS
context's metadata (hyphenated or underscored key) -- and asking for them changes nothing on the rule object (empty
frame: a long-lived rule object is reused for every file and every configuration of a run).
Generic view (the configuration object is opaque here: GenericCfgT of contracts/c05_config.py; what from_dict makes of
a section is C05's business, contracts UnwrapFromDict / CloneFromDict / BlockingFromDict)."""
from pyvc.api import contract, Bool, Str, Opt, Rec, implies
from contracts.c05_config import LintCtxT, GenericCfgT, cfg_from, section_of, metadata_of

L = "src/linters/"


def key_in_force(context, underscored, hyphenated):
    return underscored if underscored in metadata_of(context) else hyphenated


def loaded_from_this_context(context, key, result):
    """load_linter_config's clause, for the section of THIS context."""
    return implies(isinstance(section_of(context, key), dict),
                   result == cfg_from(section_of(context, key), context.language)
                   or result == cfg_from(section_of(context, key), None))


UnwrapRuleT = Rec("UnwrapAbuseRule", cls=L + "unwrap_abuse/linter.py::UnwrapAbuseRule", _config_override=Opt(GenericCfgT))
CloneRuleT = Rec("CloneAbuseRule", cls=L + "clone_abuse/linter.py::CloneAbuseRule", _config_override=Opt(GenericCfgT))
BlockingRuleT = Rec("BlockingAsyncRule", cls=L + "blocking_async/linter.py::BlockingAsyncRule", _config_override=Opt(GenericCfgT))


@contract(L + "unwrap_abuse/linter.py::UnwrapAbuseRule._get_config", props=["C17", "C05", "C08"],
          types=dict(self=UnwrapRuleT, context=LintCtxT, key=Str), returns=GenericCfgT, modifies=[], raises=["ValueError", "TypeError"])
class UnwrapGetConfig:
    def ensures_override_wins(self, context, result):
        return implies(self._config_override is not None, result == self._config_override)

    def ensures_else_the_section_of_this_context(self, context, result):
        return implies(self._config_override is None,
                       loaded_from_this_context(context, key_in_force(context, "unwrap_abuse", "unwrap-abuse"), result))


@contract(L + "clone_abuse/linter.py::CloneAbuseRule._get_config", props=["C17", "C05", "C08"],
          types=dict(self=CloneRuleT, context=LintCtxT, key=Str), returns=GenericCfgT, modifies=[], raises=["ValueError", "TypeError"])
class CloneGetConfig:
    def ensures_override_wins(self, context, result):
        return implies(self._config_override is not None, result == self._config_override)

    def ensures_else_the_section_of_this_context(self, context, result):
        return implies(self._config_override is None,
                       loaded_from_this_context(context, key_in_force(context, "clone_abuse", "clone-abuse"), result))


@contract(L + "blocking_async/linter.py::BlockingAsyncRule._get_config", props=["C17", "C05", "C08"],
          types=dict(self=BlockingRuleT, context=LintCtxT, key=Str), returns=GenericCfgT, modifies=[], raises=["ValueError", "TypeError"])
class BlockingGetConfig:
    def ensures_override_wins(self, context, result):
        return implies(self._config_override is not None, result == self._config_override)

    def ensures_else_the_section_of_this_context(self, context, result):
        return implies(self._config_override is None,
                       loaded_from_this_context(context, key_in_force(context, "blocking_async", "blocking-async"), result))
