"""C17 -- bounded differential at the three Rust rules' entry points (a net under the contracts, not a replacement).

Generated Rust files (nested modules, `#[test]` / `#[tokio::test]` functions, `#[cfg(test)]` modules, async / sync functions
nested in each other, loops of every kind, closures, spawn_blocking-style wrappers, method chains) with PLANTED calls whose
expected verdict is known to the generator from the property text alone (it never parses what it wrote):
  unwrap-abuse   every .unwrap() -- and every .expect() when allow_expect is off -- once, at the start of its call
                 expression (two unwraps of one chain = two reports at the same position), except in test code while
                 allow_in_tests is on;
  clone-abuse    clones in a loop / chained on a clone / bound by a let whose source is never used afterwards, each switch;
  blocking-async std::fs / std::thread::sleep / std::net paths lexically inside an async fn (also through a nested fn or
                 closure), not inside a wrapper closure, each switch.
The generator stays clear of the listed known findings (comments inside attribute runs, look-alike attributes, method-call
wrappers, a clone matching two patterns at once).
REUSE: one long-lived rule object per rule is used for ALL files and ALL configurations (the configuration travels in
context.metadata, alternately under the hyphenated and the underscored key), as the orchestrator does; a second object
per configuration gets it as constructor override. Labelled bounded; seeded by ctx["seed"]."""
import random
import time

from pyvc.api import custom

FS_FUNCS = ["read_to_string", "read", "write", "create_dir", "create_dir_all", "remove_file", "remove_dir", "remove_dir_all",
            "rename", "copy", "metadata", "read_dir", "canonicalize", "read_link"]
NET_TYPES = ["TcpStream", "TcpListener", "UdpSocket"]
WRAPPERS = ["tokio::task::spawn_blocking(move || {", "spawn_blocking(|| {", "tokio::task::block_in_place(|| {",
            "asyncify(move || {", "task::spawn_blocking(|| {"]
IND = "    "


class Gen:
    def __init__(self, rng):
        self.rng, self.lines, self.planted, self.n = rng, [], [], 0

    def fresh(self, p):
        self.n += 1
        return f"{p}{self.n}"

    def emit(self, indent, text):
        self.lines.append(IND * indent + text)
        return len(self.lines)          # 1-based line number of the emitted line

    def plant(self, line, col, **kw):
        self.planted.append(dict(line=line, col=col, **kw))

    # ---- items
    def items(self, indent, depth, fl):
        for _ in range(self.rng.choice([1, 2, 2, 3])):
            if depth < 2 and self.rng.random() < 0.3:
                self.module(indent, depth, fl)
            else:
                self.function(indent, depth, fl)

    def module(self, indent, depth, fl):
        test = self.rng.random() < 0.45
        if test:
            self.emit(indent, "#[cfg(test)]")
        self.emit(indent, f"mod {self.fresh('m')} {{")
        self.items(indent + 1, depth + 1, dict(fl, in_test=fl["in_test"] or test))
        self.emit(indent, "}")

    def function(self, indent, depth, fl):
        r = self.rng.random()
        attr = "#[test]" if r < 0.15 else ("#[tokio::test]" if r < 0.25 else None)
        is_async = attr == "#[tokio::test]" or (attr is None and self.rng.random() < 0.5) or \
            (attr == "#[test]" and False)
        if attr:
            if self.rng.random() < 0.3:
                self.emit(indent, "#[allow(unused)]")     # several attributes on one item
            self.emit(indent, attr)
        self.emit(indent, f"{'pub ' if self.rng.random() < 0.2 else ''}{'async ' if is_async else ''}fn {self.fresh('f')}() {{")
        self.block(indent + 1, depth + 1, dict(fl, in_test=fl["in_test"] or attr is not None,
                                               in_async=fl["in_async"] or is_async), top=True)
        self.emit(indent, "}")

    # ---- statements
    def block(self, indent, depth, fl, top=False):
        for _ in range(self.rng.choice([1, 2, 3, 4])):
            self.statement(indent, depth, fl, top)

    def statement(self, indent, depth, fl, top):
        rng = self.rng
        k = rng.randrange(13)
        base = indent * len(IND)
        if k == 0:
            v, o = self.fresh("v"), self.fresh("o")
            ln = self.emit(indent, f"let {v} = {o}.unwrap();")
            self.plant(ln, base + len(f"let {v} = "), kind="unwrap", **fl)
        elif k == 1:
            v, o = self.fresh("v"), self.fresh("o")
            ln = self.emit(indent, f"let {v} = {o}.expect(\"present\");")
            self.plant(ln, base + len(f"let {v} = "), kind="expect", **fl)
        elif k == 2:
            v, m = self.fresh("v"), self.fresh("m")
            mid = rng.choice(["unwrap", "expect"])
            arg = "\"mid\"" if mid == "expect" else ""
            ln = self.emit(indent, f"let {v} = {m}.get(0).{mid}({arg}).first().unwrap();")
            col = base + len(f"let {v} = ")
            self.plant(ln, col, kind=mid, **fl)          # both calls of the chain start where the chain starts
            self.plant(ln, col, kind="unwrap", **fl)
        elif k in (3, 4):
            cat = rng.choice(["fs", "fs", "sleep", "net", "none"])
            if cat == "fs":
                path = rng.choice(["std::fs::", "fs::"]) + rng.choice(FS_FUNCS)
            elif cat == "sleep":
                path = rng.choice(["std::thread::sleep", "thread::sleep"])
            elif cat == "net":
                path = rng.choice(["std::net::", "net::"]) + rng.choice(NET_TYPES) + "::" + rng.choice(["connect", "bind"])
            else:
                path = rng.choice(["tokio::fs::read_to_string", "tokio::time::sleep", "tokio::net::TcpStream::connect",
                                   "my::fs::helper", "std::fs::File::create_new_thing", "other::thread::sleep"])
            tail = rng.choice(["", "", ".unwrap()"])
            ln = self.emit(indent, f"{path}({self.fresh('a')}){tail};")
            if cat != "none":
                self.plant(ln, base, kind="blocking", cat=cat, **fl)
            if tail:
                self.plant(ln, base, kind="unwrap", **fl)
        elif k == 5:
            c, s = self.fresh("c"), self.fresh("s")
            if fl["in_loop"]:
                ln = self.emit(indent, f"let {c} = {s}.clone();")
                self.emit(indent, f"touch(&{s});")        # the source IS used afterwards: the loop pattern only
                self.plant(ln, base + len(f"let {c} = "), kind="clone", pattern="clone-in-loop", **fl)
            else:
                shape = rng.choice(["unused", "used", "chain"])
                if shape == "chain":
                    ln = self.emit(indent, f"let {c} = {s}.clone().clone();")
                    self.emit(indent, f"touch(&{s});")
                    self.plant(ln, base + len(f"let {c} = "), kind="clone", pattern="clone-chain", **fl)
                else:
                    ln = self.emit(indent, f"let {c} = {s}.clone();")
                    if shape == "used":
                        self.emit(indent, f"touch(&{s});")
                    else:
                        self.plant(ln, base + len(f"let {c} = "), kind="clone", pattern="unnecessary-clone", **fl)
        elif k == 6 and depth < 5:
            head = rng.choice([f"for {self.fresh('i')} in 0..3 {{", f"while {self.fresh('w')} {{", "loop {"])
            self.emit(indent, head)
            self.block(indent + 1, depth + 1, dict(fl, in_loop=True))
            if head == "loop {":
                self.emit(indent + 1, "break;")
            self.emit(indent, "}")
        elif k == 7 and depth < 5:
            self.emit(indent, f"let {self.fresh('k')} = || {{")
            self.block(indent + 1, depth + 1, fl)
            self.emit(indent, "};")
        elif k == 8 and depth < 5:
            self.emit(indent, rng.choice(WRAPPERS))
            self.block(indent + 1, depth + 1, dict(fl, in_wrapper=True))
            self.emit(indent, "});")
        elif k in (9, 10) and depth < 4 and not fl["in_loop"] and not fl["in_wrapper"]:
            self.function(indent, depth, fl)              # a fn item nested in a fn body (async in async, sync in async...)
        elif k == 11 and depth < 5:
            self.emit(indent, f"if {self.fresh('b')} {{")
            self.block(indent + 1, depth + 1, fl)
            self.emit(indent, "}")
        else:
            self.emit(indent, f"let {self.fresh('x')} = {self.fresh('y')}.len();")


def generate(rng):
    g = Gen(rng)
    g.items(0, 0, dict(in_test=False, in_async=False, in_loop=False, in_wrapper=False))
    return "\n".join(g.lines) + "\n", g.planted


# ---- the oracle: property text only ---------------------------------------------------------------------------------
def expect_unwrap(planted, cfg):
    out = []
    for p in planted:
        if p["kind"] not in ("unwrap", "expect") or (p["in_test"] and cfg["allow_in_tests"]):
            continue
        if p["kind"] == "unwrap":
            out.append((p["line"], p["col"], "unwrap-abuse.unwrap-call"))
        elif not cfg["allow_expect"]:
            out.append((p["line"], p["col"], "unwrap-abuse.expect-call"))
    return sorted(out)


CLONE_SWITCH = {"clone-in-loop": "detect_clone_in_loop", "clone-chain": "detect_clone_chain",
                "unnecessary-clone": "detect_unnecessary_clone"}
BLOCK_SWITCH = {"fs": "detect_fs_in_async", "sleep": "detect_sleep_in_async", "net": "detect_net_in_async"}


def expect_clone(planted, cfg):
    return sorted((p["line"], p["col"], "clone-abuse." + p["pattern"]) for p in planted
                  if p["kind"] == "clone" and cfg[CLONE_SWITCH[p["pattern"]]] and not (p["in_test"] and cfg["allow_in_tests"]))


def expect_blocking(planted, cfg):
    return sorted((p["line"], p["col"], f"blocking-async.{p['cat']}-in-async") for p in planted
                  if p["kind"] == "blocking" and p["in_async"] and not p["in_wrapper"] and cfg[BLOCK_SWITCH[p["cat"]]]
                  and not (p["in_test"] and cfg["allow_in_tests"]))


def configs(rule):
    base = {"enabled": True, "ignore": []}
    out = []
    for ait in (True, False):
        if rule == "unwrap":
            out += [dict(base, allow_in_tests=ait, allow_expect=ae) for ae in (True, False)]
        else:
            keys = list((CLONE_SWITCH if rule == "clone" else BLOCK_SWITCH).values())
            out.append(dict(base, allow_in_tests=ait, **{k: True for k in keys}))
            out += [dict(base, allow_in_tests=ait, **{k: (k != off) for k in keys}) for off in keys]
    return out


class Ctx:
    """What a rule sees of a file (duck-typed BaseLintContext)."""

    def __init__(self, path, content, metadata):
        self.file_path, self.file_content, self.language, self.metadata = path, content, "rust", metadata


@custom("c17-rust-differential-bounded", props=["C17"])
def c17_rust_differential(ctx):
    from pathlib import Path
    from pyvc.native import _ensure_repo_on_path
    name = "c17-rust-differential-bounded"
    t0 = time.time()
    try:
        _ensure_repo_on_path()
        from src.linters.unwrap_abuse.linter import UnwrapAbuseRule
        from src.linters.unwrap_abuse.config import UnwrapAbuseConfig
        from src.linters.clone_abuse.linter import CloneAbuseRule
        from src.linters.clone_abuse.config import CloneAbuseConfig
        from src.linters.blocking_async.linter import BlockingAsyncRule
        from src.linters.blocking_async.config import BlockingAsyncConfig
    except Exception as e:  # noqa
        return [{"name": name, "kind": "bounded", "verdict": "unknown", "note": f"cannot import: {e!r}"[:300],
                 "tool": "cpython", "budget": "-", "cases": 0}]
    rules = {"unwrap": (UnwrapAbuseRule, UnwrapAbuseConfig, "unwrap-abuse", expect_unwrap),
             "clone": (CloneAbuseRule, CloneAbuseConfig, "clone-abuse", expect_clone),
             "blocking": (BlockingAsyncRule, BlockingAsyncConfig, "blocking-async", expect_blocking)}
    rng = random.Random(1700 + int(ctx.get("seed", 0)))
    n_files = 60 if ctx.get("tier") == "thorough" else 16
    long_lived = {r: cls() for r, (cls, _c, _k, _e) in rules.items()}       # ONE object per rule for the whole run
    bad, cases, turn = None, 0, 0
    for i in range(n_files):
        text, planted = generate(rng)
        path = Path(f"src/gen{i}.rs")
        for r, (cls, cfgcls, key, oracle) in rules.items():
            cfgs = configs(r)
            rng.shuffle(cfgs)                                               # the configuration CHANGES between checks
            for cfg in cfgs:
                want = oracle(planted, cfg)
                turn += 1
                section = key if turn % 2 else key.replace("-", "_")
                for mode, rule, c in (("metadata", long_lived[r], Ctx(path, text, {section: dict(cfg)})),
                                      ("override", cls(cfgcls(**cfg)), Ctx(path, text, {}))):
                    cases += 1
                    try:
                        got = sorted((v.line, v.column, v.rule_id) for v in rule.check(c))
                    except Exception as e:  # noqa
                        got = "exception " + repr(e)[:200]
                    if got != want:
                        bad = (r, mode, cfg, got, want, text)
                        break
                if bad:
                    break
            if bad:
                break
        if bad:
            break
    note = ""
    if bad:
        r, mode, cfg, got, want, text = bad
        miss = [x for x in want if not isinstance(got, str) and x not in got]
        extra = [x for x in got if x not in want] if not isinstance(got, str) else got
        note = (f"{r}-abuse rule ({mode} configuration {cfg}; long-lived rule object reused across files and "
                f"configurations): expected (line, column, rule) {want} got {got}; missing {miss} unexpected {extra}; "
                f"source:\n{text}")[:2500]
    return [{"name": name, "kind": "bounded", "verdict": "passed" if bad is None else "refuted", "note": note,
             "tool": "cpython (UnwrapAbuseRule / CloneAbuseRule / BlockingAsyncRule .check on generated Rust files)",
             "budget": f"{n_files} generated files x all allow_in_tests/allow_expect/detect_* settings x 2 configuration routes",
             "cases": cases, "ms": round((time.time() - t0) * 1000, 1), "witness_confirmed": bad is not None,
             "model_inputs": {"rule": bad[0], "route": bad[1], "config": bad[2], "source": bad[5]} if bad else None}]


# ---- C17's dependency cone: state hygiene of the rule objects ("each call reported ... under the same settings" holds for
# ---- EVERY check of a long-lived rule object only if check() leaves no state behind: the frame analysis of C08) -------
from pyvc import api as _api  # noqa: E402

_CONE = ("c08-check-frames", "c08-init-clean")
_CONE_ERRORS = {}
try:
    from contracts import c08_frames as _c08_frames  # noqa: F401
    for _n in _CONE:
        if _n in _api.CUSTOM and "C17" not in _api.CUSTOM[_n][0]:
            _api.CUSTOM[_n][0].append("C17")
except BaseException as _e:  # noqa  (reported below, never silently)
    _CONE_ERRORS["contracts.c08_frames"] = repr(_e)[:200]


@custom("c17-cone-state-hygiene", props=["C17"])
def c17_cone(ctx):
    missing = [n for n in _CONE if n not in _api.CUSTOM or "C17" not in _api.CUSTOM[n][0]]
    ok = not missing and not _CONE_ERRORS
    return [{"name": "custom:c17-cone-state-hygiene/registered", "kind": "frame", "carries": False,
             "verdict": "discharged" if ok else "unknown", "solver": "registry", "ms": 0.0,
             "note": f"state-hygiene units of C08 in C17's cone: {list(_CONE)}; missing: {missing}; import errors: {_CONE_ERRORS}"}]
