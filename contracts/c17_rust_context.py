"""C17 -- Rust context helpers (src/analyzers/rust_context.py) and the remaining RustBaseAnalyzer methods.

Property text / docs (unwrap-abuse-linter.md, blocking-async-linter.md, clone-abuse-linter.md): test code is a call
"inside a `#[test]` function or a `#[cfg(test)]` module". In tree-sitter-rust the attributes of an item are the
`attribute_item` siblings in front of it; comments are "extras" and may sit between them. The documented notion is
`doc_has_attr` below; the code implements `attr_run_contains` (contiguous run of attribute_item siblings, SUBSTRING
test on the attribute text). The two differ in both directions: known findings C17-test-attr-function / -module."""
from pyvc.api import contract, lemma, Int, Bool, Str, SeqOf, Rec, Opt, implies, call, mk, uf
from contracts._nodes import TSNode, ts_depth, ts_sibling_index
from contracts.c17_clone import node_text, first_of_type

C = "src/analyzers/rust_context.py::"
B = "src/analyzers/rust_base.py::"
COMMENTS = ("line_comment", "block_comment")
BaseT = Rec("RustBaseAnalyzer", cls=B + "RustBaseAnalyzer", tree_sitter_available=Bool)


# ------------------------------------------------------------------ code-level helper specs
def attr_run_contains(n: TSNode, marker: Str) -> Bool:
    """Some attribute in the contiguous run of attribute_item siblings ending at n has `marker` as a substring."""
    return n is not None and n.type == "attribute_item" and (marker in node_text(n) or attr_run_contains(n.prev_sibling, marker))


def test_ctx_code(n):
    """_is_test_context: a function_item / mod_item whose attribute run carries the marker."""
    if n.type == "function_item":
        return attr_run_contains(n.prev_sibling, "test")
    if n.type == "mod_item":
        return attr_run_contains(n.prev_sibling, "cfg(test)")
    return False


def inside_test_from(n: TSNode) -> Bool:
    """n or one of its ancestors is a test context."""
    return n is not None and (test_ctx_code(n) or inside_test_from(n.parent))


def has_async_modifier(m):
    return any(modifier.type == "async" for modifier in m.children)


def is_async_fn(n):
    return any(child.type == "function_modifiers" and has_async_modifier(child) for child in n.children)


# ------------------------------------------------------------------ documented notion (property text / docs)
def is_test_attr_text(text):
    """`#[test]` (also the path form `#[tokio::test]`, `#[async_std::test]` used for async tests)."""
    return text == "#[test]" or text.endswith("::test]")


def is_cfg_test_attr_text(text):
    return text == "#[cfg(test)]"


def doc_has_test_attr(n: TSNode) -> Bool:
    """The item whose preceding sibling is n carries a `#[test]` attribute (attributes and comments may be mixed)."""
    return n is not None and ((n.type == "attribute_item" and is_test_attr_text(node_text(n)))
                              or ((n.type == "attribute_item" or n.type in COMMENTS) and doc_has_test_attr(n.prev_sibling)))


def doc_has_cfg_test_attr(n: TSNode) -> Bool:
    return n is not None and ((n.type == "attribute_item" and is_cfg_test_attr_text(node_text(n)))
                              or ((n.type == "attribute_item" or n.type in COMMENTS) and doc_has_cfg_test_attr(n.prev_sibling)))


def clean_test_run(n: TSNode) -> Bool:
    """No comment interrupts the attribute run ending at n and no attribute merely LOOKS like a test attribute."""
    return n is None or (n.type not in COMMENTS and (
        n.type != "attribute_item"
        or ((("test" in node_text(n)) == is_test_attr_text(node_text(n))) and clean_test_run(n.prev_sibling))))


def clean_cfg_run(n: TSNode) -> Bool:
    return n is None or (n.type not in COMMENTS and (
        n.type != "attribute_item"
        or ((("cfg(test)" in node_text(n)) == is_cfg_test_attr_text(node_text(n))) and clean_cfg_run(n.prev_sibling))))


# ------------------------------------------------------------------ rust_context.py
@contract(C + "_get_node_text", props=["C17", "C02", "C11", "C13", "C19"], types=dict(node=TSNode), returns=Str)
class GetNodeText:
    def requires(node):
        return node is not None

    def value(node):
        return node_text(node)


@contract(C + "has_test_attribute", props=["C17", "C02", "C11", "C13", "C19"], types=dict(function_node=TSNode, prev_sibling=TSNode), returns=Bool)
class HasTestAttribute:
    def requires(function_node):
        return function_node is not None

    def value(function_node):
        return attr_run_contains(function_node.prev_sibling, "test")

    def ensures_documented_on_clean_runs(function_node, result):
        # finding-adjusted: apart from comments inside the attribute run and look-alike attributes the answer is the documented one
        return implies(clean_test_run(function_node.prev_sibling), result == doc_has_test_attr(function_node.prev_sibling))

    def inv0(function_node, prev_sibling):
        return attr_run_contains(function_node.prev_sibling, "test") == attr_run_contains(prev_sibling, "test") \
            and implies(clean_test_run(function_node.prev_sibling),
                        clean_test_run(prev_sibling)
                        and doc_has_test_attr(function_node.prev_sibling) == doc_has_test_attr(prev_sibling))

    def var0(prev_sibling):
        return -1 if prev_sibling is None else ts_sibling_index(prev_sibling)


@contract(C + "has_cfg_test_attribute", props=["C17", "C02", "C11", "C13", "C19"], types=dict(mod_node=TSNode, prev_sibling=TSNode), returns=Bool)
class HasCfgTestAttribute:
    def requires(mod_node):
        return mod_node is not None

    def value(mod_node):
        return attr_run_contains(mod_node.prev_sibling, "cfg(test)")

    def ensures_documented_on_clean_runs(mod_node, result):
        return implies(clean_cfg_run(mod_node.prev_sibling), result == doc_has_cfg_test_attr(mod_node.prev_sibling))

    def inv0(mod_node, prev_sibling):
        return attr_run_contains(mod_node.prev_sibling, "cfg(test)") == attr_run_contains(prev_sibling, "cfg(test)") \
            and implies(clean_cfg_run(mod_node.prev_sibling),
                        clean_cfg_run(prev_sibling)
                        and doc_has_cfg_test_attr(mod_node.prev_sibling) == doc_has_cfg_test_attr(prev_sibling))

    def var0(prev_sibling):
        return -1 if prev_sibling is None else ts_sibling_index(prev_sibling)


def short_run(n):
    """At most two siblings precede the item (enough for both deviations; keeps the refutation a finite unfolding --
    the general statement for clean runs of any length is the contracts' ensures_documented_on_clean_runs)."""
    return n is None or n.prev_sibling is None or n.prev_sibling.prev_sibling is None


@lemma(props=["C17"], types=dict(function_node=TSNode), name="test-function-as-documented")
def test_function_as_documented(function_node):
    """Property text: exempt test code is a call inside "a `#[test]` function" -- has_test_attribute must answer exactly
    that. Expected to fail (known finding C17-test-attr-function): substring test on the attribute text, and the
    attribute run is cut by a comment. Adjusted obligation: has_test_attribute/post.ensures_documented_on_clean_runs."""
    if function_node is None or not short_run(function_node.prev_sibling):
        return True
    return call(C + "has_test_attribute", function_node) == doc_has_test_attr(function_node.prev_sibling)


@lemma(props=["C17"], types=dict(mod_node=TSNode), name="test-module-as-documented")
def test_module_as_documented(mod_node):
    """Property text: "a `#[cfg(test)]` module". Expected to fail (known finding C17-test-attr-module)."""
    if mod_node is None or not short_run(mod_node.prev_sibling):
        return True
    return call(C + "has_cfg_test_attribute", mod_node) == doc_has_cfg_test_attr(mod_node.prev_sibling)


@contract(C + "_is_test_context", props=["C17", "C02", "C11", "C13", "C19"], types=dict(node=TSNode), returns=Bool)
class IsTestContext:
    def requires(node):
        return node is not None

    def value(node):
        return test_ctx_code(node)


@contract(C + "is_inside_test", props=["C17", "C02", "C11", "C13", "C19"], types=dict(node=TSNode, current=TSNode), returns=Bool)
class IsInsideTest:
    def value(node):
        return inside_test_from(node)

    def inv0(node, current):
        return inside_test_from(node) == inside_test_from(current)

    def var0(current):
        return ts_depth(current)


@contract(C + "_has_async_modifier", props=["C17", "C11", "C13", "C19"], types=dict(modifiers_node=TSNode), returns=Bool)
class HasAsyncModifier:
    def requires(modifiers_node):
        return modifiers_node is not None

    def value(modifiers_node):
        return has_async_modifier(modifiers_node)


@contract(C + "is_async_function", props=["C17", "C11", "C13", "C19"], types=dict(node=TSNode), returns=Bool)
class IsAsyncFunction:
    def requires(node):
        return node is not None

    def value(node):
        return is_async_fn(node)


# ------------------------------------------------------------------ rust_base.py (remaining methods)
def collect_type(n: TSNode, node_type: Str) -> SeqOf(TSNode):
    """Pre-order (document order) list of the nodes of the given type in the subtree of n."""
    return ([n] if n.type == node_type else []) + collect_type_seq(n.children, node_type)


def collect_type_seq(s: SeqOf(TSNode), node_type: Str) -> SeqOf(TSNode):
    if len(s) == 0:
        return []
    return collect_type(s[0], node_type) + collect_type_seq(s[1:], node_type)


@contract(B + "RustBaseAnalyzer._walk_tree_recursive", props=["C17", "C11", "C13", "C19"],
          types=dict(node=TSNode, node_type=Str, nodes=SeqOf(TSNode)), modifies=["nodes"])
class WalkTreeRecursive:
    def requires(self, node, node_type, nodes):
        return node is not None

    def ensures_appends_matches_in_document_order(self, node, node_type, nodes, old):
        return nodes == old.nodes + collect_type(node, node_type)

    def inv0(self, node, node_type, nodes, old, rest):
        return old.nodes + collect_type(node, node_type) == nodes + collect_type_seq(rest, node_type)


@contract(B + "RustBaseAnalyzer.walk_tree", props=["C17", "C11", "C13", "C19"], types=dict(self=BaseT, node=TSNode, node_type=Str),
          returns=SeqOf(TSNode))
class WalkTree:
    def ensures_all_matches_once_in_document_order(self, node, node_type, result):
        return implies(node is not None, result == collect_type(node, node_type)) and implies(node is None, len(result) == 0)


@contract(B + "RustBaseAnalyzer.extract_identifier_name", props=["C17", "C11", "C13", "C19"], types=dict(node=TSNode), returns=Str)
class ExtractIdentifierName:
    def requires(self, node):
        return node is not None

    def value(self, node):
        return "anonymous" if first_of_type(node.children, "identifier") is None \
            else node_text(first_of_type(node.children, "identifier"))

    def inv0(self, node, rest):
        return first_of_type(node.children, "identifier") == first_of_type(rest, "identifier")


@contract(B + "RustBaseAnalyzer.is_inside_test", props=["C17", "C02", "C11", "C13", "C19"], types=dict(self=BaseT, node=TSNode), returns=Bool)
class BaseIsInsideTest:
    def value(self, node):
        return inside_test_from(node)


@contract(B + "RustBaseAnalyzer.is_async_function", props=["C17", "C11", "C13", "C19"], types=dict(self=BaseT, node=TSNode), returns=Bool)
class BaseIsAsyncFunction:
    def requires(self, node):
        return node is not None

    def value(self, node):
        return is_async_fn(node)


class _SameTreeNode:
    """Native stand-in for the parser's root node: two parses of the same text give DIFFERENT tree objects, so native
    equality is structural (same kind, same byte range, same text, same s-expression); everything else is delegated."""

    def __init__(self, node):
        self._n = node

    def __getattr__(self, name):
        return getattr(self._n, name)

    def __eq__(self, other):
        o = other._n if isinstance(other, _SameTreeNode) else other
        n = self._n
        return o is not None and hasattr(o, "start_byte") and \
            (o.type, o.start_byte, o.end_byte, o.text, str(o)) == (n.type, n.start_byte, n.end_byte, n.text, str(n))

    def __ne__(self, other):
        return not self.__eq__(other)

    def __hash__(self):
        return hash((self._n.type, self._n.start_byte, self._n.end_byte))


def _native_parse(code):
    """The tree-sitter-rust parse tree itself (NOT through the function under proof)."""
    import tree_sitter_rust as tsrust
    from tree_sitter import Language, Parser
    return _SameTreeNode(Parser(Language(tsrust.language())).parse(bytes(code, "utf8")).root_node)


# the root node of the tree-sitter-rust parse of a source text (the parser is trusted; error recovery included: a tree
# with ERROR / MISSING nodes is still THE parse tree -- every clause of C17 is decided modulo this tree)
rust_root = uf("rust_root", [Str], TSNode, concrete=_native_parse)

# The external parser objects (tree_sitter_rust.language(), Language, Parser, parser.parse(bytes), tree.root_node) are
# modelled ONCE, language-aware, in contracts/c12_sites.py: Parser(rust language).parse(bytes(text, "utf8")).root_node is
# uf.tree_sitter_root(the_rust_parser, text) == uf.rust_root(text).
from contracts import c12_sites as _c12_sites  # noqa: E402,F401  (registers those externals)


@contract(B + "RustBaseAnalyzer.parse_rust", props=["C17", "C02", "C11", "C13", "C19"], types=dict(self=BaseT, code=Str), returns=Opt(TSNode))
class ParseRust:
    """Verified up to the external parser call: whenever tree-sitter is available the result IS the parser's root node
    for exactly this text -- whatever the tree looks like (ERROR / MISSING nodes, has_error) -- and nothing else."""

    def value(self, code):
        return rust_root(code)
