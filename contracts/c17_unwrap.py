"""C17 -- unwrap-abuse: collector (src/linters/unwrap_abuse/rust_analyzer.py) and config filter (linter.py).

Top-level spec (property text): `thailint unwrap-abuse` reports every `.unwrap()` call -- and every `.expect()` call
when allow_expect is off -- exactly once at the position of the call (line = row + 1, column = start column),
except calls in test code while allow_in_tests is on. "Exactly once, in document order" is the pre-order fold
`collect_unwrap` over the parse tree (every node of a tree is visited once)."""
from pyvc.api import contract, lemma, Int, Bool, Str, SeqOf, Rec, Opt, implies, call, mk, opaque, reveal, uf
from contracts._nodes import TSNode
from contracts._common import ViolationT
from contracts.c12_core import violation_of
from contracts.c17_clone import node_text, first_of_type, field_ident_text, method_name
from contracts.c17_rust_context import inside_test_from, rust_root

F = "src/linters/unwrap_abuse/rust_analyzer.py::"
L = "src/linters/unwrap_abuse/linter.py::"
B = "src/analyzers/rust_base.py::"
LU = "src/core/linter_utils.py::"

UnwrapCallT = Rec("UnwrapCall", cls=F + "UnwrapCall", pycls="src.linters.unwrap_abuse.rust_analyzer:UnwrapCall",
                  line=Int, column=Int, method=Str, is_in_test=Bool, context=Str)
UnwrapConfigT = Rec("UnwrapAbuseConfig", pycls="src.linters.unwrap_abuse.config:UnwrapAbuseConfig",
                    enabled=Bool, allow_in_tests=Bool, allow_expect=Bool, ignore=SeqOf(Str))
AnalyzerT = Rec("RustUnwrapAnalyzer", cls=F + "RustUnwrapAnalyzer", tree_sitter_available=Bool)
RuleT = Rec("UnwrapAbuseRule", cls=L + "UnwrapAbuseRule")


# ------------------------------------------------------------------ shared plumbing
@opaque
def line_ctx(code: Str, line_index: Int) -> Str:
    """The stripped source line with that 0-based index ('' when out of range): message context only."""
    return code.split("\n")[line_index].strip() if 0 <= line_index < len(code.split("\n")) else ""


@contract(LU + "get_line_context", props=["C17", "C12"], types=dict(code=Str, line_index=Int), returns=Str)
class GetLineContext:
    def reveals(code, line_index):
        return reveal(line_ctx, code, line_index)

    def value(code, line_index):
        return line_ctx(code, line_index)


# ------------------------------------------------------------------ spec of the collector
def is_unwrap_call(n):
    """A method call `.unwrap(...)` / `.expect(...)`: call_expression -> field_expression -> field_identifier."""
    return n.type == "call_expression" and method_name(n) in ("unwrap", "expect")


def unwrap_call_of(n, code):
    """What is recorded for a call node: ITS position (1-based line, 0-based column), method, test context."""
    return mk(UnwrapCallT, line=n.start_point[0] + 1, column=n.start_point[1], method=method_name(n),
              is_in_test=inside_test_from(n), context=line_ctx(code, n.start_point[0]))


def collect_unwrap(n: TSNode, code: Str) -> SeqOf(UnwrapCallT):
    """Pre-order fold: every unwrap/expect call node of the subtree exactly once, in document order."""
    return ([unwrap_call_of(n, code)] if is_unwrap_call(n) else []) + collect_unwrap_seq(n.children, code)


def collect_unwrap_seq(s: SeqOf(TSNode), code: Str) -> SeqOf(UnwrapCallT):
    if len(s) == 0:
        return []
    return collect_unwrap(s[0], code) + collect_unwrap_seq(s[1:], code)


# ------------------------------------------------------------------ analyzer
@contract(F + "RustUnwrapAnalyzer._extract_field_identifier", props=["C17", "C11", "C13", "C19"], types=dict(field_expr=TSNode), returns=Str)
class ExtractFieldIdentifier:
    def requires(field_expr):
        return field_expr is not None

    def value(field_expr):
        return field_ident_text(field_expr)

    def inv0(field_expr, rest):
        return first_of_type(field_expr.children, "field_identifier") == first_of_type(rest, "field_identifier")


@contract(F + "RustUnwrapAnalyzer._get_method_name", props=["C17", "C11", "C13", "C19"], types=dict(call_node=TSNode), returns=Str)
class GetMethodName:
    def requires(call_node):
        return call_node is not None

    def value(call_node):
        return method_name(call_node)

    def inv0(call_node, rest):
        return first_of_type(call_node.children, "field_expression") == first_of_type(rest, "field_expression")


@contract(F + "RustUnwrapAnalyzer._find_unwrap_recursive", props=["C17", "C12", "C11", "C13", "C19"],
          types=dict(node=TSNode, code=Str, calls=SeqOf(UnwrapCallT), method_name=Str), modifies=["calls"])
class FindUnwrapRecursive:
    def requires(node, code, calls):
        return node is not None

    def ensures_every_call_once_at_its_position(node, code, calls, old):
        return calls == old.calls + collect_unwrap(node, code)

    def inv0(node, code, calls, old, rest):
        return old.calls + collect_unwrap(node, code) == calls + collect_unwrap_seq(rest, code)


@contract(F + "RustUnwrapAnalyzer.find_unwrap_calls", props=["C17", "C11", "C13", "C19"], types=dict(self=AnalyzerT, code=Str),
          returns=SeqOf(UnwrapCallT), named_types={"UnwrapCall": UnwrapCallT})
class FindUnwrapCalls:
    def ensures_all_calls_of_the_file(self, code, result):
        return result == ([] if (not self.tree_sitter_available or rust_root(code) is None)
                          else collect_unwrap(rust_root(code), code))


# ------------------------------------------------------------------ config filter (linter.py)
@contract(L + "UnwrapAbuseRule._should_skip_call", props=["C17"], types=dict(call=UnwrapCallT, config=UnwrapConfigT),
          returns=Bool)
class ShouldSkipCall:
    def value(call, config):
        return (call.is_in_test and config.allow_in_tests) or (call.method == "expect" and config.allow_expect)


# ------------------------------------------------------------------ the property's reporting condition
def reported_spec(method, in_test, allow_in_tests, allow_expect):
    """Property text: every .unwrap() -- and every .expect() when allow_expect is off -- except test code while
    allow_in_tests is on."""
    return (method == "unwrap" or (method == "expect" and not allow_expect)) and not (in_test and allow_in_tests)


@lemma(props=["C17"], types=dict(node=TSNode, code=Str, config=UnwrapConfigT), name="unwrap-reporting-condition")
def unwrap_reporting_condition(node, code, config):
    """The record the collector makes for an unwrap/expect call + _should_skip_call = the property's condition."""
    if node is None or not is_unwrap_call(node):
        return True
    c = unwrap_call_of(node, code)
    skipped = call(L + "UnwrapAbuseRule._should_skip_call", None, c, config)
    return (not skipped) == reported_spec(method_name(node), inside_test_from(node), config.allow_in_tests,
                                          config.allow_expect)


# ------------------------------------------------------------------ violations (linter.py)
UNWRAP_SUGGESTION = ("Use the ? operator, .unwrap_or(), .unwrap_or_default(), "
                     "or match/if-let for safe error handling.")
EXPECT_SUGGESTION = ("Use the ? operator with a descriptive error via .context() or .with_context(), "
                     "or use match/if-let for explicit error handling.")


@opaque
def unwrap_violation(c: UnwrapCallT, file_path: Str) -> ViolationT:
    """The violation reported for a recorded call: same position, rule id by method."""
    if c.method == "unwrap":
        return violation_of("unwrap-abuse.unwrap-call", file_path, c.line, c.column,
                            f".unwrap() call may panic at runtime: {c.context}", "error", UNWRAP_SUGGESTION)
    return violation_of("unwrap-abuse.expect-call", file_path, c.line, c.column,
                        f".expect() call may panic at runtime: {c.context}", "error", EXPECT_SUGGESTION)


@contract(L + "_build_violation_for_call", props=["C17", "C12"], types=dict(call=UnwrapCallT, file_path=Str),
          returns=ViolationT, inline=["build_unwrap_violation", "build_expect_violation"])
class BuildViolationForCall:
    def reveals(call, file_path):
        return reveal(unwrap_violation, call, file_path)

    def value(call, file_path):
        return unwrap_violation(call, file_path)

    def ensures_location(call, file_path, result):
        return result.file_path == file_path and result.line == call.line and result.column == call.column

    def ensures_rule_by_method(call, file_path, result):
        return result.rule_id == ("unwrap-abuse.unwrap-call" if call.method == "unwrap" else "unwrap-abuse.expect-call")


def skipped(c, config):
    return (c.is_in_test and config.allow_in_tests) or (c.method == "expect" and config.allow_expect)


@contract(L + "UnwrapAbuseRule._build_violations", props=["C17", "C12"],
          types=dict(calls=SeqOf(UnwrapCallT), config=UnwrapConfigT, file_path=Str), returns=SeqOf(ViolationT))
class BuildViolations:
    def value(calls, config, file_path):
        # one violation per recorded call that is not filtered out, in the same order
        return [unwrap_violation(call, file_path) for call in calls if not skipped(call, config)]


@lemma(props=["C17", "C12"], types=dict(node=TSNode, code=Str, file_path=Str), name="unwrap-violation-at-call-position")
def unwrap_violation_at_call_position(node, code, file_path):
    """Property text: reported "at the position of the call": line = row + 1, column = start column of the call node."""
    if node is None or not is_unwrap_call(node):
        return True
    v = call(L + "_build_violation_for_call", unwrap_call_of(node, code), file_path)
    return v.file_path == file_path and v.line == node.start_point[0] + 1 and v.column == node.start_point[1]


# ------------------------------------------------------------------ the rule's entry point
from contracts._common import PathT, path_str  # noqa: E402

CtxT = Rec("LintContext", file_path=Opt(PathT), file_content=Opt(Str), language=Str)
RuleWithConfigT = Rec("UnwrapAbuseRule", cls=L + "UnwrapAbuseRule", _config_override=Opt(UnwrapConfigT), _analyzer=AnalyzerT)


def reported_path(context):
    return path_str(context.file_path) if context.file_path is not None else "unknown"


def analyzed(context, config):
    """Rust file with content, rule enabled, path not matched by an `ignore` substring pattern."""
    return (context.language == "rust" and context.file_content is not None and config.enabled
            and not any(ignored in reported_path(context) for ignored in config.ignore))


@contract(L + "UnwrapAbuseRule.check", props=["C17"], types=dict(self=RuleWithConfigT, context=CtxT),
          returns=SeqOf(ViolationT),
          inline=["_get_config", "_should_analyze", "has_file_content", "resolve_file_path", "is_ignored_path"])
class UnwrapCheck:
    """Composition for a rule constructed with an explicit configuration (loading it from files is C05)."""

    def requires(self, context):
        return self._config_override is not None

    def ensures_nothing_unless_analyzed(self, context, result):
        return implies(not analyzed(context, self._config_override), len(result) == 0)

    def witness_nothing_unless_analyzed():
        # concrete input tried natively when the solver cannot decide the clause above: a disabled rule on a reportable file
        return {"self": {"_config_override": {"enabled": False, "allow_in_tests": True, "allow_expect": True, "ignore": []},
                         "_analyzer": {"tree_sitter_available": True}},
                "context": {"file_path": None, "file_content": "fn f() { let a = Some(1).unwrap(); }", "language": "rust"}}

    def ensures_one_violation_per_reportable_call_in_document_order(self, context, result):
        return implies(analyzed(context, self._config_override) and self._analyzer.tree_sitter_available
                       and rust_root(context.file_content or "") is not None,
                       result == [unwrap_violation(call, reported_path(context))
                                  for call in collect_unwrap(rust_root(context.file_content or ""), context.file_content or "")
                                  if not skipped(call, self._config_override)])
