"""C18 -- file-placement verdicts (src/linters/file_placement/*).

Top-level spec (property text): a file covered by directory rules is reported iff the MOST SPECIFIC directory
rule CONTAINING it denies it or has an allow list it does not match (deny first); a file not covered by any
directory rule is judged the same way by the global lists; no rules => no violation; an invalid pattern is a
configuration error. Regex matching itself is an uninterpreted predicate (the regex engine is trusted)."""
from pyvc.api import contract, lemma, Any, Assoc, Int, Bool, Str, Dict, SeqOf, Rec, Opt, TupleOf, implies, call, mk, ih, opaque, reveal
from contracts._common import ViolationT, PathT, PatternT, re_valid, path_str, path_name, compiled_i, pat_search

D = "src/linters/file_placement/directory_matcher.py::"
P = "src/linters/file_placement/pattern_matcher.py::"
R = "src/linters/file_placement/rule_checker.py::"
VF = "src/linters/file_placement/violation_factory.py::"
PV = "src/linters/file_placement/pattern_validator.py::"

DEFAULT_REASON = "File not allowed in this location"
Directories = Assoc(Dict)
MatcherT = Rec("PatternMatcher", cls=P + "PatternMatcher", _compiled_patterns=Dict.with_gen(lambda g: {}))


# ------------------------------------------------------------------ specification of containment (property text)
def spec_contains(dir_path, path):
    """Directory `dir_path` contains `path`: equal, or a proper prefix ending at a path separator.
    The root rule "/" covers top-level files (as documented in the code base: paths are project-relative)."""
    if dir_path == "/":
        return "/" not in path
    return path == dir_path or path.startswith(dir_path + "/") or (dir_path.endswith("/") and path.startswith(dir_path))


# ------------------------------------------------------------------ code-level helpers
@opaque
def code_match(dir_path: Str, path: Str) -> Bool:
    """What _check_path_match computes (after fix 981f8e2: whole path components)."""
    if dir_path == "/":
        return "/" not in path
    return path == dir_path or path.startswith(dir_path if dir_path.endswith("/") else dir_path + "/")


@opaque
def code_depth(dir_path: Str, path: Str) -> Int:
    if dir_path == "/":
        return 0 if "/" not in path else -1
    return len(dir_path.split("/")) if (path == dir_path or path.startswith(dir_path if dir_path.endswith("/") else dir_path + "/")) else -1


@contract(D + "DirectoryMatcher._check_root_match", props=["C18"], types=dict(dir_path=Str, path_str=Str),
          returns=TupleOf(Bool, Int))
class CheckRootMatch:
    def value(dir_path, path_str):
        return (True, 0) if dir_path == "/" and "/" not in path_str else (False, -1)


@contract(D + "DirectoryMatcher._check_path_match", props=["C18"], types=dict(dir_path=Str, path_str=Str),
          returns=TupleOf(Bool, Int))
class CheckPathMatch:
    def reveals(dir_path, path_str):
        return reveal(code_match, dir_path, path_str) and reveal(code_depth, dir_path, path_str)

    def ensures_match(dir_path, path_str, result):
        return result[0] == code_match(dir_path, path_str)

    def ensures_depth(dir_path, path_str, result):
        return result[1] == code_depth(dir_path, path_str) and (result[0] == (result[1] >= 0))

    def ensures_depth_positive(dir_path, path_str, result):
        return implies(result[0] and dir_path != "/", result[1] >= 1)


@lemma(props=["C18"], types=dict(d=Str, p=Str), name="match-iff-depth-nonneg")
def match_depth(d, p):
    reveal(code_match, d, p)
    reveal(code_depth, d, p)
    return code_match(d, p) == (code_depth(d, p) >= 0)


def scan(dirs: Directories, path: Str, bm: Opt(Dict), bp: Opt(Str), bd: Int) -> TupleOf(Opt(Dict), Opt(Str), Int):
    """The fold performed by find_matching_rule (code-derived helper spec)."""
    if len(dirs) == 0:
        return (bm, bp, bd)
    if code_match(dirs[0][0], path) and code_depth(dirs[0][0], path) > bd:
        return scan(dirs[1:], path, dirs[0][1], dirs[0][0], code_depth(dirs[0][0], path))
    return scan(dirs[1:], path, bm, bp, bd)


@opaque
def best_depth(dirs: Directories, path: Str) -> Int:
    """Largest depth among matching directory rules (-1 if none)."""
    if len(dirs) == 0:
        return -1
    if code_match(dirs[0][0], path) and code_depth(dirs[0][0], path) > best_depth(dirs[1:], path):
        return code_depth(dirs[0][0], path)
    return best_depth(dirs[1:], path)


@opaque
def is_entry(dirs: Directories, key: Str, rule: Dict) -> Bool:
    return len(dirs) > 0 and ((dirs[0][0] == key and dirs[0][1] == rule) or is_entry(dirs[1:], key, rule))


@lemma(props=["C18"], types=dict(dirs=Directories, path=Str, bm=Opt(Dict), bp=Opt(Str), bd=Int), name="scan-is-most-specific")
def scan_props(dirs, path, bm, bp, bd):
    """By induction on dirs: the fold returns the accumulator or an entry of dirs that matches; its depth is the
    maximum of the accumulator depth and the best matching depth in dirs."""
    r = scan(dirs, path, bm, bp, bd)
    if bd < -1:
        return True
    reveal(best_depth, dirs, path)
    if len(dirs) == 0:
        return best_depth(dirs, path) == -1 and r[0] == bm and r[1] == bp and r[2] == bd
    if code_match(dirs[0][0], path) and code_depth(dirs[0][0], path) > bd:
        ih(scan_props, dirs[1:], path, dirs[0][1], dirs[0][0], code_depth(dirs[0][0], path))
    else:
        ih(scan_props, dirs[1:], path, bm, bp, bd)
    if r[1] is not None and r[0] is not None:
        reveal(is_entry, dirs, r[1], r[0])
    return (best_depth(dirs, path) >= -1
            and r[2] == (bd if bd > best_depth(dirs, path) else best_depth(dirs, path))
            and ((r[1] == bp and r[0] == bm and r[2] == bd)
                 or (r[1] is not None and r[0] is not None and is_entry(dirs, r[1], r[0])
                     and code_match(r[1], path) and code_depth(r[1], path) == r[2])))


@contract(D + "DirectoryMatcher.find_matching_rule", props=["C18"],
          types=dict(path_str=Str, directories=Directories, best_match=Opt(Dict), best_path=Opt(Str), best_depth=Int,
                     rules=Dict, dir_path=Str, matches=Bool, depth=Int),
          returns=TupleOf(Opt(Dict), Opt(Str)))
class FindMatchingRule:
    def lemmas_none_iff_no_match(path_str, directories, result):
        return scan_props(directories, path_str, None, None, -1) and implies(result[1] is not None, match_depth(result[1], path_str))

    def lemmas_is_a_matching_entry(path_str, directories):
        return scan_props(directories, path_str, None, None, -1)

    def lemmas_most_specific(path_str, directories):
        return scan_props(directories, path_str, None, None, -1)

    def ensures_fold(path_str, directories, result):
        return result[0] == scan(directories, path_str, None, None, -1)[0] \
            and result[1] == scan(directories, path_str, None, None, -1)[1]

    def ensures_none_iff_no_match(path_str, directories, result):
        # no directory rule covers the file  <=>  (None, None)
        return (result[1] is None) == (best_depth(directories, path_str) < 0) and (result[0] is None) == (result[1] is None)

    def ensures_is_a_matching_entry(path_str, directories, result):
        return implies(result[1] is not None,
                       is_entry(directories, result[1], result[0]) and code_match(result[1], path_str))

    def ensures_most_specific(path_str, directories, result):
        return implies(result[1] is not None, code_depth(result[1], path_str) == best_depth(directories, path_str))

    def witness_most_specific():
        # property text: "the most specific directory rule containing it" decides -- also when that rule is EMPTY (a nested
        # exemption: nothing to enforce below it), and whatever the order of the entries
        return {"self": {}, "path_str": "src/generated/api/x.py",
                "directories": [["src/generated", {}], ["src", {"deny": [{"pattern": ".*", "reason": "no files here"}]}],
                                ["src/generated/api/v2", {"allow": ["^$"]}]]}

    def witness_is_a_matching_entry():
        return {"self": {}, "path_str": "docs/a.md",
                "directories": [["/", {"allow": [".*"]}], ["docs", {}], ["doc", {"deny": ["."]}]]}

    def lemmas_found_rule_is_well_formed(path_str, directories, result):
        return scan_props(directories, path_str, None, None, -1) and \
            implies(result[1] is not None, entry_wf(directories, result[1], result[0]))

    def ensures_found_rule_is_well_formed(path_str, directories, result):
        return implies(wf_directories(directories) and result[1] is not None,
                       wf_rules(result[0]) and len(result[1]) > 0)

    def inv0(path_str, directories, best_match, best_path, best_depth, rest):
        return scan(directories, path_str, None, None, -1) == scan(rest, path_str, best_match, best_path, best_depth)


# =================================================================== pattern matcher
def matches(pattern, path):
    """re.search(pattern, path, IGNORECASE) is truthy -- the regex engine itself is trusted."""
    return pat_search(compiled_i(pattern), path)


@contract(P + "PatternMatcher._get_compiled", props=["C18"], types=dict(self=MatcherT, pattern=Str), returns=PatternT,
          assumed="observationally pure memo cache of compiled regexes (dict of opaque Pattern objects): the write to "
                  "self._compiled_patterns is not modelled (no frame is claimed for that field) and cache coherence is "
                  "trusted; invalid patterns are rejected earlier by PatternValidator.validate_config")
class GetCompiled:
    def value(self, pattern):
        return compiled_i(pattern)


@opaque
def item_pattern(item: Any) -> Str:
    return item if isinstance(item, str) else item["pattern"]


@opaque
def item_reason(item: Any) -> Str:
    if isinstance(item, str):
        return DEFAULT_REASON
    return item.get("reason", item.get("message", DEFAULT_REASON))


@opaque
def item_ok(item: Any) -> Bool:
    """A deny item is a pattern string, or a dict with string 'pattern' (and string reason/message if present)."""
    return isinstance(item, str) or (isinstance(item, dict) and "pattern" in item and isinstance(item["pattern"], str)
                                     and isinstance(item.get("reason", item.get("message", DEFAULT_REASON)), str))


@contract(P + "PatternMatcher._extract_pattern_and_reason", props=["C18"], types=dict(deny_item=Any),
          returns=TupleOf(Str, Str))
class ExtractPatternAndReason:
    def requires(deny_item):
        return item_ok(deny_item)

    def reveals(deny_item):
        return reveal(item_ok, deny_item) and reveal(item_pattern, deny_item) and reveal(item_reason, deny_item)

    def ensures(deny_item, result):
        return result[0] == item_pattern(deny_item) and result[1] == item_reason(deny_item)


def first_deny(path: Str, items: SeqOf(Any)) -> Opt(Str):
    """Reason of the FIRST deny item whose pattern matches, None if none matches."""
    if len(items) == 0:
        return None
    if matches(item_pattern(items[0]), path):
        return item_reason(items[0])
    return first_deny(path, items[1:])


def well_formed_items(items: SeqOf(Any)) -> Bool:
    return len(items) == 0 or (item_ok(items[0]) and well_formed_items(items[1:]))


@contract(P + "PatternMatcher.match_deny_patterns", props=["C18"],
          types=dict(self=MatcherT, path_str=Str, deny_patterns=SeqOf(Any), pattern=Str, reason=Str, deny_item=Any,
                     compiled=PatternT),
          returns=TupleOf(Bool, Opt(Str)), modifies=["self._compiled_patterns"])
class MatchDenyPatterns:
    def requires(self, path_str, deny_patterns):
        return well_formed_items(deny_patterns)

    def ensures(self, path_str, deny_patterns, result):
        return result[1] == first_deny(path_str, deny_patterns) and result[0] == (result[1] is not None)

    def inv0(path_str, deny_patterns, rest):
        return first_deny(path_str, deny_patterns) == first_deny(path_str, rest) and well_formed_items(rest)


@contract(P + "PatternMatcher.match_allow_patterns", props=["C18"],
          types=dict(self=MatcherT, path_str=Str, allow_patterns=SeqOf(Str)), returns=Bool,
          modifies=["self._compiled_patterns"])
class MatchAllowPatterns:
    def value(self, path_str, allow_patterns):
        return any(matches(p, path_str) for p in allow_patterns)


# =================================================================== violation factory
from pyvc.api import is_str_list, is_any_list, as_str_list, as_list  # noqa: E402
from contracts.c12_core import violation_of  # noqa: E402

FactoryT = Rec("ViolationFactory", cls=VF + "ViolationFactory")


# The suggestion text itself is not part of any clause -- but a suggestion helper that RAISES is: check_all_rules wraps each
# section in `with suppress(KeyError)` ("section not configured"), so a KeyError escaping from the violation factory would
# silently erase a verdict. Hence: verified, raises=[] (no exception of any kind), for every file name.
@contract(VF + "ViolationFactory._is_temp_file", props=["C18", "C11"], types=dict(self=FactoryT, filename=Str), returns=Bool, raises=[])
class IsTempFile:
    def value(self, filename):
        return filename.startswith(("debug", "temp")) or filename.endswith(".log")


SUGGESTION_KINDS = ("test", "component", "source", "temp")


@contract(VF + "ViolationFactory._classify_file_type", props=["C18", "C11"], types=dict(self=FactoryT, filename=Str),
          returns=Opt(Str), raises=[])
class ClassifyFileType:
    def ensures_a_kind_that_has_a_suggestion(self, filename, result):
        return result is None or result in SUGGESTION_KINDS


@contract(VF + "ViolationFactory._get_suggestion", props=["C18", "C11"], types=dict(self=FactoryT, filename=Str), returns=Str,
          raises=[])
class GetSuggestion:
    def ensures_total(self, filename, result):
        # any text will do; what matters is that a suggestion is produced for EVERY file name without raising
        return len(result) >= 0


def is_fp_violation(v, rel_path):
    """Every file-placement violation is file-level: rule id, the file's own relative path, line 1, column 0."""
    return v.rule_id == "file-placement" and v.file_path == path_str(rel_path) and v.line == 1 and v.column == 0


@contract(VF + "ViolationFactory.create_deny_violation", props=["C18", "C12"],
          types=dict(self=FactoryT, rel_path=PathT, matched_path=Str, reason=Str), returns=ViolationT)
class CreateDenyViolation:
    def ensures(rel_path, matched_path, reason, result):
        return is_fp_violation(result, rel_path) and \
            result.message == f"File '{path_str(rel_path)}' not allowed in {matched_path}: {reason}"


@contract(VF + "ViolationFactory.create_allow_violation", props=["C18", "C12"],
          types=dict(self=FactoryT, rel_path=PathT, matched_path=Str), returns=ViolationT)
class CreateAllowViolation:
    def ensures(rel_path, matched_path, result):
        return is_fp_violation(result, rel_path) and \
            result.message == f"File '{path_str(rel_path)}' does not match allowed patterns for {matched_path}"


@contract(VF + "ViolationFactory.create_global_deny_violation", props=["C18", "C12"],
          types=dict(self=FactoryT, rel_path=PathT, reason=Opt(Str)), returns=ViolationT)
class CreateGlobalDenyViolation:
    def ensures(rel_path, reason, result):
        return is_fp_violation(result, rel_path)


@contract(VF + "ViolationFactory.create_global_allow_violation", props=["C18", "C12"],
          types=dict(self=FactoryT, rel_path=PathT), returns=ViolationT)
class CreateGlobalAllowViolation:
    def ensures(rel_path, result):
        return is_fp_violation(result, rel_path)


# =================================================================== rule checker
CtxT = Rec("RuleCheckContext", cls=R + "RuleCheckContext", path_str=Str, rel_path=PathT, dir_rule=Dict, matched_path=Str)
CheckerT = Rec("RuleChecker", cls=R + "RuleChecker",
               pattern_matcher=MatcherT, violation_factory=FactoryT,
               directory_matcher=Rec("DirectoryMatcher", cls=D + "DirectoryMatcher"))
FPConfigT = Rec("fp_config", as_dict=True, optkeys=True, directories=Opt(Directories), global_deny=Opt(SeqOf(Any)),
                global_patterns=Opt(Dict))


def wf_rules(rule):
    """Shape of one allow/deny rule dict as the configuration documents it."""
    return (implies("deny" in rule, is_any_list(rule["deny"]) and well_formed_items(as_list(rule["deny"])))
            and implies("allow" in rule, is_str_list(rule["allow"])))


def denied_by(rule, path):
    return "deny" in rule and first_deny(path, as_list(rule["deny"])) is not None


def not_allowed_by(rule, path):
    return "allow" in rule and not any(matches(p, path) for p in as_str_list(rule["allow"]))


def rule_reports(rule, path):
    """Property text: deny pattern matches, or there is an allow list none of whose patterns match (deny first)."""
    return denied_by(rule, path) or not_allowed_by(rule, path)


@contract(R + "RuleChecker._wrap_violation", props=["C18"], types=dict(violation=Opt(ViolationT)), returns=SeqOf(ViolationT))
class WrapViolation:
    def value(violation):
        return [violation] if violation is not None else []


@contract(R + "RuleChecker._check_directory_deny_rules", props=["C18"], types=dict(self=CheckerT, ctx=CtxT),
          returns=Opt(ViolationT), modifies=["self.pattern_matcher._compiled_patterns"])
class CheckDirectoryDenyRules:
    def requires(self, ctx):
        return wf_rules(ctx.dir_rule)

    def ensures(self, ctx, result):
        return (result is not None) == denied_by(ctx.dir_rule, ctx.path_str) and \
            implies(result is not None, is_fp_violation(result, ctx.rel_path))


@contract(R + "RuleChecker._check_directory_allow_rules", props=["C18"], types=dict(self=CheckerT, ctx=CtxT),
          returns=Opt(ViolationT), modifies=["self.pattern_matcher._compiled_patterns"])
class CheckDirectoryAllowRules:
    def requires(self, ctx):
        return wf_rules(ctx.dir_rule)

    def ensures(self, ctx, result):
        return (result is not None) == not_allowed_by(ctx.dir_rule, ctx.path_str) and \
            implies(result is not None, is_fp_violation(result, ctx.rel_path))


@opaque
def wf_directories(dirs: Directories) -> Bool:
    return len(dirs) == 0 or (wf_rules(dirs[0][1]) and len(dirs[0][0]) > 0 and wf_directories(dirs[1:]))  # a rule dict may be EMPTY


@lemma(props=["C18"], types=dict(dirs=Directories, key=Str, rule=Dict), name="entries-are-well-formed")
def entry_wf(dirs, key, rule):
    """A rule found in a well-formed `directories` mapping is well-formed, has a non-empty key and is non-empty."""
    reveal(wf_directories, dirs)
    reveal(is_entry, dirs, key, rule)
    if len(dirs) == 0:
        return not is_entry(dirs, key, rule)
    ih(entry_wf, dirs[1:], key, rule)
    return implies(wf_directories(dirs) and is_entry(dirs, key, rule), wf_rules(rule) and len(key) > 0)


def most_specific(directories, path):
    """(rule, key) of the most specific directory rule covering path, (None, None) if none covers it."""
    return scan(directories, path, None, None, -1)


@contract(R + "RuleChecker._check_directory_rules", props=["C18"],
          types=dict(self=CheckerT, path_str=Str, rel_path=PathT, directories=Directories),
          returns=SeqOf(ViolationT), modifies=["self.pattern_matcher._compiled_patterns"])
class CheckDirectoryRules:
    def requires(self, path_str, rel_path, directories):
        return wf_directories(directories)

    def ensures_reports_iff_rule_reports(self, path_str, rel_path, directories, result):
        return (len(result) > 0) == (most_specific(directories, path_str)[1] is not None
                                     and rule_reports(most_specific(directories, path_str)[0], path_str))

    def ensures_at_most_one(self, path_str, rel_path, directories, result):
        return len(result) <= 1 and implies(len(result) == 1, is_fp_violation(result[0], rel_path))

    def ensures_an_empty_most_specific_rule_reports_nothing(self, path_str, rel_path, directories, result):
        # the most specific containing rule decides even if it is empty: then the file satisfies all applicable rules
        return implies(most_specific(directories, path_str)[1] is not None and most_specific(directories, path_str)[0] == {},
                       len(result) == 0)


@contract(R + "RuleChecker._check_global_deny", props=["C18"],
          types=dict(self=CheckerT, path_str=Str, rel_path=PathT, global_deny=SeqOf(Any)),
          returns=SeqOf(ViolationT), modifies=["self.pattern_matcher._compiled_patterns"])
class CheckGlobalDeny:
    def requires(self, path_str, rel_path, global_deny):
        return well_formed_items(global_deny)

    def ensures(self, path_str, rel_path, global_deny, result):
        return (len(result) > 0) == (first_deny(path_str, global_deny) is not None) and len(result) <= 1 \
            and implies(len(result) == 1, is_fp_violation(result[0], rel_path))


@contract(R + "RuleChecker._check_global_patterns", props=["C18"],
          types=dict(self=CheckerT, path_str=Str, rel_path=PathT, global_patterns=Dict),
          returns=SeqOf(ViolationT), modifies=["self.pattern_matcher._compiled_patterns"])
class CheckGlobalPatterns:
    def requires(self, path_str, rel_path, global_patterns):
        return wf_rules(global_patterns)

    def ensures(self, path_str, rel_path, global_patterns, result):
        return (len(result) > 0) == rule_reports(global_patterns, path_str) and len(result) <= 1 \
            and implies(len(result) == 1, is_fp_violation(result[0], rel_path))


def wf_config(cfg):
    return (implies("directories" in cfg, wf_directories(cfg["directories"]))
            and implies("global_deny" in cfg, well_formed_items(cfg["global_deny"]))
            and implies("global_patterns" in cfg, wf_rules(cfg["global_patterns"])))


def dir_reports(cfg, path):
    return "directories" in cfg and most_specific(cfg["directories"], path)[1] is not None \
        and rule_reports(most_specific(cfg["directories"], path)[0], path)


def covered(cfg, path):
    return "directories" in cfg and most_specific(cfg["directories"], path)[1] is not None


def global_reports(cfg, path):
    return ("global_deny" in cfg and first_deny(path, cfg["global_deny"]) is not None) \
        or ("global_patterns" in cfg and rule_reports(cfg["global_patterns"], path))


def verdict_spec(cfg, path):
    """Property text: covered files are judged by their most specific directory rule, all others by the global lists."""
    return dir_reports(cfg, path) if covered(cfg, path) else global_reports(cfg, path)


@contract(R + "RuleChecker.check_all_rules", props=["C18"],
          types=dict(self=CheckerT, path_str=Str, rel_path=PathT, fp_config=FPConfigT, violations=SeqOf(ViolationT)),
          returns=SeqOf(ViolationT), modifies=["self.pattern_matcher._compiled_patterns"])
class CheckAllRules:
    def requires(self, path_str, rel_path, fp_config):
        return wf_config(fp_config)

    def ensures_verdict_as_documented(self, path_str, rel_path, fp_config, result):
        # the property's reporting condition (expected to fail: known finding C18-global-on-covered)
        return (len(result) > 0) == verdict_spec(fp_config, path_str)

    def ensures_verdict_code_composition(self, path_str, rel_path, fp_config, result):
        # finding-adjusted: directory verdict OR global verdict, for every file (covered or not)
        return (len(result) > 0) == (dir_reports(fp_config, path_str) or global_reports(fp_config, path_str))

    def ensures_no_rules_no_violation(self, path_str, rel_path, fp_config, result):
        return implies("directories" not in fp_config and "global_deny" not in fp_config
                       and "global_patterns" not in fp_config, len(result) == 0)


# =================================================================== containment: the code's prefix test vs. the property
@lemma(props=["C18"], types=dict(d=Str, p=Str), name="directory-containment-is-separator-aware")
def containment(d, p):
    """`matches` as computed by DirectoryMatcher._check_path_match is containment in the directory (property text:
    'the most specific directory rule CONTAINING it')."""
    if len(d) == 0:
        return True
    reveal(code_match, d, p)
    r = call(D + "DirectoryMatcher._check_path_match", None, d, p)
    return r[0] == spec_contains(d, p)


# =================================================================== pattern validator: invalid patterns are rejected
# Property text: "a syntactically invalid pattern is rejected as a configuration error" -- validate_config raises
# ValueError if and only if SOME pattern of SOME section (every allow and deny list of every directory rule,
# global_patterns, global_deny) does not compile. re.compile is external: it raises re.error exactly on the patterns for
# which re_valid is false (the regex engine is trusted).
import z3 as _z3  # noqa: E402
from pyvc.ex_call import external as _external  # noqa: E402
from pyvc.run import RaiseSig as _RaiseSig  # noqa: E402
from pyvc.ty import VExc as _VExc, VOpaque as _VOpaque  # noqa: E402
from contracts._common import re_valid  # noqa: E402,F811



@_external("re.compile")
def _re_compile(ex, args, kwargs, lineno):
    """re.compile(p[, flags]): raises re.error iff the pattern is invalid; else the compiled pattern (with IGNORECASE
    the object `compiled_i(p)` whose search is pat_search; other flag values: an uninterpreted object of (p, flags))."""
    import re as _re_mod
    p = args[0]
    valid = _z3.Function("uf.re_valid", _z3.StringSort(), _z3.BoolSort())(p.t)
    ex.ufs_used.add("re_valid")
    if not ex.decide(valid):
        raise _RaiseSig(_VExc("error"))
    flags = args[1] if len(args) > 1 else kwargs.get("flags")
    fl = getattr(flags, "py", 0) if flags is not None else 0
    if fl == _re_mod.IGNORECASE:
        ex.ufs_used.add("compiled_i")
        return _VOpaque(_z3.Function("uf.compiled_i", _z3.StringSort(), PatternT.sort())(p.t), PatternT)
    return _VOpaque(_z3.Function(f"uf.compiled_flags_{int(fl)}", _z3.StringSort(), PatternT.sort())(p.t), PatternT)


V = PV
ValidatorT = Rec("PatternValidator", cls=PV + "PatternValidator")


def deny_pattern_of(item):
    """_extract_pattern: a plain string is the pattern; a dict contributes item.get('pattern', '')."""
    return item if isinstance(item, str) else item.get("pattern", "")


@opaque
def vpat(item: Any) -> Str:
    return item if isinstance(item, str) else item.get("pattern", "")


def strs_valid(s: SeqOf(Str)) -> Bool:
    return len(s) == 0 or (re_valid(s[0]) and strs_valid(s[1:]))


def items_valid(items: SeqOf(Any)) -> Bool:
    return len(items) == 0 or (re_valid(vpat(items[0])) and items_valid(items[1:]))


def allow_valid(rule):
    return implies("allow" in rule, strs_valid(as_str_list(rule["allow"])))


def deny_valid(rule):
    return implies("deny" in rule, items_valid(as_list(rule["deny"])))


def rule_valid(rule):
    """Every allow pattern and every deny pattern of one rule dict compiles."""
    return allow_valid(rule) and deny_valid(rule)


def dirs_valid(dirs: Directories) -> Bool:
    return len(dirs) == 0 or (rule_valid(dirs[0][1]) and dirs_valid(dirs[1:]))


def config_valid(cfg):
    """Property text: no pattern anywhere in the configuration is syntactically invalid."""
    return (implies("directories" in cfg, dirs_valid(cfg["directories"]))
            and implies("global_patterns" in cfg, rule_valid(cfg["global_patterns"]))
            and implies("global_deny" in cfg, items_valid(cfg["global_deny"])))


@contract(PV + "_extract_pattern", props=["C18"], types=dict(deny_item=Any), returns=Str)
class ExtractPattern:
    def requires(deny_item):
        return item_ok(deny_item)

    def reveals(deny_item):
        return reveal(item_ok, deny_item) and reveal(vpat, deny_item)

    def value(deny_item):
        return vpat(deny_item)


@contract(PV + "PatternValidator._validate_pattern", props=["C18"], types=dict(self=ValidatorT, pattern=Str),
          raises=["ValueError"])
class ValidatePattern:
    def raises_when(self, pattern):
        return not re_valid(pattern)


@contract(PV + "PatternValidator._validate_allow_patterns", props=["C18"], types=dict(self=ValidatorT, rules=Dict, pattern=Str),
          raises=["ValueError"], modifies=[])
class ValidateAllowPatterns:
    def requires(self, rules):
        return wf_rules(rules)

    def raises_when(self, rules):
        # a rule without an allow list is fine (deny-only rules are documented)
        return not allow_valid(rules)

    def inv0(self, rules, rest):
        return "allow" in rules and strs_valid(as_str_list(rules["allow"])) == strs_valid(rest)


@contract(PV + "PatternValidator._validate_deny_patterns", props=["C18"],
          types=dict(self=ValidatorT, rules=Dict, deny_item=Any, pattern=Str), raises=["ValueError"], modifies=[])
class ValidateDenyPatterns:
    def requires(self, rules):
        return wf_rules(rules)

    def raises_when(self, rules):
        return not deny_valid(rules)

    def inv0(self, rules, rest):
        return "deny" in rules and items_valid(as_list(rules["deny"])) == items_valid(rest) and well_formed_items(rest)


@contract(PV + "PatternValidator._validate_directory_patterns", props=["C18"],
          types=dict(self=ValidatorT, fp_config=FPConfigT, rules=Dict, _dir_path=Str), raises=["ValueError"], modifies=[])
class ValidateDirectoryPatterns:
    def requires(self, fp_config):
        return wf_config(fp_config)

    def reveals(self, fp_config):
        return implies("directories" in fp_config, reveal(wf_directories, fp_config["directories"]))

    def raises_when(self, fp_config):
        # EVERY directory rule is validated: an invalid pattern in any of them is a configuration error
        return "directories" in fp_config and not dirs_valid(fp_config["directories"])

    def inv0(self, fp_config, rest):
        return "directories" in fp_config and dirs_valid(fp_config["directories"]) == dirs_valid(rest) \
            and reveal(wf_directories, rest) and wf_directories(rest)


@contract(PV + "PatternValidator._validate_global_patterns", props=["C18"], types=dict(self=ValidatorT, fp_config=FPConfigT),
          raises=["ValueError"], modifies=[])
class ValidateGlobalPatterns:
    def requires(self, fp_config):
        return wf_config(fp_config)

    def raises_when(self, fp_config):
        return "global_patterns" in fp_config and not rule_valid(fp_config["global_patterns"])


@contract(PV + "PatternValidator._validate_global_deny_patterns", props=["C18"],
          types=dict(self=ValidatorT, fp_config=FPConfigT, deny_item=Any, pattern=Str), raises=["ValueError"], modifies=[])
class ValidateGlobalDenyPatterns:
    def requires(self, fp_config):
        return wf_config(fp_config)

    def raises_when(self, fp_config):
        return "global_deny" in fp_config and not items_valid(fp_config["global_deny"])

    def inv0(self, fp_config, rest):
        return "global_deny" in fp_config and items_valid(fp_config["global_deny"]) == items_valid(rest) \
            and well_formed_items(rest)


@contract(PV + "PatternValidator.validate_config", props=["C18"], types=dict(self=ValidatorT, config=FPConfigT),
          raises=["ValueError"], modifies=[])
class ValidateConfig:
    def requires(self, config):
        return wf_config(config)

    def raises_when(self, config):
        # property text: a syntactically invalid pattern (anywhere) is rejected as a configuration error -- and only then
        return not config_valid(config)


# =================================================================== path resolver + linter flow (lint_path)
# Property text: "the verdict depends only on the file's path relative to the project root": the rules are matched
# against exactly the project-relative path, spelled with forward slashes -- nothing else of the input reaches them.
PRS = "src/linters/file_placement/path_resolver.py::"
LN = "src/linters/file_placement/linter.py::"
ResolverT = Rec("PathResolver", cls=PRS + "PathResolver", project_root=PathT)
ComponentsT = Rec("_Components", cls=LN + "_Components", path_resolver=ResolverT, rule_checker=CheckerT)
LinterT = Rec("FilePlacementLinter", cls=LN + "FilePlacementLinter", project_root=PathT, _components=ComponentsT,
              config=FPConfigT)
CACHE = "self._components.rule_checker.pattern_matcher._compiled_patterns"


def forward_slashes(s):
    """The same path spelled with '/' as the only separator (Windows spellings use a backslash)."""
    return s.replace("\\", "/")


@contract(PRS + "PathResolver.normalize_path_string", props=["C18", "C09"], types=dict(self=ResolverT, path=PathT), returns=Str)
class NormalizePathString:
    def value(self, path):
        return forward_slashes(path_str(path))

    def ensures_a_forward_slash_path_is_handed_on_unchanged(self, path, result):
        # no character of the project-relative path is dropped or rewritten (leading dots, leading '/', case, ...)
        return implies("\\" not in path_str(path), result == path_str(path))


def relative_path_of(linter, file_path):
    """The project-relative path (contract of PathResolver.get_relative_path, contracts/c09_path_predicates.py)."""
    return call(PRS + "PathResolver.get_relative_path", linter._components.path_resolver, file_path)


def code_verdict(cfg, path):
    """What check_all_rules decides for a path string (finding-adjusted composition, see C18-global-on-covered)."""
    return dir_reports(cfg, path) or global_reports(cfg, path)


@contract(LN + "FilePlacementLinter._unwrap_config", props=["C18", "C05"], types=dict(config=Dict), returns=Any, modifies=[])
class UnwrapConfig:
    def value(config):
        return config.get("file-placement", config.get("file_placement", config))


@contract(LN + "FilePlacementLinter.lint_path", props=["C18", "C09"], types=dict(self=LinterT, file_path=PathT),
          returns=SeqOf(ViolationT), modifies=[CACHE])
class LintPath:
    def requires(self, file_path):
        return wf_config(self.config)

    def ensures_verdict_is_a_function_of_the_project_relative_path(self, file_path, result):
        return (len(result) > 0) == code_verdict(self.config, forward_slashes(path_str(relative_path_of(self, file_path))))

    def ensures_no_rules_no_violation(self, file_path, result):
        return implies("directories" not in self.config and "global_deny" not in self.config
                       and "global_patterns" not in self.config, len(result) == 0)


@contract(LN + "FilePlacementLinter.check_file_allowed", props=["C18"], types=dict(self=LinterT, file_path=PathT),
          returns=Bool, modifies=[CACHE])
class CheckFileAllowed:
    def requires(self, file_path):
        return wf_config(self.config)

    def ensures_allowed_iff_not_reported(self, file_path, result):
        return result == (not code_verdict(self.config, forward_slashes(path_str(relative_path_of(self, file_path)))))


def any_reported(cfg: FPConfigT, resolver: ResolverT, files: SeqOf(PathT)) -> Bool:
    """Some file of the list is reported (each judged by its own project-relative path)."""
    return len(files) > 0 and (
        code_verdict(cfg, forward_slashes(path_str(call(PRS + "PathResolver.get_relative_path", resolver, files[0]))))
        or any_reported(cfg, resolver, files[1:]))


@lemma(props=["C18", "C09"], types=dict(cfg=FPConfigT, c1=ComponentsT, c2=ComponentsT, root1=PathT, root2=PathT, f1=PathT, f2=PathT),
       name="verdict-depends-only-on-the-relative-path")
def verdict_depends_only_on_relative_path(cfg, c1, c2, root1, root2, f1, f2):
    """Two projects (different roots, different absolute locations) with the same rules: files with the same
    project-relative path get the same verdict."""
    if not wf_config(cfg):
        return True
    l1 = mk(LinterT, project_root=root1, _components=c1, config=cfg)
    l2 = mk(LinterT, project_root=root2, _components=c2, config=cfg)
    if path_str(relative_path_of(l1, f1)) != path_str(relative_path_of(l2, f2)):
        return True
    v1 = call(LN + "FilePlacementLinter.lint_path", l1, f1)
    v2 = call(LN + "FilePlacementLinter.lint_path", l2, f2)
    return (len(v1) > 0) == (len(v2) > 0)


@contract(LN + "FilePlacementLinter._lint_files", props=["C18"],
          types=dict(self=LinterT, file_paths=SeqOf(PathT), violations=SeqOf(ViolationT), file_path=PathT),
          returns=SeqOf(ViolationT), modifies=[CACHE])
class LintFiles:
    def requires(self, file_paths):
        return wf_config(self.config)

    def ensures_reports_iff_some_file_is_reported(self, file_paths, result):
        return (len(result) > 0) == any_reported(self.config, self._components.path_resolver, file_paths)

    def inv0(self, file_paths, violations, rest, old):
        return wf_config(self.config) and self.config == old.self.config and self.project_root == old.self.project_root \
            and self._components.path_resolver.project_root == old.self._components.path_resolver.project_root \
            and any_reported(self.config, self._components.path_resolver, file_paths) \
            == (len(violations) > 0 or any_reported(self.config, self._components.path_resolver, rest))


# ------------------------------------------------------------------ construction: the configuration is validated
def unwrapped(config):
    """The file-placement section of a config object (wrapped under 'file-placement' / 'file_placement', or bare)."""
    return config.get("file-placement", config.get("file_placement", config))


@contract(LN + "FilePlacementLinter.__init__", props=["C18"],
          types=dict(self=Rec("FilePlacementLinter", cls=LN + "FilePlacementLinter"), config_file=Opt(Str),
                     config_obj=Opt(FPConfigT), project_root=Opt(PathT)),
          raises=["ValueError"], modifies=["self"], inline=["__init__"])
class LinterInit:
    """View for an UNWRAPPED config object (the form the rule passes after _extract_inline_config / _load_layout_config)."""

    def requires(self, config_file, config_obj, project_root):
        return config_obj is not None and config_obj != {} and wf_config(config_obj) and config_file is None

    def raises_when(self, config_file, config_obj, project_root):
        # property text: a syntactically invalid pattern is rejected as a configuration error (at construction)
        return not config_valid(config_obj)

    def ensures_paths_are_taken_relative_to_the_given_project_root(self, config_file, config_obj, project_root):
        return implies(project_root is not None, self._components.path_resolver.project_root == project_root
                       and self.project_root == project_root)

    def ensures_the_given_rules_are_the_rules_in_force(self, config_file, config_obj, project_root, old):
        return implies("file-placement" not in old.config_obj and "file_placement" not in old.config_obj,
                       ("directories" in self.config) == ("directories" in old.config_obj)
                       and ("global_deny" in self.config) == ("global_deny" in old.config_obj)
                       and ("global_patterns" in self.config) == ("global_patterns" in old.config_obj))


# ------------------------------------------------------------------ the framework rule: check() -> lint_path
from pyvc.api import uf  # noqa: E402

RuleCtxT = Rec("LintContext", file_path=Opt(PathT), file_content=Opt(Str), language=Str, metadata=Any)
FPRuleT = Rec("FilePlacementRule", cls=LN + "FilePlacementRule", config=Dict)
fp_project_root = uf("fp_project_root", [RuleCtxT], PathT)           # the project root the rule works with for a context
fp_rules_for = uf("fp_rules_for", [PathT, RuleCtxT], FPConfigT)      # the (unwrapped) rules in force for that project
fp_checker_for = uf("fp_checker_for", [PathT], CheckerT)


@contract(LN + "FilePlacementRule._get_project_root", props=["C18", "C09"], types=dict(self=FPRuleT, context=RuleCtxT),
          returns=PathT,
          assumed="project-root discovery (orchestrator metadata `_project_root`, else marker search on the file system): "
                  "property C09; here only 'a function of the context'")
class GetProjectRoot:
    def value(self, context):
        return fp_project_root(context)


@contract(LN + "FilePlacementRule._get_or_create_linter", props=["C18"],
          types=dict(self=FPRuleT, project_root=PathT, context=Opt(RuleCtxT)), returns=LinterT,
          assumed="per-project linter cache and configuration loading (inline metadata or layout file: C05/C08): returns a "
                  "validated linter FOR THE GIVEN project root whose rules are a function of (project root, context); "
                  "construction itself (FilePlacementLinter.__init__) is verified separately")
class GetOrCreateLinter:
    def value(self, project_root, context):
        return mk(LinterT, project_root=project_root,
                  _components=mk(ComponentsT, path_resolver=mk(ResolverT, project_root=project_root),
                                 rule_checker=fp_checker_for(project_root)),
                  config=fp_rules_for(project_root, context))

    def ensures_rules_are_well_formed(self, project_root, context, result):
        return wf_config(result.config)


@contract(LN + "FilePlacementRule.check", props=["C18"], types=dict(self=FPRuleT, context=RuleCtxT),
          returns=SeqOf(ViolationT),
          no_selftest=True)  # natively the assumed callees run for real (linter cache, file system): no native cross-check
class FilePlacementRuleCheck:
    def ensures_nothing_without_a_path(self, context, result):
        return implies(context.file_path is None, len(result) == 0)

    def ensures_verdict_of_the_rules_on_the_project_relative_path(self, context, result):
        return implies(context.file_path is not None,
                       (len(result) > 0) == code_verdict(
                           fp_rules_for(fp_project_root(context), context),
                           forward_slashes(path_str(call(PRS + "PathResolver.get_relative_path",
                                                         mk(ResolverT, project_root=fp_project_root(context)),
                                                         context.file_path)))))


# ------------------------------------------------------------------ which rules / which root the rule takes from the context
@contract(LN + "FilePlacementRule._has_valid_metadata", props=["C18", "C05"], types=dict(self=FPRuleT, context=Opt(RuleCtxT)),
          returns=Bool)
class HasValidMetadata:
    def value(self, context):
        return context is not None and bool(context.metadata)


@contract(LN + "FilePlacementRule._get_root_from_metadata", props=["C18", "C09"], types=dict(self=FPRuleT, context=RuleCtxT),
          returns=Any)
class GetRootFromMetadata:
    def requires(self, context):
        return isinstance(context.metadata, dict) or context.metadata is None

    def value(self, context):
        # the orchestrator's project root, when it supplied one, is used as is
        return context.metadata["_project_root"] if (context.metadata and "_project_root" in context.metadata) else None


@contract(LN + "FilePlacementRule._get_wrapped_config", props=["C18", "C05"], types=dict(context=RuleCtxT), returns=Any)
class GetWrappedConfig:
    def requires(context):
        return isinstance(context.metadata, dict)

    def value(context):
        # hyphenated section name first, then the underscored one, else None
        return context.metadata["file-placement"] if "file-placement" in context.metadata else (
            context.metadata["file_placement"] if "file_placement" in context.metadata else None)


# =================================================================== bounded differential at the linter's entry point
# A net under the contracts (not a replacement): generated rule sets over a small alphabet of directory prefixes and regex
# patterns (nested / empty / root rules in any order, string and dict deny items, global_deny, global_patterns, an invalid
# pattern planted anywhere) x all paths of a small tree, each spelled relative and absolute. Oracle = the property text
# (most specific CONTAINING directory rule, deny before allow, else the global lists), with the listed known finding
# C18-global-on-covered folded in (a covered file is additionally judged by the global lists). ONE linter object serves all
# paths of a configuration (its compiled-pattern cache is reused), every path is linted twice.
from pyvc.api import custom as _custom  # noqa: E402

_DIRS = ["src", "src/app", "src/app/gen", "docs", "/", ".github", "tests", "src/app/gen/deep"]
_PATS = [r".*\.py$", r"^src/", r"test", r"\.md$", r"^\.", r"secret", r"^$", r".*", r"\.ya?ml$", r"^[a-z]+\.[a-z]+$"]
_BAD = [r"(", r"[a-", r"*x", r"(?P<n"]
_PATHS = ["README.md", ".bashrc", "setup.py", "src/a.py", "src/secret.py", "src2/a.py", "srcx.py", "src/app/b.ts",
          "src/app/gen/c.py", "src/app/gen/deep/d.md", "docs/x.md", "docs/sub/y.rst", ".github/w.yml", ".github/notes.txt",
          "tests/test_a.py", "tests/data/secret.txt", "SRC/A.PY"]


def _gen_rule(rng):
    rule = {}
    if rng.random() < 0.6:
        rule["allow"] = [rng.choice(_PATS) for _ in range(rng.choice([0, 1, 1, 2]))]
    if rng.random() < 0.5:
        rule["deny"] = [(rng.choice(_PATS) if rng.random() < 0.5 else
                         {"pattern": rng.choice(_PATS), **({"reason": "r"} if rng.random() < 0.5 else {})})
                        for _ in range(rng.choice([1, 1, 2]))]
    return rule


def _gen_config(rng):
    cfg = {}
    if rng.random() < 0.8:
        ds = rng.sample(_DIRS, rng.choice([1, 2, 3, 4]))
        cfg["directories"] = {d: ({} if rng.random() < 0.2 else _gen_rule(rng)) for d in ds}
    if rng.random() < 0.4:
        cfg["global_deny"] = [(rng.choice(_PATS) if rng.random() < 0.5 else {"pattern": rng.choice(_PATS), "reason": "g"})
                              for _ in range(rng.choice([1, 2]))]
    if rng.random() < 0.4:
        cfg["global_patterns"] = _gen_rule(rng)
    return cfg


def _plant_invalid(rng, cfg):
    """Put one syntactically invalid pattern somewhere; False if the configuration has no pattern slot."""
    slots = []
    for rule in list(cfg.get("directories", {}).values()) + ([cfg["global_patterns"]] if "global_patterns" in cfg else []):
        slots += [(rule["allow"], i) for i in range(len(rule.get("allow", [])))]
        slots += [(rule["deny"], i) for i in range(len(rule.get("deny", [])))]
    slots += [(cfg["global_deny"], i) for i in range(len(cfg.get("global_deny", [])))]
    if not slots:
        return False
    lst, i = rng.choice(slots)
    lst[i] = {"pattern": rng.choice(_BAD)} if isinstance(lst[i], dict) else rng.choice(_BAD)
    return True


def _m(p, path):
    import re as _re_
    return _re_.search(p, path, _re_.IGNORECASE) is not None


def _rule_reports(rule, path):
    denied = any(_m(d if isinstance(d, str) else d["pattern"], path) for d in rule.get("deny", []))
    return denied or ("allow" in rule and not any(_m(a, path) for a in rule["allow"]))


def _contains(d, path):
    return ("/" not in path) if d == "/" else (path == d or path.startswith(d.rstrip("/") + "/"))


def _oracle(cfg, path):
    covering = [d for d in cfg.get("directories", {}) if _contains(d, path)]
    reported = False
    if covering:
        best = max(covering, key=lambda d: 0 if d == "/" else len(d.split("/")))
        reported = _rule_reports(cfg["directories"][best], path)
    # known finding C18-global-on-covered: the global lists are applied to covered files as well
    glob = any(_m(d if isinstance(d, str) else d["pattern"], path) for d in cfg.get("global_deny", [])) \
        or ("global_patterns" in cfg and _rule_reports(cfg["global_patterns"], path))
    return reported or glob


# ---- the same rules, LOADED FROM A FILE (YAML / JSON, auto-discovered or named) through the library entry point ----------
# "Given file-placement rules": the rules a user writes are a file; directory names are dict KEYS of that file and may
# contain hyphens, underscores, dots, spaces, non-ASCII letters. Whatever the loading path does to section names, the
# rules that reach the linter must be the rules in the file: verdicts through src.api.Linter == verdicts of the in-memory
# FilePlacementLinter on the same rule set == the property oracle.
_FDIRS = ["my-app", "my_app", "my-app/sub-dir", "my-app/sub_dir", "pkg.v2", "with space", "donn\u00e9es", "src", "a-b_c/x-y"]
_FNAMES = ["a.py", "b.md", "test_c.py", "secret.txt", "d-e.yml"]


def _file_route(rng, n_cfg, FilePlacementLinter):
    import copy
    import json
    import tempfile
    from pathlib import Path
    import yaml
    from src.api import Linter
    cases = 0
    for i in range(n_cfg):
        ds = rng.sample(_FDIRS, rng.choice([2, 3, 4]))
        cfg = {"directories": {d: ({} if rng.random() < 0.15 else _gen_rule(rng)) for d in ds}}
        if rng.random() < 0.3:
            cfg["global_deny"] = [{"pattern": rng.choice(_PATS), "reason": "g"}]
        if rng.random() < 0.3:
            cfg["global_patterns"] = _gen_rule(rng)
        section = "file-placement" if i % 2 else "file_placement"
        doc = {section: copy.deepcopy(cfg)}
        with tempfile.TemporaryDirectory() as tmp:
            root = Path(tmp) / "proj"
            rels = []
            for d in _FDIRS:
                (root / d).mkdir(parents=True, exist_ok=True)
                for fn in rng.sample(_FNAMES, 2):
                    (root / d / fn).write_text("x = 1\n", encoding="utf-8")
                    rels.append(f"{d}/{fn}")
            (root / "top.py").write_text("x = 1\n", encoding="utf-8")
            rels.append("top.py")
            route = i % 3
            if route == 0:
                cfile = root / ".thailint.yaml"
                cfile.write_text(yaml.safe_dump(doc, allow_unicode=True), encoding="utf-8")
                linter = Linter(project_root=root)                       # auto-discovered YAML
            elif route == 1:
                cfile = root / ".thailint.json"
                cfile.write_text(json.dumps(doc, ensure_ascii=False), encoding="utf-8")
                linter = Linter(project_root=root)                       # auto-discovered JSON
            else:
                cfile = Path(tmp) / "rules-for-ci.yml"
                cfile.write_text(yaml.safe_dump(doc, allow_unicode=True), encoding="utf-8")
                linter = Linter(config_file=cfile, project_root=root)    # named file (--config)
            memory = FilePlacementLinter(config_obj=copy.deepcopy(cfg), project_root=root)
            for rel in rels:
                cases += 1
                want = _oracle(cfg, rel)
                try:
                    in_memory = len(memory.lint_path(root / rel)) > 0
                    vs = [v for v in linter.lint(root / rel, rules=["file-placement"]) if v.rule_id.startswith("file-placement")]
                    got = len(vs) > 0
                except Exception as e:  # noqa
                    return (cfg, rel, f"exception {e!r}"[:300], f"reported={want}", f"{root} [{cfile.name}]"), cases
                if not (got == in_memory == want):
                    return (cfg, rel, f"reported={got} through {cfile.name} (in-memory config object: reported={in_memory})",
                            f"reported={want}", f"{root} [{cfile.name}]"), cases
    return None, cases


@_custom("c18-placement-differential-bounded", props=["C18"])
def c18_placement_differential(ctx):
    import copy
    import random
    import time
    from pathlib import Path
    from pyvc.native import _ensure_repo_on_path
    name = "c18-placement-differential-bounded"
    t0 = time.time()
    try:
        _ensure_repo_on_path()
        from src.linters.file_placement.linter import FilePlacementLinter
    except Exception as e:  # noqa
        return [{"name": name, "kind": "bounded", "verdict": "unknown", "note": f"cannot import: {e!r}"[:300],
                 "tool": "cpython", "budget": "-", "cases": 0}]
    rng = random.Random(1800 + int(ctx.get("seed", 0)))
    n_cfg = 400 if ctx.get("tier") == "thorough" else 120
    roots = [Path("/work/proj"), Path("/srv/x/y/proj.d")]
    bad, cases = None, 0
    for i in range(n_cfg):
        cfg = _gen_config(rng)
        invalid = rng.random() < 0.2 and _plant_invalid(rng, cfg)
        wrapped = {"file-placement": copy.deepcopy(cfg)} if i % 3 == 0 else copy.deepcopy(cfg)
        root = roots[i % 2]
        cases += 1
        try:
            linter = FilePlacementLinter(config_obj=wrapped, project_root=root)
            built = True
        except ValueError:
            built = False
        except Exception as e:  # noqa
            bad = (cfg, "-", f"construction raised {e!r}", "ValueError or a linter")
            break
        if not cfg:
            continue  # an empty config object falls back to "no rules" by the constructor's own convention
        if built == invalid:
            bad = (cfg, "-", "linter constructed" if built else "ValueError", "ValueError (invalid pattern)" if invalid else "a linter")
            break
        if not built:
            continue
        for rel in _PATHS:
            want = _oracle(cfg, rel)
            for spelled in (root / rel, Path(rel), root / rel):      # absolute, relative, and once more (cache reuse)
                cases += 1
                try:
                    vs = linter.lint_path(spelled)
                    got = len(vs) > 0
                    ok = got == want and all(v.rule_id == "file-placement" and v.file_path == rel for v in vs)
                except Exception as e:  # noqa
                    got, ok = f"exception {e!r}"[:200], False
                if not ok:
                    bad = (cfg, str(spelled), f"reported={got}", f"reported={want}")
                    break
            if bad:
                break
        if bad:
            break
    if bad is None:
        fbad, fcases = _file_route(rng, 30 if ctx.get("tier") == "thorough" else 10, FilePlacementLinter)
        cases += fcases
        if fbad:
            bad, root = fbad[:4], fbad[4]
    note = "" if bad is None else (f"rules {bad[0]} (project root {root}), path {bad[1]}: got {bad[2]}, expected {bad[3]}")[:2000]
    return [{"name": name, "kind": "bounded", "verdict": "passed" if bad is None else "refuted", "note": note,
             "tool": "cpython (FilePlacementLinter(config_obj, project_root).lint_path on generated rule sets x paths; the same "
                     "rule sets loaded from .thailint.yaml / .thailint.json / --config-style files through src.api.Linter)",
             "budget": f"{n_cfg} generated rule sets x {len(_PATHS)} paths x 3 lookups + rule sets loaded from files", "cases": cases,
             "ms": round((time.time() - t0) * 1000, 1), "witness_confirmed": bad is not None,
             "model_inputs": {"rules": bad[0], "path": bad[1]} if bad else None}]


# ---- C18's dependency cone: the path from a rules FILE to the linter (owned by the configuration property's files) --------
# contracts/c05_config.py / c05_parse.py state for _normalize_config_keys / parse_config_file / load_config /
# LinterConfigLoader.load: "result == norm_fold(top-level items)": ONLY top-level keys are normalised, every value --
# in particular the `directories` mapping whose KEYS are directory names -- is returned unchanged. They carry "C18".
from pyvc import api as _api18  # noqa: E402

_C18_CONE = ("src/core/config_parser.py::_normalize_config_keys", "src/core/config_parser.py::parse_config_file",
             "src/core/config_parser.py::parse_yaml", "src/core/config_parser.py::parse_json",
             "src/linter_config/loader.py::load_config", "src/linter_config/loader.py::LinterConfigLoader.load")
_C18_CONE_ERRORS = {}
for _modname in ("contracts.c05_config", "contracts.c05_parse"):
    try:
        __import__(_modname)
    except BaseException as _e:  # noqa  (reported by the check below, never silently)
        _C18_CONE_ERRORS[_modname] = repr(_e)[:200]
for _t in _C18_CONE:
    if _t in _api18.REGISTRY and "C18" not in _api18.REGISTRY[_t].props:
        _api18.REGISTRY[_t].props.append("C18")


@_custom("c18-cone-rules-file-loading", props=["C18"])
def c18_cone(ctx):
    missing = [t for t in _C18_CONE if t not in _api18.REGISTRY or "C18" not in _api18.REGISTRY[t].props
               or _api18.REGISTRY[t].assumed]
    ok = not missing and not _C18_CONE_ERRORS
    return [{"name": "custom:c18-cone-rules-file-loading/registered", "kind": "frame", "carries": False,
             "verdict": "discharged" if ok else "unknown", "solver": "registry", "ms": 0.0,
             "note": f"config-file loading units in C18's cone: {len(_C18_CONE)}; missing or assumed: {missing}; "
                     f"import errors: {_C18_CONE_ERRORS}"}]
