"""C19 -- embedding independence of the pattern linters (DESIGN.md 3/C19, 4: level "other").

NOT decided: that the examples of docs/*-linter.md are reported / not reported (a finite conformance test, not a
contract), and the per-node decision predicates themselves.
Decided here -- the half of C19 that says "wherever the example is placed, any number of times":
  (i)  traversal completeness. Custom check `c19-visitor-completeness`, recomputed from the source on every run:
       * every `visit_X` method of every ast.NodeVisitor subclass under src/linters reaches `self.generic_visit(node)`
         on every normally terminating path (directly or through a `self.<helper>(node, ...)` that does), or visits
         every node-valued field of ast.X explicitly -- unless DELIBERATE_PRUNING below lists it with its reason;
       * every hand-written recursive tree walk under src/ (a function that loops over `ast.iter_child_nodes(p)` /
         `p.children` of a parameter and calls itself) reaches that loop on every normally terminating path.
       One obligation per method / walker. A traversal that skips children makes detection depend on where the
       construct is embedded.
  (ii) the tree-sitter collectors satisfy the `collect` contract: the accumulator grows by exactly
       (matches at this node) ++ concat(collect(child) for child in children): each matching node once, in document
       order. Contracts on 5 collectors not covered by the C17 / C02 / C01 files (print-statements console calls is in
       c12_sites.py; here: stringly-typed TypeScript call / comparison trackers, CQS TypeScript input / output
       detectors). What a single node contributes is a function OF THAT NODE (trusted per-node contracts: the
       scope-insensitivity half is assumed, not proved).
  (iii) multiplicity: `collect` appends once per matching node (ii); Python: `_collect_print_calls`,
       `_find_stateless_classes`, `_check_method` in c12_sites.py state "each match exactly once".

Repaired defect (fix: commit in /repo, see known_findings.json `fixed`): PythonMethodAnalyzer._visit_node used to stop at
every ClassDef, so a class defined inside a method or inside an `if` / `try` / `with` block of a class body was never
analysed; it now descends into the children of class definitions as well."""
import ast
import os

from pyvc.api import contract, lemma, custom, Int, Bool, Str, Opt, Rec, SeqOf, Opaque, implies, call, mk, uf
from contracts._nodes import TSNode

# methods whose pruning is deliberate: "relpath::Class.visit_X" -> reason (none at the pinned commit)
DELIBERATE_PRUNING: dict = {}

NON_NODE_ASDL_TYPES = ("identifier", "string", "int", "constant", "object", "bool")


# ================================================================== (i) the traversal scan
def _classes_under(root, sub):
    out = {}
    for dp, dns, fns in os.walk(os.path.join(root, *sub)):
        dns.sort()
        for fn in sorted(fns):
            if fn.endswith(".py"):
                path = os.path.join(dp, fn)
                rel = os.path.relpath(path, root)
                with open(path, encoding="utf-8") as fh:
                    tree = ast.parse(fh.read())
                for n in ast.walk(tree):
                    if isinstance(n, ast.ClassDef):
                        out[(rel, n.name)] = n
    return out


def _base_names(c):
    names = []
    for b in c.bases:
        if isinstance(b, ast.Subscript):
            b = b.value
        names.append(b.attr if isinstance(b, ast.Attribute) else b.id if isinstance(b, ast.Name) else "?")
    return names


def visitor_classes(root):
    """Classes under src/linters deriving (transitively, by base-class NAME within the scanned files) from NodeVisitor."""
    classes = _classes_under(root, ("src", "linters"))
    visitors = {k for k, c in classes.items() if "NodeVisitor" in _base_names(c)}
    changed = True
    while changed:
        changed = False
        names = {k[1] for k in visitors}
        for k, c in classes.items():
            if k not in visitors and any(b in names for b in _base_names(c)):
                visitors.add(k)
                changed = True
    return classes, sorted(visitors)


def _methods_of(classes, key):
    """name -> FunctionDef for the class and its (scanned) base classes, nearest first."""
    out, todo, seen = {}, [key], set()
    while todo:
        k = todo.pop(0)
        if k in seen or k not in classes:
            continue
        seen.add(k)
        for m in classes[k].body:
            if isinstance(m, (ast.FunctionDef, ast.AsyncFunctionDef)):
                out.setdefault(m.name, m)
        for b in _base_names(classes[k]):
            todo.extend(kk for kk in classes if kk[1] == b)
    return out


def _node_fields(kind):
    """Node-valued fields of ast.<kind>, read from CPython's own ASDL signature in the class docstring."""
    cls = getattr(ast, kind, None)
    doc = (cls.__doc__ or "") if cls is not None else ""
    if "(" not in doc:
        return None
    fields = []
    for part in doc[doc.index("(") + 1:doc.rindex(")")].split(","):
        bits = part.strip().split()
        if len(bits) == 2 and bits[0].rstrip("*?") not in NON_NODE_ASDL_TYPES:
            fields.append(bits[1])
    return fields


def _uncond_call(e, pred):
    """`pred` holds for a call that expression e evaluates unconditionally (not under and/or/if-expr/lambda/comprehension)."""
    if isinstance(e, ast.Call) and pred(e):
        return True
    if isinstance(e, ast.BoolOp):
        return _uncond_call(e.values[0], pred)
    if isinstance(e, ast.IfExp):
        return _uncond_call(e.test, pred)
    if isinstance(e, (ast.Lambda, ast.ListComp, ast.SetComp, ast.DictComp, ast.GeneratorExp)):
        return False
    return any(_uncond_call(c, pred) for c in ast.iter_child_nodes(e) if isinstance(c, ast.expr))


def _stmt_value(st):
    if isinstance(st, ast.Expr):
        return st.value
    if isinstance(st, (ast.Assign, ast.AnnAssign, ast.AugAssign, ast.Return)):
        return st.value
    return None


class _Flow:
    """Path-sensitive abstract execution of a method body. Abstract state of a path: frozenset of facts; the fact
    "ALL" = all children visited; a fact "f:<name>" = field <name> visited explicitly. `step(st, facts)` returns the
    facts a simple statement adds. Loops may run zero times; break/continue are treated as leaving the loop;
    `raise` ends a path abnormally (not a normal exit)."""

    def __init__(self, step, loop_step=None):
        self.step = step
        self.loop_step = loop_step

    def run(self, stmts, states):
        rets, cur = set(), set(states)
        for st in stmts:
            if not cur:
                break
            if isinstance(st, ast.Return):
                cur = {s | self.step(st, s) for s in cur}
                rets |= cur
                cur = set()
            elif isinstance(st, ast.Raise):
                cur = set()
            elif isinstance(st, ast.If):
                a, ra = self.run(st.body, cur)
                b, rb = self.run(st.orelse, cur)
                cur, rets = a | b, rets | ra | rb
            elif isinstance(st, (ast.For, ast.AsyncFor, ast.While)):
                whole = self.loop_step(st) if self.loop_step else None
                if whole is not None:
                    cur = {s | whole for s in cur}
                    continue
                b1, r1 = self.run(st.body, cur)
                b2, r2 = self.run(st.body, cur | b1)
                o, ro = self.run(st.orelse, cur | b1 | b2)
                cur, rets = cur | b1 | b2 | o, rets | r1 | r2 | ro
            elif isinstance(st, (ast.With, ast.AsyncWith)):
                cur, r = self.run(st.body, cur)
                rets |= r
            elif isinstance(st, ast.Try):
                b, rb = self.run(st.body, cur)
                entry, hs = cur | b, set()
                for h in st.handlers:
                    x, rx = self.run(h.body, entry)
                    hs |= x
                    rets |= rx
                o, ro = self.run(st.orelse, b)
                cur, rets = o | hs, rets | rb | ro
                if st.finalbody:
                    cur, rf = self.run(st.finalbody, cur)
                    rets |= rf
            elif isinstance(st, ast.Match):
                outs = set(cur)
                for c in st.cases:
                    x, rx = self.run(c.body, cur)
                    outs |= x
                    rets |= rx
                cur = outs
            elif isinstance(st, (ast.FunctionDef, ast.AsyncFunctionDef, ast.ClassDef, ast.Break, ast.Continue)):
                pass
            else:
                cur = {s | self.step(st, s) for s in cur}
        return cur, rets

    def exits(self, fn):
        fall, rets = self.run(fn.body, {frozenset()})
        return fall | rets


def visit_method_complete(methods, fn, param, depth=0, stack=()):
    """Every normal exit of `fn` has visited all children of its parameter `param` (generic_visit, a helper that does,
    or -- for visit_X -- an explicit visit of every node-valued field of ast.X)."""
    def is_generic(c):
        return isinstance(c.func, ast.Attribute) and c.func.attr == "generic_visit" and isinstance(c.func.value, ast.Name) \
            and c.func.value.id == "self" and c.args and isinstance(c.args[0], ast.Name) and c.args[0].id == param

    def is_complete_helper(c):
        if not (isinstance(c.func, ast.Attribute) and isinstance(c.func.value, ast.Name) and c.func.value.id == "self"):
            return False
        h = methods.get(c.func.attr)
        if h is None or c.func.attr in stack or depth > 4:
            return False
        for i, a in enumerate(c.args):
            if isinstance(a, ast.Name) and a.id == param and i + 1 < len(h.args.args):
                return visit_method_complete(methods, h, h.args.args[i + 1].arg, depth + 1, stack + (c.func.attr,))
        return False

    def field_of(e):
        return e.attr if isinstance(e, ast.Attribute) and isinstance(e.value, ast.Name) and e.value.id == param else None

    def is_visit_of_field(c):
        return isinstance(c.func, ast.Attribute) and c.func.attr == "visit" and isinstance(c.func.value, ast.Name) \
            and c.func.value.id == "self" and c.args and field_of(c.args[0]) is not None

    def step(st, facts):
        v = _stmt_value(st)
        if v is None:
            return frozenset()
        if _uncond_call(v, is_generic) or _uncond_call(v, is_complete_helper):
            return frozenset({"ALL"})
        out = set()
        for c in ast.walk(v):
            if isinstance(c, ast.Call) and _uncond_call(v, lambda x: x is c) and is_visit_of_field(c):
                out.add("f:" + field_of(c.args[0]))
        return frozenset(out)

    def loop_step(st):
        # `for x in <param>.<field>: self.visit(x)` visits that field completely
        if isinstance(st, ast.For) and field_of(st.iter) is not None and isinstance(st.target, ast.Name) and len(st.body) == 1:
            v = _stmt_value(st.body[0])
            if isinstance(v, ast.Call) and isinstance(v.func, ast.Attribute) and v.func.attr == "visit" and v.args \
                    and isinstance(v.args[0], ast.Name) and v.args[0].id == st.target.id:
                return frozenset({"f:" + field_of(st.iter)})
        return None

    needed = None
    if fn.name.startswith("visit_"):
        nf = _node_fields(fn.name[len("visit_"):])
        needed = None if nf is None else {"f:" + f for f in nf}
    for facts in _Flow(step, loop_step).exits(fn):
        if "ALL" in facts:
            continue
        if needed is not None and needed <= facts:
            continue
        return False
    return True


def _child_loop_param(st, params):
    if not isinstance(st, (ast.For, ast.AsyncFor)):
        return None
    it = st.iter
    if isinstance(it, ast.Call) and isinstance(it.func, ast.Attribute) and it.func.attr == "iter_child_nodes" and it.args \
            and isinstance(it.args[0], ast.Name) and it.args[0].id in params:
        return it.args[0].id
    if isinstance(it, ast.Attribute) and it.attr in ("children", "named_children") and isinstance(it.value, ast.Name) \
            and it.value.id in params:
        return it.value.id
    return None


def _calls_function(name, node):
    for n in ast.walk(node):
        if isinstance(n, ast.Call):
            f = n.func
            if (f.attr if isinstance(f, ast.Attribute) else f.id if isinstance(f, ast.Name) else None) == name:
                return True
    return False


def recursive_walkers(root):
    """(relpath::qualname, FunctionDef, parameter) of every function under src/ that loops over the children of one of
    its parameters and calls itself inside that loop."""
    out = []
    for dp, dns, fns in os.walk(os.path.join(root, "src")):
        dns.sort()
        for fn in sorted(fns):
            if not fn.endswith(".py"):
                continue
            path = os.path.join(dp, fn)
            rel = os.path.relpath(path, root)
            with open(path, encoding="utf-8") as fh:
                tree = ast.parse(fh.read())

            def rec(node, qual):
                for ch in ast.iter_child_nodes(node):
                    if isinstance(ch, ast.ClassDef):
                        rec(ch, qual + [ch.name])
                    elif isinstance(ch, (ast.FunctionDef, ast.AsyncFunctionDef)):
                        params = [a.arg for a in ch.args.args]
                        for st in ast.walk(ch):
                            p = _child_loop_param(st, params)
                            if p and _calls_function(ch.name, st):
                                out.append((f"{rel}::{'.'.join(qual + [ch.name])}", ch, p))
                                break
                        rec(ch, qual + [ch.name])
            rec(tree, [])
    return out


def _walker_paths(stmts, fname, param, facts=frozenset()):
    """Exits as frozensets of facts, with "G:<test>" for every enclosing true-branch guard (straightforward recursive
    enumeration; loops other than the child loop are stepped over as possibly-zero-iteration)."""
    exits = []

    def go(rest, facts):
        if not rest:
            exits.append(facts)
            return
        st, tail = rest[0], rest[1:]
        if isinstance(st, ast.Return):
            exits.append(facts)
        elif isinstance(st, ast.Raise):
            return
        elif isinstance(st, ast.If):
            go(list(st.body) + tail, facts | {"G:" + ast.unparse(st.test)})
            go(list(st.orelse) + tail, facts)
        elif _child_loop_param(st, [param]) == param and _calls_function(fname, st):
            go(tail, facts | {"ALL"})
        elif isinstance(st, (ast.With, ast.AsyncWith)):
            go(list(st.body) + tail, facts)
        elif isinstance(st, ast.Try):
            go(list(st.body) + list(st.orelse) + list(st.finalbody) + tail, facts)
            for h in st.handlers:
                go(list(h.body) + list(st.finalbody) + tail, facts)
        else:
            go(tail, facts)
    go(list(stmts), frozenset(facts))
    return exits


def _ob(name, ok, note, lineno=0):
    return {"name": name, "kind": "post", "verdict": "discharged" if ok else "refuted", "solver": "ast-path-scan", "ms": 0.0,
            "carries": True, "lineno": lineno, "note": note}


@custom("c19-visitor-completeness", props=["C19"])
def c19_visitor_completeness(ctx):
    root = ctx["repo"]
    obs = []
    classes, visitors = visitor_classes(root)
    for key in visitors:
        rel, cname = key
        methods = _methods_of(classes, key)
        for m in classes[key].body:
            if not (isinstance(m, ast.FunctionDef) and m.name.startswith("visit_")):
                continue
            target = f"{rel}::{cname}.{m.name}"
            name = f"c19-visitor-completeness/visits-all-children:{target}"
            if target in DELIBERATE_PRUNING:
                obs.append(_ob(name, True, "deliberate pruning (declared): " + DELIBERATE_PRUNING[target], m.lineno))
                continue
            if len(m.args.args) < 2:
                obs.append(_ob(name, False, "visit method without a node parameter", m.lineno))
                continue
            ok = visit_method_complete(methods, m, m.args.args[1].arg)
            obs.append(_ob(name, ok, "every normal path reaches generic_visit(node) or visits every child field" if ok else
                           "a normally terminating path neither calls generic_visit(node) nor visits every child field: "
                           "nodes below this one are not analysed (detection depends on the embedding)", m.lineno))
    for target, fn, p in recursive_walkers(root):
        exits = _walker_paths(fn.body, fn.name, p)
        bad = [e for e in exits if "ALL" not in e]
        name = f"c19-visitor-completeness/walker-recurses-into-all-children:{target}"
        obs.append(_ob(name, not bad, "every normal path reaches the loop over the children" if not bad else
                       "paths that return without recursing into the children, under guards: "
                       + "; ".join(sorted({" & ".join(sorted(g[2:] for g in e if g.startswith("G:"))) or "<none>" for e in bad})),
                       fn.lineno))
    if not obs:
        obs.append(_ob("c19-visitor-completeness/found-traversals", False, "no visitor class / recursive walker found"))
    return obs


# ================================================================== (ii) tree-sitter collectors: the `collect` contract
# Shape (same as TypeScriptBaseAnalyzer._walk_tree_recursive in c01_ts_base.py):
#   collect(n)      = here(n) ++ collect_seq(n.children)
#   collect_seq(s)  = [] if s is empty else collect(s[0]) ++ collect_seq(s[1:])
# `here(n)` -- what the node itself contributes -- is an uninterpreted function of the node (trusted per-node
# contracts below): the traversal neither drops nor duplicates a contribution, wherever the node sits in the tree.
PER_NODE = ("per-node step of the collector (the rule's decision on ONE node): trusted to append a list that is a function of "
            "that node only -- the scope-insensitivity half of C19 is assumed here, not proved")
ST = "src/linters/stringly_typed/typescript/"
CQT = "src/linters/cqs/"
TsCallPatT = Opaque("TsFunctionCallPattern")
TsCmpPatT = Opaque("TsComparisonPattern")
CqsInT = Opaque("CqsInputOperation")
CqsOutT = Opaque("CqsOutputOperation")
call_patterns_at = uf("ts_call_patterns_at", [TSNode], SeqOf(TsCallPatT))
cmp_patterns_at = uf("ts_comparison_patterns_at", [TSNode], SeqOf(TsCmpPatT))
lexical_inputs_at = uf("cqs_lexical_inputs_at", [TSNode], SeqOf(CqsInT))
assignment_inputs_at = uf("cqs_assignment_inputs_at", [TSNode], SeqOf(CqsInT))
outputs_at = uf("cqs_outputs_at", [TSNode], SeqOf(CqsOutT))

CallTrackerT = Rec("TypeScriptCallTracker", cls=ST + "call_tracker.py::TypeScriptCallTracker", patterns=SeqOf(TsCallPatT))
CmpTrackerT = Rec("TypeScriptComparisonTracker", cls=ST + "comparison_tracker.py::TypeScriptComparisonTracker",
                  patterns=SeqOf(TsCmpPatT))
InDetT = Rec("TypeScriptInputDetector", cls=CQT + "typescript_input_detector.py::TypeScriptInputDetector")
OutDetT = Rec("TypeScriptOutputDetector", cls=CQT + "typescript_output_detector.py::TypeScriptOutputDetector")


# ---- stringly-typed: TypeScript call tracker
@contract(ST + "call_tracker.py::TypeScriptCallTracker._process_call_expression", props=["C19"], assumed=PER_NODE,
          types=dict(self=CallTrackerT, node=TSNode), modifies=["self.patterns"])
class TsProcessCallExpression:
    def requires(self, node):
        return node is not None

    def ensures(self, node, old):
        return self.patterns == old.self.patterns + call_patterns_at(node)


def ts_calls(n: TSNode) -> SeqOf(TsCallPatT):
    return (call_patterns_at(n) if n.type == "call_expression" else []) + ts_calls_seq(n.children)


def ts_calls_seq(s: SeqOf(TSNode)) -> SeqOf(TsCallPatT):
    if len(s) == 0:
        return []
    return ts_calls(s[0]) + ts_calls_seq(s[1:])


@contract(ST + "call_tracker.py::TypeScriptCallTracker._traverse_tree", props=["C19"],
          types=dict(self=CallTrackerT, node=TSNode), modifies=["self.patterns"])
class TsCallTraverseTree:
    def requires(self, node):
        return node is not None

    def ensures_every_call_expression_once_in_document_order(self, node, old):
        return self.patterns == old.self.patterns + ts_calls(node)

    def inv0(self, node, old, rest):
        return old.self.patterns + ts_calls(node) == self.patterns + ts_calls_seq(rest)


# ---- stringly-typed: TypeScript comparison tracker
@contract(ST + "comparison_tracker.py::TypeScriptComparisonTracker._process_binary_expression", props=["C19"], assumed=PER_NODE,
          types=dict(self=CmpTrackerT, node=TSNode), modifies=["self.patterns"])
class TsProcessBinaryExpression:
    def requires(self, node):
        return node is not None

    def ensures(self, node, old):
        return self.patterns == old.self.patterns + cmp_patterns_at(node)


def ts_cmps(n: TSNode) -> SeqOf(TsCmpPatT):
    return (cmp_patterns_at(n) if n.type == "binary_expression" else []) + ts_cmps_seq(n.children)


def ts_cmps_seq(s: SeqOf(TSNode)) -> SeqOf(TsCmpPatT):
    if len(s) == 0:
        return []
    return ts_cmps(s[0]) + ts_cmps_seq(s[1:])


@contract(ST + "comparison_tracker.py::TypeScriptComparisonTracker._traverse_tree", props=["C19"],
          types=dict(self=CmpTrackerT, node=TSNode), modifies=["self.patterns"])
class TsCmpTraverseTree:
    def requires(self, node):
        return node is not None

    def ensures_every_binary_expression_once_in_document_order(self, node, old):
        return self.patterns == old.self.patterns + ts_cmps(node)

    def inv0(self, node, old, rest):
        return old.self.patterns + ts_cmps(node) == self.patterns + ts_cmps_seq(rest)


# ---- CQS: TypeScript output detector
@contract(CQT + "typescript_output_detector.py::TypeScriptOutputDetector._check_expression_statement", props=["C19"],
          assumed=PER_NODE, types=dict(self=OutDetT, node=TSNode, outputs=SeqOf(CqsOutT)), modifies=["outputs"])
class CqsCheckExpressionStatement:
    def requires(self, node, outputs):
        return node is not None

    def ensures(self, node, outputs, old):
        return outputs == old.outputs + outputs_at(node)


def cqs_outs(n: TSNode) -> SeqOf(CqsOutT):
    return (outputs_at(n) if n.type == "expression_statement" else []) + cqs_outs_seq(n.children)


def cqs_outs_seq(s: SeqOf(TSNode)) -> SeqOf(CqsOutT):
    if len(s) == 0:
        return []
    return cqs_outs(s[0]) + cqs_outs_seq(s[1:])


@contract(CQT + "typescript_output_detector.py::TypeScriptOutputDetector._find_outputs_recursive", props=["C19"],
          types=dict(self=OutDetT, node=TSNode, outputs=SeqOf(CqsOutT)), modifies=["outputs"])
class CqsFindOutputsRecursive:
    def requires(self, node, outputs):
        return node is not None

    def ensures_every_expression_statement_once_in_document_order(self, node, outputs, old):
        return outputs == old.outputs + cqs_outs(node)

    def inv0(self, node, outputs, old, rest):
        return old.outputs + cqs_outs(node) == outputs + cqs_outs_seq(rest)


# ---- CQS: TypeScript input detector
@contract(CQT + "typescript_input_detector.py::TypeScriptInputDetector._check_lexical_declaration", props=["C19"],
          assumed=PER_NODE, types=dict(self=InDetT, node=TSNode, inputs=SeqOf(CqsInT)), modifies=["inputs"])
class CqsCheckLexicalDeclaration:
    def requires(self, node, inputs):
        return node is not None

    def ensures(self, node, inputs, old):
        return inputs == old.inputs + lexical_inputs_at(node)


@contract(CQT + "typescript_input_detector.py::TypeScriptInputDetector._check_assignment_expression", props=["C19"],
          assumed=PER_NODE, types=dict(self=InDetT, node=TSNode, inputs=SeqOf(CqsInT)), modifies=["inputs"])
class CqsCheckAssignmentExpression:
    def requires(self, node, inputs):
        return node is not None

    def ensures(self, node, inputs, old):
        return inputs == old.inputs + assignment_inputs_at(node)


def cqs_ins_here(n):
    return lexical_inputs_at(n) if n.type == "lexical_declaration" else (
        assignment_inputs_at(n) if n.type == "assignment_expression" else [])


def cqs_ins(n: TSNode) -> SeqOf(CqsInT):
    return cqs_ins_here(n) + cqs_ins_seq(n.children)


def cqs_ins_seq(s: SeqOf(TSNode)) -> SeqOf(CqsInT):
    if len(s) == 0:
        return []
    return cqs_ins(s[0]) + cqs_ins_seq(s[1:])


@contract(CQT + "typescript_input_detector.py::TypeScriptInputDetector._find_inputs_recursive", props=["C19"],
          types=dict(self=InDetT, node=TSNode, inputs=SeqOf(CqsInT)), modifies=["inputs"])
class CqsFindInputsRecursive:
    def requires(self, node, inputs):
        return node is not None

    def ensures_every_declaration_and_assignment_once_in_document_order(self, node, inputs, old):
        return inputs == old.inputs + cqs_ins(node)

    def inv0(self, node, inputs, old, rest):
        return old.inputs + cqs_ins(node) == inputs + cqs_ins_seq(rest)


# ================================================================== (iii) embedding independence / multiplicity of `collect`
from pyvc.api import ih, use  # noqa: E402


@lemma(props=["C19"], types=dict(a=SeqOf(TSNode)), name="node-seq-head-tail-decomposition")
def nodes_decompose(a):
    if len(a) == 0:
        return True
    return a == [a[0]] + a[1:]


@lemma(props=["C19"], types=dict(x=TSNode, s=SeqOf(TSNode)), name="collect-seq-cons")
def collect_cons(x, s):
    return ts_calls_seq([x] + s) == ts_calls(x) + ts_calls_seq(s)


@lemma(props=["C19"], types=dict(a=SeqOf(TSNode), n=TSNode, b=SeqOf(TSNode)),
       name="collect-is-independent-of-the-siblings-and-counts-every-occurrence")
def collect_embedding(a, n, b):
    """Wherever a subtree n sits among its siblings (any number of subtrees before and after it, including further
    copies of the same pattern), the collector's output contains exactly collect(n), once, between the contributions of
    the siblings: what is found inside n does not depend on its surroundings, and k occurrences give k contributions.
    (Stated for the stringly-typed call tracker; the other collectors have the same recursion.)"""
    if len(a) == 0:
        use(collect_cons, n, b)
        return ts_calls_seq(a + [n] + b) == ts_calls_seq(a) + ts_calls(n) + ts_calls_seq(b)
    use(nodes_decompose, a)
    use(collect_cons, a[0], a[1:] + [n] + b)
    use(collect_cons, a[0], a[1:])
    ih(collect_embedding, a[1:], n, b)
    return ts_calls_seq(a + [n] + b) == ts_calls_seq(a) + ts_calls(n) + ts_calls_seq(b)


# ================================================================== (iv) BOUNDED native check: documented patterns x embeddings
# Labelled `bounded`: a finite differential test at the property's own observation point (violations of the real rules
# run by the real Orchestrator), NOT a proof. It instantiates C19's quantifier "wherever the example is placed: at module
# level or inside classes, functions and other blocks, ..., any number of times in one file" for one documented-style
# violating example per Python pattern linter and a fixed family of embeddings. Oracle = the property itself: the
# findings of the example's rule in the embedded file are exactly the module-level findings, shifted to each copy.
import json as _json  # noqa: E402
import subprocess as _subprocess  # noqa: E402
import sys as _sys  # noqa: E402
import tempfile as _tempfile  # noqa: E402

EMBED_EXAMPLES = {
    "method-property": "class User:\n    def __init__(self, name):\n        self._name = name\n\n    def get_name(self):\n"
                       "        return self._name\n",
    "print-statement": "def report(value):\n    print(value)\n",
    "stateless-class": "class TokenHasher:\n    def hash_token(self, token):\n        return hash(token)\n\n"
                       "    def hash_all(self, tokens):\n        return [hash(t) for t in tokens]\n",
    "string-concat-loop": "result = \"\"\nfor item in items:\n    result += str(item)\n",
    "regex-in-loop": "for line in lines:\n    if re.match(r\"\\d+\", line):\n        count = 1\n",
    "lbyl-dict-key": "if key in config:\n    value = config[key]\n",
    "collection-pipeline": "for item in items:\n    if not item.valid:\n        continue\n    handle(item)\n",
    "cqs": "def process(data):\n    result = fetch(data)\n    save(result)\n    return result\n",
    "conditional-verbose": "if verbose:\n    logger.debug(\"x\")\n",
}
PARAMS = "items, lines, config, key, verbose, logger"
EMBED_CONTEXTS = {   # name -> (header lines, indent of the embedded copy, footer lines)
    "function": ([f"def outer_fn({PARAMS}):"], 4, []),
    "method": (["class Host:", f"    def run(self, {PARAMS}):"], 8, []),
    "if-block": (["if FLAG:"], 4, []),
    "for-body": (["for _outer in range(3):"], 4, []),
    "while-body": (["while FLAG:"], 4, []),
    "try-body": (["try:"], 4, ["except Exception:", "    raise"]),
    "with-body": (["with open(PATH) as fh:"], 4, []),
    "function-for-if": ([f"def outer_fn({PARAMS}):", "    for _outer in range(3):", "        if FLAG:"], 12, []),
}
PREAMBLE = ["import re", "", "FLAG = True", "PATH = \"p\"", ""]

_EMBED_DRIVER = r"""
import json, sys
from pathlib import Path
sys.path.insert(0, sys.argv[1])
from src.orchestrator.core import Orchestrator
root = Path(sys.argv[2])
o = Orchestrator(project_root=root)
out = {}
for p in sorted(list(root.glob("*.py")) + list(root.glob("*.rs"))):
    out[p.name] = sorted({(v.rule_id, v.line) for v in o.lint_file(p)})
print("RESULT" + json.dumps(out))
"""


def _indent(text, n):
    return [(" " * n + ln) if ln else "" for ln in text.rstrip("\n").split("\n")]


def _embedding_files():
    """name -> (source lines, example key, start lines of the copies)."""
    files = {}
    for wk, (src, _rule, _shift) in WHOLE_FILE_EXAMPLES.items():
        body = src.rstrip("\n").split("\n")
        files[f"whole-{wk}__module.py"] = (body, "whole-" + wk, [1])
        for pk, pre in LEADING_COMMENT_PREFIXES.items():
            files[f"whole-{wk}__after-{pk}.py"] = (pre + body, "whole-" + wk, [len(pre) + 1])
    for ek, ex in RUST_EXAMPLES.items():
        files[f"{ek}__module.rs"] = (_indent(ex, 0), ek, [1])
        for ck, (head, ind, foot) in RUST_CONTEXTS.items():
            files[f"{ek}__{ck}.rs"] = (head + _indent(ex, ind) + foot, ek, [len(head) + 1])
    for ek, ex in EMBED_EXAMPLES.items():
        base = PREAMBLE + _indent(ex, 0)
        files[f"{ek}__module.py"] = (base, ek, [len(PREAMBLE) + 1])
        for ck, (head, ind, foot) in EMBED_CONTEXTS.items():
            lines = PREAMBLE + head
            start = len(lines) + 1
            lines = lines + _indent(ex, ind) + foot
            files[f"{ek}__{ck}.py"] = (lines, ek, [start])
        # multiplicity: the same example (same names, same indentation) twice in sibling functions, once at module
        # level and once in a class method -- four occurrences in one file
        lines, starts = list(PREAMBLE), []
        for head, ind in (([f"def first_fn({PARAMS}):"], 4), ([f"def second_fn({PARAMS}):"], 4), ([], 0),
                          (["class Host:", f"    def run(self, {PARAMS}):"], 8)):
            lines += head
            starts.append(len(lines) + 1)
            lines += _indent(ex, ind) + ["", ""]
        files[f"{ek}__four-occurrences.py"] = (lines, ek, starts)
        # ... and the same four occurrences "with its identifiers renamed" (a distinct suffix per copy)
        lines, starts = list(PREAMBLE), []
        for k, (head, ind) in enumerate((([f"def first_fn({PARAMS}):"], 4), ([f"def second_fn({PARAMS}):"], 4), ([], 0),
                                         (["class Host:", f"    def run(self, {PARAMS}):"], 8))):
            lines += head
            starts.append(len(lines) + 1)
            lines += _indent(_re_rename(ex, k), ind) + ["", ""]
        files[f"{ek}__four-occurrences-renamed.py"] = (lines, ek, starts)
    return files


# whole-file examples (the construct is the file's header) x "after arbitrary unrelated comments": leading comment lines
WHOLE_FILE_EXAMPLES = {   # name -> (source, rule id prefix, findings shift with the prefix?)
    "lazy-ignores": ('''"""
Purpose: demo module with one justified and one unjustified suppression

Suppressions:
    - F401: re-exported for the public API surface
    - W0611: listed here but never used in the code below
"""
import os  # noqa: F401
import sys  # noqa: E501
''', "lazy-ignores", True),
    "file-header": ('''"""
Purpose: demo module whose header lacks the other mandatory fields
"""
VALUE = 1
''', "file-header", False),   # a file-level rule: reports line 1 by convention, wherever the docstring starts
}
LEADING_COMMENT_PREFIXES = {
    "shebang": ["#!/usr/bin/env python3"],
    "coding-line": ["# -*- coding: utf-8 -*-"],
    "licence-block": ["# Copyright (c) 2024 Example Corp.", "# Licensed under the MIT License.", ""],
    "blank-lines": ["", ""],
    "shebang-and-licence": ["#!/usr/bin/env python3", "# Copyright (c) 2024 Example Corp.", "#", "# All rights reserved.", ""],
}


# Rust: documented violating examples x the module structures they can sit in (the test-context predicates of
# src/analyzers/rust_context.py must only look at the example's OWN enclosing items and their OWN attributes)
RUST_EXAMPLES = {
    "rust-unwrap": "fn process_request(input: &str) -> i32 {\n    let data = parse(input).unwrap();\n    data\n}\n",
    "rust-clone": "fn forward(data: Vec<u8>) {\n    let owned = data.clone();\n    send(owned);\n}\n",
    "rust-blocking": "async fn load_config(p: &str) -> String {\n    let text = std::fs::read_to_string(p);\n    text.unwrap_or_default()\n}\n",
}
_CFG_TEST_MODULE = ["#[cfg(test)]", "mod tests {", "    #[test]", "    fn checks() { assert!(true); }", "}", ""]
RUST_CONTEXTS = {
    "inline-module": (["mod handlers {"], 4, ["}"]),
    "after-a-cfg-test-module": (_CFG_TEST_MODULE + ["mod handlers {"], 4, ["}"]),
    "top-level-after-a-cfg-test-module": (_CFG_TEST_MODULE, 0, []),
    "after-a-test-function": (["#[test]", "fn earlier_test() { assert!(true); }", ""], 0, []),
    "nested-modules": (["mod outer {", "    mod inner {"], 8, ["    }", "}"]),
    "after-unrelated-items": (["use std::fmt;", "", "const LIMIT: u32 = 3;", "", "fn helper() -> u32 { LIMIT }", ""], 0, []),
}


RENAMABLE = ("result", "item", "line", "value", "count", "User", "TokenHasher", "process", "report", "token", "tokens", "data",
             "name", "_name", "get_name")


def _re_rename(text, k):
    """The example with its own identifiers consistently renamed (suffix per copy); parameters of the wrappers, builtins,
    attribute names of foreign objects (item.valid, logger.debug) and the get_ prefix are left alone."""
    import re as _r
    if k == 0:
        return text
    def sub(m):
        w = m.group(0)
        if w == "get_name":
            return f"get_name{k}"
        return f"{w}{k}" if w in RENAMABLE else w
    return _r.sub(r"(?<![\w.])[A-Za-z_][A-Za-z_0-9]*", sub, text)


@custom("c19-embedding-bounded", props=["C19"])
def c19_embedding_bounded(ctx):
    files = _embedding_files()
    tmp = _tempfile.mkdtemp(prefix="c19emb_")
    for name, (lines, _ek, _starts) in files.items():
        with open(os.path.join(tmp, name), "w", encoding="utf-8") as fh:
            fh.write("\n".join(lines) + "\n")
    p = _subprocess.run([_sys.executable, "-c", _EMBED_DRIVER, ctx["repo"], tmp], capture_output=True, text=True, timeout=600,
                        cwd=tmp)
    import shutil
    shutil.rmtree(tmp, ignore_errors=True)
    line = [ln for ln in p.stdout.splitlines() if ln.startswith("RESULT")]

    def ob(name, verdict, note):
        return {"name": f"c19-embedding-bounded/{name}", "kind": "bounded", "verdict": verdict, "solver": "native", "ms": 0.0,
                "carries": True, "lineno": 0, "note": note, "tool": "real Orchestrator on generated files",
                "witness_confirmed": verdict == "refuted",   # a refutation here IS a native observation
                "budget": f"{len(EMBED_EXAMPLES)} Python examples x {len(EMBED_CONTEXTS) + 3} embeddings, {len(RUST_EXAMPLES)} Rust "
                          f"examples x {len(RUST_CONTEXTS)} module structures, whole-file examples, reuse scenario", "cases": len(files)}
    if not line:
        return [ob("driver", "unknown", "driver failed: " + (p.stderr or p.stdout)[-400:])]
    res = {k: [tuple(x) for x in v] for k, v in _json.loads(line[0][len("RESULT"):]).items()}
    obs = []
    for wk, (_src, rule_prefix, shifts) in WHOLE_FILE_EXAMPLES.items():
        ek = "whole-" + wk
        base = sorted((r, ln) for r, ln in res.get(f"{ek}__module.py", []) if r.startswith(rule_prefix))
        if not base:
            obs.append(ob(f"{ek}/module", "refuted", "the example file yields no finding of its rule"))
            continue
        obs.append(ob(f"{ek}/module", "discharged", f"reported: {base}"))
        for name, (_lines, k2, starts) in sorted(files.items()):
            if k2 != ek or name.endswith("__module.py"):
                continue
            d = (starts[0] - 1) if shifts else 0
            # findings at line 1 are file-level by the tool's convention (C12: "file-level rules use line 1"; lazy-ignores
            # reports orphaned header entries there) and stay at line 1; every other finding moves with the text
            expected = sorted((r, ln + d if ln > 1 else 1) for r, ln in base)
            actual = sorted((r, ln) for r, ln in res.get(name, []) if r.startswith(rule_prefix))
            obs.append(ob(f"{ek}/{name[len(ek) + 2:-3]}", "discharged" if actual == expected else "refuted",
                          "same findings as without the leading comment lines (shifted with the text)" if actual == expected
                          else f"expected {expected}, the rule reports {actual}"))
    all_examples = dict(EMBED_EXAMPLES)
    all_examples.update(RUST_EXAMPLES)
    for ek in all_examples:
        ext = "rs" if ek in RUST_EXAMPLES else "py"
        base_name = f"{ek}__module.{ext}"
        base_start = files[base_name][2][0]
        base = res.get(base_name, [])
        # the example's own rule(s): what the module-level copy reports inside the example's lines (file-level rules,
        # which report at line 1, are not part of the example)
        nlines = len(all_examples[ek].rstrip("\n").split("\n"))
        offsets = sorted({(r, ln - base_start) for r, ln in base if base_start <= ln < base_start + nlines
                          and not r.startswith(("file-header", "file-placement"))})
        rules = {r for r, _ in offsets}
        if not offsets:
            obs.append(ob(f"{ek}/module", "refuted", "the documented-style violating example is not reported at module level"))
            continue
        obs.append(ob(f"{ek}/module", "discharged", f"reported at module level: {offsets}"))
        for name, (lines, k2, starts) in sorted(files.items()):
            if k2 != ek or name == base_name:
                continue
            expected = sorted({(r, s + off) for s in starts for r, off in offsets})
            actual = sorted((r, ln) for r, ln in res.get(name, []) if r in rules)
            emb = name[len(ek) + 2:-3]
            obs.append(ob(f"{ek}/{emb}", "discharged" if actual == expected else "refuted",
                          "findings of the example's rule = module-level findings shifted to each copy" if actual == expected
                          else f"expected {expected}, the rule reports {actual}"))
            # weaker half, stated separately: every occurrence IS reported at its own line (nothing is missed)
            missed = [e for e in expected if e not in actual]
            obs.append(ob(f"{ek}/{emb}:every-occurrence-is-reported", "discharged" if not missed else "refuted",
                          "each copy is reported at its line" if not missed else f"not reported: {missed}"))
    from contracts.c12_sites import reuse_scenario
    return obs + reuse_scenario(ctx, "c19-embedding-bounded")
