"""C20 -- `thailint config set` writes only validated values (src/config.py, src/cli/config.py).

Property text: "`thailint config set` writes only values that pass validation - a rejected value leaves the file
byte-for-byte unchanged".

File-system effects are a ledger (`effects`): externals that touch the file system append to it (fs_mkdir, fs_write);
contracts declare which effects a function may perform (`effects=[...]`) and clauses may inspect the effects performed
on the current path (parameter `effects`). Floats are outside the value model (Val has no float): `timeout: 2.5` and the
float branch of _convert_value_type are not covered (stated where it matters)."""
import z3

from pyvc.api import (contract, lemma, Any, Int, Bool, Str, Dict, SeqOf, Rec, Opt, TupleOf, implies, call, dict_put, uf)
from pyvc.ex_call import EXTERNALS, external
from pyvc.ops import concrete_of, NOCONST
from pyvc.run import RaiseSig
from pyvc.ty import VAny, VExc, VNone, VOpaque, VStr, ValSort, fresh_name, Unsupported
from contracts._common import PathT
from contracts import c05_parse  # noqa: F401  (Path.open / file handles / parse_config_file contract)
from contracts.c05_parse import FileT

CF = "src/config.py::"
CC = "src/cli/config.py::"

LOG_LEVELS = ["DEBUG", "INFO", "WARNING", "ERROR", "CRITICAL"]
FORMATS = ["text", "json", "yaml"]


# =================================================================== file-system externals with effects
def _fs_effect(ex, name, lineno):
    if ex.merge_depth == 0 and ex.spec_depth == 0:
        ex.run.effects.append((name, lineno))


_prev_open = EXTERNALS["Path.open"]


@external("Path.open")
def _x_path_open_rw(ex, args, kwargs, lineno):
    """path.open(mode): opening for writing truncates/creates the file -> effect fs_write (mode must be a constant)."""
    mode = args[1] if len(args) > 1 else kwargs.get("mode")
    if mode is not None:
        m = concrete_of(mode)
        if m is NOCONST:
            raise Unsupported("Path.open with a symbolic mode")
        if any(ch in m for ch in "wax+"):
            _fs_effect(ex, "fs_write", lineno)
    return _prev_open(ex, args[:1], {}, lineno)


@external("Path.mkdir")
def _x_path_mkdir(ex, args, kwargs, lineno):
    """path.mkdir(parents=True, exist_ok=True): creates directories (effect fs_mkdir); may raise OSError."""
    _fs_effect(ex, "fs_mkdir", lineno)
    b = z3.Const(fresh_name("ext.raises.OSError"), z3.BoolSort())
    if ex.merge_depth == 0 and ex.spec_depth == 0 and ex.decide(b):
        raise RaiseSig(VExc("OSError"))
    return VNone()


json_serialisable = uf("json_serialisable", [Dict], Bool)   # every value is a JSON value (dict/list/str/int/float/bool/None)
has_nonfinite = uf("has_nonfinite", [Dict], Bool)           # some float value is inf / -inf / nan
yaml_representable = uf("yaml_representable", [Dict], Bool)  # PyYAML's default Dumper has a representer for every value
fs_write_fails = uf("fs_write_fails", [FileT], Bool)        # the device rejects the write (disk full, ...)

JSON_DUMP_OPTIONS = {"indent", "sort_keys", "ensure_ascii", "allow_nan", "separators"}
YAML_DUMP_OPTIONS = {"default_flow_style", "sort_keys", "allow_unicode", "indent", "width"}


def _dump_handler(kind):
    def h(ex, args, kwargs, lineno):
        """<json|yaml>.dump(doc, file, **options): streams the document to the open file (effect fs_write, possibly
        partial). Fails with the serialiser's own error exactly when the document is outside what the serialiser accepts
        UNDER THE GIVEN OPTIONS (json: TypeError iff not json_serialisable(doc); with allow_nan=False additionally
        ValueError iff has_nonfinite(doc); yaml: YAMLError iff not yaml_representable(doc)), with OSError iff
        fs_write_fails(file). Options outside the modelled set are Unsupported (never silently ignored)."""
        allowed = JSON_DUMP_OPTIONS if kind == "json" else YAML_DUMP_OPTIONS
        unknown = sorted(set(kwargs) - allowed)
        if unknown or len(args) != 2:
            raise Unsupported(f"{kind}.dump with options {unknown} / {len(args)} positional arguments")
        if ex.merge_depth > 0 or ex.spec_depth > 0:
            return VNone()
        _fs_effect(ex, "fs_write", lineno)
        doc = Dict.pack(args[0])
        B = z3.BoolSort()
        if kind == "json":
            if not ex.decide(z3.Function("uf.json_serialisable", Dict.sort(), B)(doc)):
                raise RaiseSig(VExc("TypeError"))
            an = kwargs.get("allow_nan")
            if an is not None:
                c = concrete_of(an)
                if c is NOCONST:
                    raise Unsupported("json.dump with a symbolic allow_nan")
                if not c and ex.decide(z3.Function("uf.has_nonfinite", Dict.sort(), B)(doc)):
                    raise RaiseSig(VExc("ValueError"))
        else:
            if not ex.decide(z3.Function("uf.yaml_representable", Dict.sort(), B)(doc)):
                raise RaiseSig(VExc("YAMLError"))
        if ex.decide(z3.Function("uf.fs_write_fails", FileT.sort(), B)(args[1].t)):
            raise RaiseSig(VExc("OSError"))
        ex.ufs_used.add(f"{kind}.dump: fails iff the document is outside the serialiser's domain under the given options, or the device fails")
        return VNone()
    return h


external("yaml.dump")(_dump_handler("yaml"))
external("json.dump")(_dump_handler("json"))

cwd = uf("cwd", [], PathT, concrete=lambda: __import__("pathlib").Path.cwd())
home = uf("home", [], PathT, concrete=lambda: __import__("pathlib").Path.home())


@external("pathlib.Path.cwd")
def _x_cwd(ex, args, kwargs, lineno):
    return VOpaque(z3.Const("uf.cwd", PathT.sort()), PathT)


@external("pathlib.Path.home")
def _x_home(ex, args, kwargs, lineno):
    return VOpaque(z3.Const("uf.home", PathT.sort()), PathT)


# =================================================================== validation: exact error conditions (docs: config keys)
def bad_log_level(config):
    return "log_level" in config and config["log_level"] not in LOG_LEVELS


def bad_output_format(config):
    return "output_format" in config and config["output_format"] not in FORMATS


def bad_max_retries(config):
    return "max_retries" in config and (not isinstance(config["max_retries"], int) or config["max_retries"] < 0)


def bad_timeout(config):
    # (floats are outside the value model: only the int case of `positive number` is covered)
    return "timeout" in config and (not isinstance(config["timeout"], int) or config["timeout"] <= 0)


def bad_app_name(config):
    return "app_name" in config and (not isinstance(config["app_name"], str) or not config["app_name"].strip())


def config_valid(config):
    """A configuration is valid iff the required keys are present and every present known key has an allowed value."""
    return ("app_name" in config and "log_level" in config and not bad_log_level(config) and not bad_output_format(config)
            and not bad_max_retries(config) and not bad_timeout(config) and not bad_app_name(config))


def no_floats(config):
    """Domain restriction of the value model (see module docstring)."""
    return True


@contract(CF + "_validate_required_keys", props=["C20"], types=dict(config=Dict, errors=SeqOf(Str)), modifies=["errors"], effects=[])
class ValidateRequiredKeys:
    def ensures_exact(config, errors, old):
        return errors == old.errors + (["Missing required key: app_name"] if "app_name" not in config else []) \
            + (["Missing required key: log_level"] if "log_level" not in config else [])


@contract(CF + "_validate_log_level", props=["C20"], types=dict(config=Dict, errors=SeqOf(Str), log_level=Any), modifies=["errors"],
          effects=[])
class ValidateLogLevel:
    def ensures_error_iff_invalid(config, errors, old):
        return len(errors) == len(old.errors) + (1 if bad_log_level(config) else 0) and errors[:len(old.errors)] == old.errors


@contract(CF + "_validate_output_format", props=["C20"], types=dict(config=Dict, errors=SeqOf(Str), output_format=Any),
          modifies=["errors"], effects=[])
class ValidateOutputFormat:
    def ensures_error_iff_invalid(config, errors, old):
        return len(errors) == len(old.errors) + (1 if bad_output_format(config) else 0) and errors[:len(old.errors)] == old.errors


@contract(CF + "_validate_max_retries", props=["C20"], types=dict(config=Dict, errors=SeqOf(Str), max_retries=Any),
          modifies=["errors"], effects=[])
class ValidateMaxRetries:
    def ensures_error_iff_invalid(config, errors, old):
        return errors == old.errors + (["max_retries must be a non-negative integer"] if bad_max_retries(config) else [])


@contract(CF + "_validate_timeout", props=["C20"], types=dict(config=Dict, errors=SeqOf(Str), timeout=Any), modifies=["errors"],
          effects=[])
class ValidateTimeout:
    def ensures_error_iff_invalid(config, errors, old):
        return errors == old.errors + (["timeout must be a positive number"] if bad_timeout(config) else [])


@contract(CF + "_validate_numeric_values", props=["C20"], types=dict(config=Dict, errors=SeqOf(Str)), modifies=["errors"], effects=[])
class ValidateNumericValues:
    def ensures_exact(config, errors, old):
        return errors == old.errors + (["max_retries must be a non-negative integer"] if bad_max_retries(config) else []) \
            + (["timeout must be a positive number"] if bad_timeout(config) else [])


@contract(CF + "_validate_string_values", props=["C20"], types=dict(config=Dict, errors=SeqOf(Str), app_name=Any),
          modifies=["errors"], effects=[])
class ValidateStringValues:
    def ensures_error_iff_invalid(config, errors, old):
        return errors == old.errors + (["app_name must be a non-empty string"] if bad_app_name(config) else [])


@contract(CF + "validate_config", props=["C20"], types=dict(config=Dict, errors=SeqOf(Str)), returns=TupleOf(Bool, SeqOf(Str)),
          effects=[])
class ValidateConfig:
    def ensures_valid_iff(config, result):
        return result[0] == config_valid(config)

    def ensures_errors_iff_invalid(config, result):
        return result[0] == (len(result[1]) == 0)


# =================================================================== saving: validation strictly before any write
@contract(CF + "_validate_before_save", props=["C20"], types=dict(config=Dict, is_valid=Bool, errors=SeqOf(Str)),
          raises=["ConfigError"], effects=[])
class ValidateBeforeSave:
    def raises_when(config):
        return not config_valid(config)


@contract(CF + "_write_yaml_config", no_selftest=True, props=["C20"], types=dict(config=Dict, path=PathT, f=FileT),
          raises=["OSError", "YAMLError"], effects=["fs_write"])
class WriteYamlConfig:
    """Effect ordering of the write path (property text: "a rejected value leaves the file byte-for-byte unchanged"):
    once the file has been opened for writing (truncated) only an I/O failure may interrupt the write -- for every
    document the serialiser accepts, i.e. every configuration that can be loaded or set, no serialiser option may turn
    an accepted value into an error raised AFTER the truncation."""

    def on_raise_only_io_errors_interrupt_a_started_write(config, path, exc_class, effects):
        return implies("fs_write" in effects and yaml_representable(config), exc_class == "OSError")


@contract(CF + "_write_json_config", no_selftest=True, props=["C20"], types=dict(config=Dict, path=PathT, f=FileT),
          raises=["OSError", "TypeError"], effects=["fs_write"])
class WriteJsonConfig:
    """Same effect-ordering clause for JSON: every JSON-serialisable configuration (floats included, finite or not: they
    are what json.load / _convert_value_type produce) is written completely or fails with an I/O error only."""

    def on_raise_only_io_errors_interrupt_a_started_write(config, path, exc_class, effects):
        return implies("fs_write" in effects and json_serialisable(config), exc_class == "OSError")


@contract(CF + "_write_config_file", no_selftest=True, props=["C20"], types=dict(config=Dict, path=PathT),
          raises=["ConfigError", "OSError", "YAMLError", "TypeError"], effects=["fs_write"])
class WriteConfigFile:
    def on_raise_unsupported_suffix_writes_nothing(path, exc_class, effects):
        return implies(path.suffix not in (".yaml", ".yml", ".json"), exc_class == "ConfigError" and "fs_write" not in effects)


@contract(CF + "_write_and_log_config", no_selftest=True, props=["C20"], types=dict(config=Dict, path=PathT), raises=["ConfigError"],
          effects=["fs_write"])
class WriteAndLogConfig:
    """Every failure of the write is reported as ConfigError."""

    def ensures(config, path):
        return True


@contract(CF + "save_config", no_selftest=True, props=["C20"], types=dict(config=Dict, config_path=Opt(PathT), path=PathT),
          raises=["ConfigError", "OSError"], effects=["fs_mkdir", "fs_write"])
class SaveConfig:
    def requires(config, config_path):
        return config_path is not None  # (the default location CONFIG_LOCATIONS[0] is module state: not modelled)

    def ensures_only_valid_configs_are_written(config, config_path):
        return config_valid(config)

    def on_raise_invalid_config_is_never_written(config, config_path, exc_class, effects):
        # property text: a rejected value leaves the file unchanged (no write effect on the path that rejects)
        return implies(not config_valid(config), "fs_write" not in effects)


# =================================================================== config set
@contract(CC + "_convert_value_type", props=["C20"], types=dict(value=Str), returns=Any, effects=[],
          assumed="bool/int/float/str precedence with int()/float() of arbitrary text and a loop over converter functions "
                  "under suppress(): float results are outside the value model; covered by the bounded check "
                  "c20-convert-value-type instead")
class ConvertValueType:
    def ensures_bool_words(value, result):
        return implies(value.lower() in ("true", "false"), result == (value.lower() == "true"))


CtxObjT = Rec("click_obj", as_dict=True, config=Dict, config_path=Opt(PathT), verbose=Bool)
ClickCtxT = Rec("click.Context", obj=CtxObjT)


@contract(CC + "_validate_and_report_errors", props=["C20"], types=dict(cfg=Dict, is_valid=Bool, errors=SeqOf(Str), error=Str),
          raises=["SystemExit"], modifies=["stderr"], effects=[], exc=Int)
class ValidateAndReportErrors:
    def raises_when(cfg):
        return not config_valid(cfg)

    def on_raise_exit_code_1(cfg, exc_class, exc):
        return exc_class == "SystemExit" and exc == 1

    def inv0(cfg):
        return True


@contract(CC + "_save_and_report_success", no_selftest=True, props=["C20"],
          types=dict(cfg=Dict, key=Str, value=Any, config_path=Opt(PathT), verbose=Bool), raises=["ConfigError", "OSError"],
          modifies=["stdout"], effects=["fs_mkdir", "fs_write"])
class SaveAndReportSuccess:
    def requires(cfg, key, value, config_path, verbose):
        return config_path is not None

    def ensures_only_valid_configs_are_written(cfg):
        return config_valid(cfg)


@contract(CC + "config_set", no_selftest=True, props=["C20"],
          types=dict(ctx=ClickCtxT, key=Str, value=Str, cfg=Dict, converted_value=Any, config_path=Opt(PathT), verbose=Bool),
          raises=["SystemExit", "OSError"], modifies=["ctx.obj.config", "stdout", "stderr"], effects=["fs_mkdir", "fs_write"],
          exc=Int)
class ConfigSet:
    """`thailint config set KEY VALUE`: the in-memory config gets the converted value; if the result is not a valid
    configuration the command exits 1 BEFORE save_config is reached (no file-system write on that path)."""

    def requires(ctx, key, value):
        return ctx.obj["config_path"] is not None

    def ensures_saved_config_is_valid(ctx, key, value):
        return config_valid(ctx.obj["config"])

    def on_raise_rejected_value_is_never_written(ctx, key, value, exc_class, exc, effects):
        # property text: "a rejected value leaves the file byte-for-byte unchanged"
        return implies(not config_valid(ctx.obj["config"]),
                       exc_class == "SystemExit" and exc == 1 and "fs_write" not in effects and "fs_mkdir" not in effects)

    def on_raise_exit_code_1(ctx, key, value, exc_class, exc):
        # (an OSError from creating the parent directory is not wrapped by save_config and escapes as a traceback)
        return implies(exc_class == "SystemExit", exc == 1)


@contract(CC + "config_get", no_selftest=True, props=["C20"], types=dict(ctx=ClickCtxT, key=Str, cfg=Dict), raises=["SystemExit"],
          modifies=["stdout", "stderr"], effects=[], exc=Int)
class ConfigGet:
    """`thailint config get KEY` prints cfg[KEY] unchanged (one line on stdout), exits 1 for an unknown key."""

    def raises_when(ctx, key):
        return key not in ctx.obj["config"]

    def ensures_prints_the_value_unchanged(ctx, key, stdout, old):
        return stdout == old.stdout + [str(ctx.obj["config"][key])]


# =================================================================== init-config: generating the file content
@contract(CC + "_generate_config_content", props=["C20"], types=dict(preset=Str), returns=Str,
          raises=["OSError", "UnicodeDecodeError", "KeyError"], effects=[],
          assumed="reads the packaged template (Path(__file__)-relative) and substitutes three placeholders: a statement about "
                  "ONE concrete text; checked exhaustively on that text for the three presets by the custom unit "
                  "c20-template-domain (no placeholder left, valid YAML, every linter section present)")
class GenerateConfigContent:
    def ensures(preset, result):
        return True


# =================================================================== loading: the user's file merged over the defaults
# Property text: "every accepted value is returned unchanged by `config get` and survives a YAML or JSON save/load round
# trip": what `config get` prints is the LOADED configuration, i.e. the user's file merged over DEFAULT_CONFIG. Hence: for
# every key present in the user's file the user's value wins, whatever its truthiness (0, false, "" are values); two
# dicts under the same key are merged recursively by the same rule; keys the user does not mention keep the default.
from pyvc.api import Assoc, lemma as _lemma, ih, as_items  # noqa: E402
from contracts.c05_parse import dict_items, yaml_doc, json_doc, file_of, suffix_lower  # noqa: E402
from contracts.c05_config import norm_fold  # noqa: E402
from contracts.c09_paths import fs_exists  # noqa: E402


def merge_fold(items: Assoc(Any), acc: Dict) -> Dict:
    """override's items applied left to right to a copy of base: a dict over a dict is merged recursively, any other
    value of the override replaces the base value."""
    if len(items) == 0:
        return acc
    return merge_fold(items[1:], dict_put(acc, items[0][0],
                                          merge_fold(dict_items(items[0][1]), acc[items[0][0]])
                                          if items[0][0] in acc and isinstance(acc[items[0][0]], dict) and isinstance(items[0][1], dict)
                                          else items[0][1]))


@contract(CF + "merge_configs", props=["C20"], types=dict(base=Dict, override=Assoc(Any), result=Dict, key=Str, value=Any),
          returns=Dict, effects=[])
class MergeConfigs:
    def ensures_override_wins_key_by_key(base, override, result):
        return result == merge_fold(as_items(override), base)

    def inv0(base, override, result, rest):
        return merge_fold(override, base) == merge_fold(rest, result)

    # inputs from the property's own quantifier ("every accepted value ... whatever its truthiness", nested sections):
    # run natively on the real function whenever the solver cannot decide / refutes a proof obligation of this unit
    def witness_falsy_user_values_over_defaults():
        return {"base": {"max_retries": 3, "greeting": "Hello", "verbose": True, "timeout": 30},
                "override": [("max_retries", 0), ("greeting", ""), ("verbose", False)]}  # (Assoc: list of items)

    def witness_nested_sections_are_merged():
        return {"base": {"a": 1, "b": {"c": 2, "d": 3}}, "override": [("b", {"d": 0, "e": None}), ("f", [])]}


def has_key(items: Assoc(Any), k: Str) -> Bool:
    return len(items) > 0 and (items[0][0] == k or has_key(items[1:], k))


def merged_value(cur, v):
    """What one entry `k: v` of the user's file makes of the current value under k: v itself -- whatever its
    truthiness -- unless both are dicts, which are merged by the same rule."""
    return merge_fold(dict_items(v), cur) if isinstance(cur, dict) and isinstance(v, dict) else v


def final_value(items: Assoc(Any), k: Str, cur: Any) -> Any:
    """The value under k after all entries of the user's file have been applied (cur: the value so far, None if absent)."""
    if len(items) == 0:
        return cur
    return final_value(items[1:], k, merged_value(cur, items[0][1]) if items[0][0] == k else cur)


def real_values(items: Assoc(Any)) -> Bool:
    """Every value of the user's document is a real value (not the 'key absent' marker of the dict model)."""
    return len(items) == 0 or ("k" in dict_put({}, "k", items[0][1]) and real_values(items[1:]))


@_lemma(props=["C20"], types=dict(items=Assoc(Any), acc=Dict, k=Str), name="merge-user-value-wins")
def merge_user_value_wins(items, acc, k):
    """Per key k: the merged config has k iff the user's file or the base has it; its value is what the user's entries
    for k make of the base value (final_value: each user entry replaces the value, falsy or not; dict over dict merges);
    a key the user does not mention keeps the base value."""
    if not real_values(items):
        return True
    r = merge_fold(items, acc)
    if len(items) == 0:
        return r == acc
    ih(merge_user_value_wins, items[1:],
       dict_put(acc, items[0][0], merged_value(acc[items[0][0]] if items[0][0] in acc else None, items[0][1])), k)
    return (k in r) == (has_key(items, k) or k in acc) \
        and implies(k in r, r[k] == final_value(items, k, acc[k] if k in acc else None))


@contract(CF + "_load_config_file", props=["C20"], types=dict(path=PathT), returns=Dict, raises=["ConfigError"], no_selftest=True)
class LoadConfigFile:
    """Any failure to read or parse the file is reported as ConfigError."""

    def requires(path):
        return isinstance(yaml_doc(file_of(path)), dict) or yaml_doc(file_of(path)) is None

    def ensures(path, result):
        return True


DEFAULTS = {"app_name": "{{PROJECT_NAME}}", "version": "0.1.0", "log_level": "INFO", "output_format": "text",
            "greeting": "Hello", "max_retries": 3, "timeout": 30}


@contract(CF + "_load_and_merge_config", props=["C20"], types=dict(config_path=PathT, config=Dict, user_config=Dict), returns=Dict,
          raises=["ConfigError"], no_selftest=True, inline=["_load_config_file"])
class LoadAndMergeConfig:
    """The loaded configuration is the user's file (parsed, top-level keys normalised) merged over DEFAULT_CONFIG."""

    def requires(config_path):
        return isinstance(yaml_doc(file_of(config_path)), dict) or yaml_doc(file_of(config_path)) is None

    def ensures_yaml_file_merged_over_the_defaults(config_path, result):
        return implies(suffix_lower(config_path) in (".yaml", ".yml"),
                       result == merge_fold(dict_items(norm_fold(dict_items(
                           yaml_doc(file_of(config_path)) if yaml_doc(file_of(config_path)) is not None else {}), {})), DEFAULTS))

    def ensures_json_file_merged_over_the_defaults(config_path, result):
        return implies(suffix_lower(config_path) == ".json",
                       result == merge_fold(dict_items(norm_fold(dict_items(json_doc(file_of(config_path))), {})), DEFAULTS))


# =================================================================== src/config.py: the explicit-path load (what --config FILE does)
@contract(CF + "_validate_and_return_config", props=["C20"], types=dict(config=Dict, config_path=PathT, is_valid=Bool, errors=SeqOf(Str)),
          returns=Dict, raises=["ConfigError"], no_selftest=True)
class ValidateAndReturnConfig:
    """A loaded configuration is handed on unchanged, or rejected as a whole when it is not valid."""

    def raises_when(config, config_path):
        return not config_valid(config)

    def value(config, config_path):
        return config


def loaded_from(config_path):
    """The user's file (YAML or JSON by extension, top-level keys normalised) merged over DEFAULT_CONFIG."""
    return merge_fold(dict_items(norm_fold(dict_items(
        (yaml_doc(file_of(config_path)) if yaml_doc(file_of(config_path)) is not None else {})
        if suffix_lower(config_path) in (".yaml", ".yml") else json_doc(file_of(config_path))), {})), DEFAULTS)


@contract(CF + "_load_from_explicit_path", props=["C20"], types=dict(config_path=PathT, merged_config=Dict), returns=Dict,
          raises=["ConfigError"], no_selftest=True, fresh_result=True)
class LoadFromExplicitPath:
    def requires(config_path):
        return isinstance(yaml_doc(file_of(config_path)), dict) or yaml_doc(file_of(config_path)) is None

    def ensures_missing_file_gives_the_defaults(config_path, result):
        return implies(not fs_exists(config_path), result == DEFAULTS)

    def ensures_existing_file_is_merged_over_the_defaults_and_valid(config_path, result):
        return implies(fs_exists(config_path) and suffix_lower(config_path) in (".yaml", ".yml", ".json"),
                       result == loaded_from(config_path) and config_valid(result))


@contract(CF + "_try_load_from_location~mapping-docs", props=["C20"],
          types=dict(location=PathT, config=Dict, is_valid=Bool, errors=SeqOf(Str)), returns=Opt(Dict), no_selftest=True,
          fresh_result=True)
class TryLoadFromLocationVerified:
    """Verified view, under the domain assumption of the parser chain (the file holds a YAML/JSON mapping): a default
    location that cannot be read / parsed / validated is skipped (None); a loaded one is valid and a fresh dict."""

    def requires(location):
        return isinstance(yaml_doc(file_of(location)), dict) or yaml_doc(file_of(location)) is None

    def ensures_loaded_config_is_valid(location, result):
        return True if result is None else config_valid(result)


@contract(CF + "_try_load_from_location", props=["C20"], types=dict(location=PathT), returns=Opt(Dict), no_selftest=True,
          assumed="interface used at call sites: the same clause as the verified view ~mapping-docs, without its precondition "
                  "(that a default-location file holds a mapping cannot be established for an arbitrary element of the "
                  "module-level CONFIG_LOCATIONS list; a non-mapping document fails inside the parser chain and is skipped "
                  "by the `except ConfigError` of this function)")
class TryLoadFromLocation:
    def ensures_loaded_config_is_valid(location, result):
        return True if result is None else config_valid(result)


@contract(CF + "_load_from_default_locations", props=["C20"],
          types=dict(existing_locations=SeqOf(PathT), location=PathT, loaded_config=Opt(Dict), loc=PathT), returns=Dict,
          no_selftest=True, fresh_result=True)
class LoadFromDefaultLocations:
    """Without --config: the first default location that loads, else the built-in defaults -- always a FRESH dict: the
    commands store into the loaded dict (config set does so before validating), so the module-level DEFAULT_CONFIG object
    itself must never be handed out (property text: a rejected value changes nothing; reset restores the defaults)."""

    def ensures_result_is_valid_or_the_defaults(result):
        return config_valid(result) or result == DEFAULTS

    def inv0():
        return True


@contract(CF + "load_config", props=["C20"], types=dict(config_path=Opt(PathT)), returns=Dict, raises=["ConfigError"],
          no_selftest=True, fresh_result=True)
class LoadCliConfig:
    """`thailint [--config FILE] config get KEY` prints a value of THIS dict; it is always a fresh object (never the
    module-level DEFAULT_CONFIG itself)."""

    def requires(config_path):
        return implies(config_path is not None,
                       isinstance(yaml_doc(file_of(config_path)), dict) or yaml_doc(file_of(config_path)) is None)

    def ensures_existing_file_is_merged_over_the_defaults_and_valid(config_path, result):
        return implies(config_path is not None and fs_exists(config_path) and suffix_lower(config_path) in (".yaml", ".yml", ".json"),
                       result == loaded_from(config_path) and config_valid(result))
