"""C20 -- checks on the PRODUCTION DOMAIN of the init-config text machinery (exhaustive over the real inputs).

`extract_linter_sections` and `_generate_config_content` have exactly one production input: the packaged template
src/templates/thailint_config_template.yaml under the three presets. Besides the general contracts
(contracts/c20_merge.py: the extraction automaton as a fold, text preservation of the splice), the property's claims
that depend on the CONTENT of that template and on the YAML parser are decided here by running the real functions of
${VERIF_REPO:-/repo} on that domain -- labelled as such (kind custom, solver "native-exhaustive"):

  per preset p in {strict, standard, lenient}
    placeholders   no `{{` / `}}` is left in _generate_config_content(p)
    valid-yaml     the generated text parses to a mapping
    sections       extract_linter_sections finds exactly the LINTER_SECTIONS names that occur as `name:` lines, and each
                   extracted block parses as YAML to a mapping with that single key and the value the full file gives it
    accepted       every rule accepts the generated configuration (no ValueError / ConfigParseError when the orchestrator
                   lints a Python, a TypeScript and a Rust file under it)
    merge/<case>   for a family of existing files (subset of sections, comments, flow style, with / without the GLOBAL
                   SETTINGS banner, nothing missing): the merged text is valid YAML, every pre-existing top-level key
                   keeps its value, exactly the missing sections are added, and a second run changes nothing
The bounded unit c20-convert-value-type cross-checks `_convert_value_type` (assumed contract) against its documented
bool / int / float / str precedence and the YAML / JSON round trip of every accepted value on a word list."""
import importlib
import json
import math
import os
import re
import sys
import tempfile
import time

from pyvc.api import custom

PRESETS = ("strict", "standard", "lenient")

EXISTING = {
    "one-section": "nesting:\n  enabled: true\n  max_nesting_depth: 3\n",
    "comments-and-extra-keys": "# my settings\nsrp:\n  enabled: true   # keep\n  max_methods: 9\n\nmy_own_key: 5\nexclude:\n  - build/\n",
    "flow-style": "dry: {enabled: true, min_duplicate_lines: 4}\nmagic-numbers: {enabled: false}\n",
    "with-global-settings-banner": "nesting:\n  max_nesting_depth: 2\n\n# ============================================================================\n"
                                   "# GLOBAL SETTINGS\n# ============================================================================\nexclude:\n  - dist/\n",
    "trailing-blank-lines": "file-placement:\n  directories: {}\n\n\n\n",
}


def _repo_modules(repo):
    if repo in sys.path:
        sys.path.remove(repo)
    sys.path.insert(0, repo)
    for name in [n for n in sys.modules if n == "src" or n.startswith("src.")]:
        mod = sys.modules[name]
        f = getattr(mod, "__file__", "") or ""
        if f and not os.path.abspath(f).startswith(os.path.abspath(repo) + os.sep):
            del sys.modules[name]
    cfg = importlib.import_module("src.cli.config")
    mrg = importlib.import_module("src.cli.config_merge")
    return cfg, mrg


@custom("c20-template-domain", props=["C20"])
def template_domain(ctx):
    import yaml
    repo = ctx["repo"]
    t0 = time.time()
    obs = []

    def ob(name, ok, note=""):
        note = "" if ok else note
        obs.append({"name": f"custom:c20-template-domain/{name}", "kind": "custom", "verdict": "discharged" if ok else "refuted",
                    "solver": "native-exhaustive", "ms": round((time.time() - t0) * 1000, 1), "note": note[:600], "carries": True,
                    "witness_confirmed": not ok, "witness": note[:600] if not ok else None})

    try:
        cfg, mrg = _repo_modules(repo)
    except BaseException as e:  # noqa
        ob("import", False, f"cannot import src.cli.config / config_merge from {repo}: {e!r}")
        return obs
    for p in PRESETS:
        try:
            text = cfg._generate_config_content(p)
        except BaseException as e:  # noqa
            ob(f"{p}/placeholders", False, f"_generate_config_content({p!r}) raised {e!r}")
            continue
        ob(f"{p}/placeholders", "{{" not in text and "}}" not in text, "a `{{...}}` placeholder is left in the generated text")
        try:
            full = yaml.safe_load(text)
        except yaml.YAMLError as e:
            full = None
            ob(f"{p}/valid-yaml", False, f"generated text is not valid YAML: {e}")
        if full is not None:
            ob(f"{p}/valid-yaml", isinstance(full, dict), "generated text does not parse to a mapping")
        full = full if isinstance(full, dict) else {}
        sections = mrg.extract_linter_sections(text)
        expected = [s for s in mrg.LINTER_SECTIONS if re.search(rf"^{re.escape(s)}:$", text, re.MULTILINE)]
        bad = ""
        if sorted(sections) != sorted(expected):
            bad = f"extracted {sorted(sections)} but the template has section lines {sorted(expected)}"
        for name, block in sections.items():
            try:
                doc = yaml.safe_load(block)
            except yaml.YAMLError as e:
                bad = bad or f"block of {name} is not valid YAML: {e}"
                continue
            if not (isinstance(doc, dict) and list(doc) == [name] and doc[name] == full.get(name)):
                bad = bad or f"block of {name} parses to {str(doc)[:120]} (expected the single key {name} with the file's value)"
        ob(f"{p}/sections", not bad, bad)
        ob(f"{p}/accepted", *_accepted_by_every_rule(repo, text))
        for case, existing in list(EXISTING.items()) + [("nothing-missing", text)]:
            ob(f"{p}/merge/{case}", *_merge_case(mrg, yaml, existing, sections))
    return obs


def _accepted_by_every_rule(repo, text):
    try:
        from src.orchestrator.core import Orchestrator
        from src.linter_config.ignore import clear_ignore_parser_cache
    except BaseException as e:  # noqa
        return False, f"cannot import the orchestrator: {e!r}"
    with tempfile.TemporaryDirectory() as d:
        with open(os.path.join(d, ".thailint.yaml"), "w", encoding="utf-8") as fh:
            fh.write(text)
        for fn, src in (("a.py", "class A:\n    def f(self, x):\n        if x:\n            return 1234\n        return x\n"),
                        ("b.ts", "export function f(x: number): number { if (x) { return 1234; } return x; }\n"),
                        ("c.rs", "fn f(v: Option<i32>) -> i32 { v.unwrap() }\n")):
            with open(os.path.join(d, fn), "w", encoding="utf-8") as fh:
                fh.write(src)
        try:
            clear_ignore_parser_cache()
            from pathlib import Path
            Orchestrator(project_root=Path(d)).lint_directory(Path(d))
        except BaseException as e:  # noqa
            return False, f"linting under the generated configuration raised {type(e).__name__}: {e}"
    return True, ""


def _merge_case(mrg, yaml, existing, sections):
    try:
        before = yaml.safe_load(existing) or {}
        missing = mrg.identify_missing_sections(before, list(sections.keys()))
        merged = mrg.merge_config_sections(existing, mrg._build_missing_sections_dict(missing, sections))
        after = yaml.safe_load(merged)
        if not isinstance(after, dict):
            return False, "merged text does not parse to a mapping"
        for k, v in before.items():
            if k not in after or after[k] != v:
                return False, f"pre-existing key {k!r} changed: {before[k]!r} -> {after.get(k)!r}"
        added = [k for k in after if k not in before]
        if sorted(added) != sorted(missing):
            return False, f"added keys {sorted(added)} != missing sections {sorted(missing)}"
        if not missing and merged != existing:
            return False, "nothing was missing but the text changed"
        again_missing = mrg.identify_missing_sections(after, list(sections.keys()))
        again = mrg.merge_config_sections(merged, mrg._build_missing_sections_dict(again_missing, sections))
        if again_missing or again != merged:
            return False, f"second run is not a no-op (still missing {again_missing})"
        return True, ""
    except BaseException as e:  # noqa
        return False, f"{type(e).__name__}: {e}"


# =================================================================== _convert_value_type (bounded cross-check)
WORDS = ["true", "True", "FALSE", "false", "0", "1", "-1", "007", "42", " 5 ", "1_000", "+3", "1.5", "-0.25", "1e3", ".5", "5.",
         "inf", "-inf", "", " ", "abc", "DEBUG", "Hello, World", "yes", "no", "null", "None", "0x10", "1,5", "١٢"]


@custom("c20-convert-value-type", props=["C20"])
def convert_value_type(ctx):
    import yaml
    t0 = time.time()
    try:
        cfg, _ = _repo_modules(ctx["repo"])
    except BaseException as e:  # noqa
        return [{"name": "custom:c20-convert-value-type/import", "kind": "bounded", "verdict": "refuted", "note": repr(e)[:300]}]
    bad = []
    for w in WORDS:
        got = cfg._convert_value_type(w)
        if w.lower() in ("true", "false"):
            want = w.lower() == "true"
        else:
            want = w
            for conv in (int, float):
                try:
                    want = conv(w)
                    break
                except ValueError:
                    continue
        if type(got) is not type(want) or got != want:
            bad.append(f"{w!r}: got {got!r}, documented precedence gives {want!r}")
            continue
        if isinstance(got, float) and (math.isinf(got) or math.isnan(got)):
            continue  # non-finite floats have no portable JSON form (outside the round-trip claim)
        doc = {"k": got}
        if yaml.safe_load(yaml.dump(doc, default_flow_style=False, sort_keys=False)) != doc:
            bad.append(f"{w!r} -> {got!r} does not survive a YAML save/load")
        if json.loads(json.dumps(doc, indent=2, sort_keys=False)) != doc:
            bad.append(f"{w!r} -> {got!r} does not survive a JSON save/load")
    return [{"name": "custom:c20-convert-value-type/word-list", "kind": "bounded", "verdict": "refuted" if bad else "passed",
             "tool": "native", "budget": f"{len(WORDS)} words", "cases": len(WORDS), "note": "; ".join(bad)[:600],
             "solver": "native", "ms": round((time.time() - t0) * 1000, 1)}]


# =================================================================== pre-existing settings STAY IN EFFECT after the merge
# Property text: "every pre-existing setting keeps its value and stays in effect". Keeping the value in the YAML text is
# not enough: what counts is the configuration object each rule builds from the loaded file. Differential check at that
# observation point, for EVERY rule class of EVERY linter package and EVERY documented spelling of its section name
# (contracts/c05_keys.py: DOCUMENTED; hyphen and underscore form): an existing file that sets the section to non-default
# values (enabled flipped, every int option + 1, every other bool flipped) is merged with the template; the rule's own
# config loader (_load_config / _get_config on a context carrying the loaded, normalised configuration) must build the
# same config object before and after the merge, for a python, a typescript and a rust file.
@custom("c20-settings-stay-in-effect", props=["C20"])
def settings_stay_in_effect(ctx):
    import dataclasses
    import inspect
    import types
    import yaml
    from contracts.c05_keys import DOCUMENTED, spellings
    repo = ctx["repo"]
    t0 = time.time()
    obs = []

    def ob(name, ok, note=""):
        obs.append({"name": f"custom:c20-settings-stay-in-effect/{name}", "kind": "custom", "verdict": "discharged" if ok else "refuted",
                    "solver": "native-differential", "ms": round((time.time() - t0) * 1000, 1), "note": "" if ok else note[:600],
                    "carries": True, "witness_confirmed": not ok, "witness": None if ok else note[:600]})

    try:
        cfg, mrg = _repo_modules(repo)
        parser = importlib.import_module("src.core.config_parser")
        sections = mrg.extract_linter_sections(cfg._generate_config_content("standard"))
    except BaseException as e:  # noqa
        ob("import", False, f"cannot import from {repo}: {e!r}")
        return obs

    def load(rule, text, lang):
        md = parser._normalize_config_keys(yaml.safe_load(text) or {})
        c = types.SimpleNamespace(metadata=md, language=lang, file_path=None, file_content="")
        fn = getattr(rule, "_load_config", None) or getattr(rule, "_get_config", None)
        return fn(c) if fn is not None else None

    failing = set()
    for pkg, names in sorted(DOCUMENTED.items()):
        rules = []
        d = os.path.join(repo, "src", "linters", pkg)
        for fn in sorted(os.listdir(d)) if os.path.isdir(d) else []:
            if not fn.endswith(".py") or fn.startswith("_"):
                continue
            try:
                mod = importlib.import_module(f"src.linters.{pkg}.{fn[:-3]}")
            except BaseException:  # noqa
                continue
            for c in vars(mod).values():
                if inspect.isclass(c) and c.__module__ == mod.__name__ and isinstance(inspect.getattr_static(c, "rule_id", None), property) \
                        and (hasattr(c, "_load_config") or hasattr(c, "_get_config")) and not inspect.isabstract(c):
                    rules.append(c)
        for rule_cls in rules:
            try:
                rule = rule_cls()
                default = load(rule, "{}", "python")
            except BaseException as e:  # noqa
                ob(f"{pkg}/{rule_cls.__name__}", False, f"cannot build the rule / its default config: {e!r}")
                continue
            body = {"enabled": False}
            if dataclasses.is_dataclass(default):
                for f in dataclasses.fields(default):
                    v = getattr(default, f.name)
                    if isinstance(v, bool):
                        body[f.name] = not v
                    elif isinstance(v, int):
                        body[f.name] = v + 1
            for section in names:
                for s in spellings(section):
                    existing = yaml.dump({s: body}, default_flow_style=False, sort_keys=False)
                    try:
                        missing = mrg.identify_missing_sections(yaml.safe_load(existing), list(sections.keys()))
                        merged = mrg.merge_config_sections(existing, mrg._build_missing_sections_dict(missing, sections))
                        bad = ""
                        for lang in ("python", "typescript", "rust"):
                            before, after = load(rule, existing, lang), load(rule, merged, lang)
                            if before != after:
                                bad = (f"`{s}:` section {body} -- {rule_cls.__name__} built {before} before init-config's merge and "
                                       f"{after} after it ({lang} file; sections added: {missing})")
                                break
                        ob(f"{rule_cls.__name__}/{s}/{pkg}:{section}", not bad, bad)
                        if bad:
                            failing.add((pkg, section))
                    except BaseException as e:  # noqa
                        ob(f"{rule_cls.__name__}/{s}/{pkg}:{section}", False, f"{type(e).__name__}: {e}")
                        failing.add((pkg, section))
    ob("adjusted", failing == SHADOWED, f"finding-adjusted: the sections whose settings do not survive the merge are exactly "
                                        f"{sorted(SHADOWED)}; found {sorted(failing)}")
    return obs


# known finding C20-improper-logging-shadowed-by-print-statements: (package, documented section) pairs that are shadowed
SHADOWED = {("print_statements", "improper-logging")}


# =================================================================== bounded differential over command HISTORIES (a net under
# the contracts): sequences of `thailint --config FILE config set K V` / `config get K` run in-process (click's CliRunner)
# on a YAML and on a JSON file. Oracle from the property text: a rejected value (exit != 0) leaves the file byte-for-byte
# unchanged; an accepted value is what `config get K` prints afterwards and what a fresh load of the file contains.
@custom("c20-config-history-differential", props=["C20"])
def config_history_differential(ctx):
    import random
    import tempfile
    repo, seed, tier = ctx["repo"], int(ctx.get("seed", 0) or 0), ctx.get("tier", "quick")
    t0 = time.time()
    rng = random.Random(seed * 104729 + 20)
    bad, steps = [], 0
    KEYS = ["log_level", "output_format", "max_retries", "timeout", "greeting", "app_name", "note", "flag"]
    VALUES = ["DEBUG", "INFO", "LOUD", "json", "xml", "0", "5", "-1", "3.5", "0.0", "true", "false", "", "hello world", "007",
              "text", "None", "1e2"]
    try:
        cfg, _ = _repo_modules(repo)
        main = importlib.import_module("src.cli.main")
        importlib.import_module("src.cli.config")
        parser = importlib.import_module("src.core.config_parser")
        from click.testing import CliRunner
        from pathlib import Path
        runner = CliRunner()
        for suffix in (".yaml", ".json"):
            with tempfile.TemporaryDirectory() as d:
                f = Path(d) / ("config" + suffix)
                f.write_text("app_name: demo\nlog_level: INFO\n" if suffix == ".yaml" else '{"app_name": "demo", "log_level": "INFO"}',
                             encoding="utf-8")
                for _ in range(6 if tier == "quick" else 25):
                    k, v = rng.choice(KEYS), rng.choice(VALUES)
                    before = f.read_bytes()
                    steps += 1
                    r = runner.invoke(main.cli, ["--config", str(f), "config", "set", k, "--", v] if v.startswith("-")
                                      else ["--config", str(f), "config", "set", k, v])
                    if r.exit_code != 0:
                        if f.read_bytes() != before:
                            bad.append(f"{suffix}: `config set {k} {v!r}` was rejected (exit {r.exit_code}) but the file changed")
                        continue
                    want = cfg._convert_value_type(v)
                    g = runner.invoke(main.cli, ["--config", str(f), "config", "get", k])
                    shown = g.output.rstrip("\n")
                    if g.exit_code != 0 or shown != str(want):
                        bad.append(f"{suffix}: `config set {k} {v!r}` accepted, but `config get {k}` prints {shown!r} (exit {g.exit_code}) instead of {str(want)!r}")
                    stored = parser.parse_config_file(f).get(k, "<missing>")
                    if stored != want or type(stored) is not type(want):
                        bad.append(f"{suffix}: `config set {k} {v!r}` accepted, but the file holds {stored!r} instead of {want!r}")
    except BaseException as e:  # noqa
        bad.append(f"harness error {type(e).__name__}: {e}")
    return [{"name": "custom:c20-config-history-differential/set-get-histories", "kind": "bounded",
             "verdict": "refuted" if bad else "passed", "tool": "native differential (CliRunner)", "budget": f"{steps} commands, seed {seed}",
             "cases": steps, "note": "; ".join(bad)[:800], "solver": "native", "ms": round((time.time() - t0) * 1000, 1),
             "witness_confirmed": bool(bad), "witness": "; ".join(bad)[:800] or None}]


# ---- the same net for histories WITHOUT --config inside one process (the way an embedding application or the test-suite
# drives the CLI): the configuration modules are imported with an empty directory as cwd / HOME, so no config file exists
# in any default location. Oracle from the property text: a rejected `config set` changes NOTHING observable -- no file
# appears, a following `config get` prints the previous value, commands on another file are unaffected -- and
# `config reset` writes the built-in defaults (the values the module had when it was imported).
@custom("c20-config-history-no-config-file", props=["C20", "C08"])
def config_history_no_config_file(ctx):
    import copy
    import random
    import sys
    import tempfile
    repo, seed = ctx["repo"], int(ctx.get("seed", 0) or 0)
    t0 = time.time()
    rng = random.Random(seed * 15485863 + 4)
    bad, steps = [], 0
    old_cwd, old_home = os.getcwd(), os.environ.get("HOME")
    try:
        with tempfile.TemporaryDirectory() as d:
            os.chdir(d)
            os.environ["HOME"] = d
            if repo in sys.path:
                sys.path.remove(repo)
            sys.path.insert(0, repo)
            for name in [n for n in sys.modules if n == "src" or n.startswith("src.")]:
                del sys.modules[name]  # CONFIG_LOCATIONS is computed from cwd / HOME at import time
            conf = importlib.import_module("src.config")
            main = importlib.import_module("src.cli.main")
            importlib.import_module("src.cli.config")
            from click.testing import CliRunner
            from pathlib import Path
            import yaml
            runner = CliRunner()
            defaults = copy.deepcopy(conf.DEFAULT_CONFIG)

            def run(*args):
                nonlocal steps
                steps += 1
                return runner.invoke(main.cli, list(args))

            def get(key, *pre):
                r = run(*pre, "config", "get", key)
                return r.output.rstrip("\n") if r.exit_code == 0 else f"<exit {r.exit_code}>"

            here = Path(d)
            invalid = [("log_level", "BOGUS"), ("output_format", "xml"), ("max_retries", "-1"), ("timeout", "0"), ("app_name", "")]
            for key, val in rng.sample(invalid, 3):
                before = get(key)
                files_before = sorted(p.name for p in here.iterdir())
                r = run("config", "set", key, "--", val) if val.startswith("-") else run("config", "set", key, val)
                if r.exit_code == 0:
                    bad.append(f"`config set {key} {val!r}` (invalid) was accepted")
                    continue
                if sorted(p.name for p in here.iterdir()) != files_before:
                    bad.append(f"rejected `config set {key} {val!r}` created {sorted(p.name for p in here.iterdir())}")
                after = get(key)
                if after != before:
                    bad.append(f"after the REJECTED `config set {key} {val!r}` `config get {key}` prints {after!r} instead of {before!r}")
                other = here / f"other_{key}.yaml"
                r2 = run("--config", str(other), "config", "set", "greeting", "Hi")
                if r2.exit_code != 0:
                    bad.append(f"after the rejected `config set {key} {val!r}` a valid `--config {other.name} config set greeting Hi` "
                               f"fails (exit {r2.exit_code}): {r2.output.strip()[:120]}")
                elif get(key, "--config", str(other)) != str(defaults.get(key)):
                    bad.append(f"{other.name} (created after a rejected set of {key}) holds {get(key, '--config', str(other))!r} for {key}, "
                               f"not the default {defaults.get(key)!r}")
            r = run("config", "set", "greeting", "Howdy")
            if r.exit_code != 0 or get("greeting") != "Howdy":
                bad.append(f"valid `config set greeting Howdy` without --config: exit {r.exit_code}, get prints {get('greeting')!r}")
            r = run("config", "reset", "--yes")
            written = here / "config.yaml"
            if r.exit_code != 0 or not written.exists():
                bad.append(f"`config reset --yes`: exit {r.exit_code}, {written.name} exists: {written.exists()}")
            else:
                doc = yaml.safe_load(written.read_text(encoding="utf-8"))
                if doc != defaults:
                    bad.append(f"`config reset` wrote {doc} instead of the built-in defaults {defaults}")
            if conf.DEFAULT_CONFIG != defaults:
                bad.append(f"the module-level DEFAULT_CONFIG changed during the history: {conf.DEFAULT_CONFIG}")
    except BaseException as e:  # noqa
        bad.append(f"harness error {type(e).__name__}: {e}")
    finally:
        os.chdir(old_cwd)
        if old_home is None:
            os.environ.pop("HOME", None)
        else:
            os.environ["HOME"] = old_home
        for name in [n for n in sys.modules if n == "src" or n.startswith("src.")]:
            del sys.modules[name]
    return [{"name": "custom:c20-config-history-no-config-file/rejected-set-then-get-set-reset", "kind": "bounded",
             "verdict": "refuted" if bad else "passed", "tool": "native differential (CliRunner, one process)",
             "budget": f"{steps} commands, seed {seed}", "cases": steps, "note": "; ".join(bad)[:900], "solver": "native",
             "ms": round((time.time() - t0) * 1000, 1), "witness_confirmed": bool(bad), "witness": "; ".join(bad)[:900] or None}]
