"""C20 -- `thailint init-config` on an existing file only ADDS the linter sections that are missing
(src/cli/config_merge.py).

Property text: "run without --force on an existing valid configuration only adds the linter sections that are missing:
every pre-existing setting keeps its value and stays in effect, the result is valid YAML, and running it again changes
nothing".  "Missing" is a statement about the configuration the linters will SEE: the loader normalises top-level keys
(hyphens -> underscores, contracts/c05_config.py), so a template section is missing iff no existing top-level key
normalises to the same name.

The regular-expression engine is trusted: `re.match(P, line)` is `re.search("\\A(?:P)", line)` of contracts/_common.py
(uninterpreted match predicate and groups). What the extraction does on the REAL template under the three presets is
checked exhaustively by the custom unit c20-template-domain (contracts/c20_domain.py)."""
import z3

from pyvc.api import (contract, lemma, Any, Assoc, Int, Bool, Str, Dict, SeqOf, Rec, Opt, TupleOf, implies, call, dict_put, uf,
                      UFCallable, opaque, reveal)
from pyvc.ex_call import EXTERNALS, external
from pyvc.ops import concrete_of, NOCONST
from pyvc.ty import Unsupported, VConst, lift
from contracts._common import PathT, re_search, re_group
from contracts import c20_config_tool  # noqa: F401  (file-system effect externals)

M = "src/cli/config_merge.py::"
LINTER_SECTIONS = ["magic-numbers", "nesting", "srp", "dry", "file-placement", "print-statements", "stringly-typed",
                   "file-header", "method-property", "stateless-class", "pipeline", "lazy-ignores"]
SECTION_RE = r"^([a-z][a-z0-9-]*):$"
SECTION_RE_AT_START = "\\A(?:" + SECTION_RE + ")"   # re.match(P, s) == re.search("\A(?:P)", s), same group numbering
MARKER = "# ============================================================================\n# GLOBAL SETTINGS"


@external("re.match")
def _x_re_match(ex, args, kwargs, lineno):
    """re.match(p, s) for a constant pattern: re.search of the pattern anchored at the start (same groups)."""
    p = concrete_of(args[0])
    if p is NOCONST or len(args) != 2 or kwargs:
        raise Unsupported("re.match with a symbolic pattern / flags")
    return EXTERNALS["re.search"](ex, [lift("\\A(?:" + p + ")"), args[1]], {}, lineno)


# =================================================================== line classification
@contract(M + "_is_section_header_line", props=["C20"], effects=[], types=dict(line=Str), returns=Bool)
class IsSectionHeaderLine:
    def value(line):
        return line.startswith("# ===")


def section_name(line):
    """The known linter section a line opens (`name:` alone on the line, name in LINTER_SECTIONS), else None."""
    return re_group(SECTION_RE_AT_START, line, 1) \
        if re_search(SECTION_RE_AT_START, line) and re_group(SECTION_RE_AT_START, line, 1) in LINTER_SECTIONS else None


@contract(M + "_get_linter_section_name", props=["C20"], effects=[], types=dict(line=Str), returns=Opt(Str))
class GetLinterSectionName:
    def value(line):
        return section_name(line)

    def ensures_only_known_sections(line, result):
        return implies(result is not None, result in LINTER_SECTIONS)


def is_buffer(line):
    return line.strip().startswith("#") or line.strip() == ""


@contract(M + "_is_buffer_line", props=["C20"], effects=[], types=dict(line=Str, stripped=Str), returns=Bool)
class IsBufferLine:
    def value(line):
        return is_buffer(line)


# =================================================================== the extraction state machine
def saved(sections, cur, content):
    """sections after closing the current section (a section with no content line is dropped)."""
    return dict_put(sections, cur, "\n".join(content)) if cur is not None and cur != "" and len(content) > 0 else sections


@contract(M + "_save_current_section", props=["C20"], effects=[], types=dict(sections=Dict, current_section=Opt(Str), current_content=SeqOf(Str)),
          modifies=["sections"])
class SaveCurrentSection:
    def ensures(sections, current_section, current_content, old):
        return sections == saved(old.sections, current_section, current_content)


StateT = TupleOf(Opt(Str), SeqOf(Str), SeqOf(Str))


@contract(M + "_handle_section_header", props=["C20"], effects=[],
          types=dict(line=Str, sections=Dict, current_section=Opt(Str), current_content=SeqOf(Str)), returns=StateT,
          modifies=["sections"])
class HandleSectionHeader:
    def ensures(line, sections, current_section, current_content, result, old):
        return sections == saved(old.sections, current_section, current_content) \
            and result[0] is None and result[1] == [] and result[2] == [line]


@contract(M + "_start_linter_section", props=["C20"], effects=[], types=dict(section_name=Str, line=Str, header_buffer=SeqOf(Str)),
          returns=StateT)
class StartLinterSection:
    def ensures(section_name, line, header_buffer, result):
        return result[0] == section_name and result[1] == header_buffer + [line] and result[2] == []


@contract(M + "_handle_content_line", props=["C20"], effects=[],
          types=dict(line=Str, current_section=Opt(Str), current_content=SeqOf(Str), header_buffer=SeqOf(Str)), returns=StateT,
          modifies=["current_content", "header_buffer"])
class HandleContentLine:
    def ensures_inside_a_section_the_line_is_content(line, current_section, current_content, header_buffer, result, old):
        return implies(current_section is not None and current_section != "",
                       result[0] == current_section and result[1] == old.current_content + [line]
                       and result[2] == old.header_buffer)

    def ensures_outside_comment_and_blank_lines_are_buffered(line, current_section, current_content, header_buffer, result, old):
        return implies(not (current_section is not None and current_section != ""),
                       result[0] == current_section and result[1] == old.current_content
                       and result[2] == (old.header_buffer + [line] if is_buffer(line) else []))


def step_sections(line, sections, cur, content):
    return saved(sections, cur, content) if line.startswith("# ===") or section_name(line) is not None else sections


def in_section(cur):
    return cur is not None and cur != ""


@contract(M + "_process_template_line", props=["C20"], effects=[],
          types=dict(line=Str, sections=Dict, current_section=Opt(Str), current_content=SeqOf(Str), header_buffer=SeqOf(Str),
                     section_name=Opt(Str)),
          returns=StateT, modifies=["sections", "current_content", "header_buffer"])
class ProcessTemplateLine:
    """One transition of the extraction automaton (state: sections, current section, its lines, pending comment lines)."""

    def ensures_sections(line, sections, current_section, current_content, header_buffer, old):
        return sections == step_sections(line, old.sections, current_section, old.current_content)

    def ensures_banner_line_closes_the_section(line, current_section, current_content, header_buffer, result, old):
        return implies(line.startswith("# ==="), result[0] is None and result[1] == [] and result[2] == [line])

    def ensures_section_line_opens_with_pending_comments(line, current_section, current_content, header_buffer, result, old):
        return implies(not line.startswith("# ===") and section_name(line) is not None,
                       result[0] == section_name(line) and result[1] == old.header_buffer + [line] and result[2] == [])

    def ensures_other_lines(line, current_section, current_content, header_buffer, result, old):
        return implies(not line.startswith("# ===") and section_name(line) is None,
                       result[0] == current_section
                       and result[1] == (old.current_content + [line] if in_section(current_section) else old.current_content)
                       and result[2] == (old.header_buffer if in_section(current_section)
                                         else (old.header_buffer + [line] if is_buffer(line) else [])))


# =================================================================== which sections are missing (property level)
@contract(M + "identify_missing_sections", props=["C20"],
          types=dict(existing_config=Assoc(Any), all_sections=SeqOf(Str), existing_names=SeqOf(Str)),
          returns=SeqOf(Str), effects=[])
class IdentifyMissingSections:
    """A template section is missing iff no existing top-level key NORMALISES (hyphens -> underscores, like the loader)
    to the same name."""

    def ensures_missing_iff_no_key_normalises_to_it(existing_config, all_sections, result):
        return result == [s for s in all_sections
                          if s.replace("-", "_") not in [str(key).replace("-", "_") for key in existing_config]]


HYPHENATED = ("magic-numbers", "file-placement", "print-statements", "stringly-typed", "file-header", "method-property",
              "stateless-class", "lazy-ignores")  # the LINTER_SECTIONS names that have a second (underscore) spelling


@lemma(props=["C20"], types=dict(v=Int), name="init-config-keeps-underscore-spelled-section")
def underscore_section_is_not_missing(v):
    """Property text at witness level, for every section name that has two spellings: an existing `magic_numbers:`
    section (the spelling the loader itself produces, and the one docs/stringly-typed-linter.md uses) is not reported
    missing, neither is the hyphenated spelling, and an absent section is."""
    return all(call(M + "identify_missing_sections", {n.replace("-", "_"): v}, [n]) == []
               and call(M + "identify_missing_sections", {n: v}, [n]) == []
               and call(M + "identify_missing_sections", {"nesting": v}, [n, "nesting"]) == [n] for n in HYPHENATED)


# =================================================================== splicing the missing sections into the text
@contract(M + "_find_global_settings_position", props=["C20"], effects=[], types=dict(content=Str, marker=Str), returns=Int)
class FindGlobalSettingsPosition:
    def value(content):
        return content.find(MARKER)


@contract(M + "_insert_before_global_settings", props=["C20"], effects=[], types=dict(content=Str, sections_text=Str, insert_pos=Int),
          returns=Str)
class InsertBeforeGlobalSettings:
    def requires(content, sections_text, insert_pos):
        return 0 <= insert_pos and insert_pos <= len(content)

    def value(content, sections_text, insert_pos):
        return content[:insert_pos] + sections_text + "\n\n" + content[insert_pos:]

    def ensures_original_text_preserved(content, sections_text, insert_pos, result):
        # removing the inserted block gives back the file byte for byte
        return result[:insert_pos] + result[insert_pos + len(sections_text) + 2:] == content


def kept_verbatim(existing, new_text):
    """Every pre-existing byte survives in order: the added block sits before the GLOBAL SETTINGS banner, or after the
    (right-stripped) end of the file."""
    return ((new_text.startswith(existing[:existing.find(MARKER)]) and new_text.endswith(existing[existing.find(MARKER):]))
            if existing.find(MARKER) > 0 else new_text.startswith(existing.rstrip()))


@contract(M + "merge_config_sections", props=["C20"], types=dict(existing_content=Str, missing_sections=Assoc(Str),
                                                                   sections_text=Str, insert_pos=Int), returns=Str,
          effects=[])
class MergeConfigSections:
    def ensures_nothing_missing_nothing_changes(existing_content, missing_sections, result):
        return implies(len(missing_sections) == 0, result == existing_content)

    def ensures_inserted_before_global_settings(existing_content, missing_sections, result):
        return implies(len(missing_sections) > 0 and existing_content.find(MARKER) > 0,
                       result == existing_content[:existing_content.find(MARKER)] + "\n".join(missing_sections.values())
                       + "\n\n" + existing_content[existing_content.find(MARKER):])

    def ensures_else_appended(existing_content, missing_sections, result):
        return implies(len(missing_sections) > 0 and not existing_content.find(MARKER) > 0,
                       result == existing_content.rstrip() + "\n\n" + "\n".join(missing_sections.values()) + "\n")

    def ensures_existing_text_kept_verbatim(existing_content, missing_sections, result):
        return kept_verbatim(existing_content, result)


@contract(M + "_build_missing_sections_dict", props=["C20"], types=dict(missing_names=SeqOf(Str), template_sections=Dict),
          returns=Any, effects=[],
          assumed="dict comprehension {name: template_sections[name] for name in missing_names if name in template_sections}: "
                  "dict comprehensions are outside the verified subset; checked on the production domain by c20-template-domain")
class BuildMissingSectionsDict:
    def ensures(missing_names, template_sections, result):
        return True


# =================================================================== extract_linter_sections: the fold over the lines
FoldT = TupleOf(Dict, Opt(Str), SeqOf(Str), SeqOf(Str))


def fold(lines: SeqOf(Str), sections: Dict, cur: Opt(Str), content: SeqOf(Str), buf: SeqOf(Str)) -> FoldT:
    """The automaton of _process_template_line run over the remaining lines."""
    if len(lines) == 0:
        return (sections, cur, content, buf)
    if lines[0].startswith("# ==="):
        return fold(lines[1:], saved(sections, cur, content), None, [], [lines[0]])
    if section_name(lines[0]) is not None:
        return fold(lines[1:], saved(sections, cur, content), section_name(lines[0]), buf + [lines[0]], [])
    if in_section(cur):
        return fold(lines[1:], sections, cur, content + [lines[0]], buf)
    return fold(lines[1:], sections, cur, content, buf + [lines[0]] if is_buffer(lines[0]) else [])


@opaque
def extracted(template: Str) -> Dict:
    """Section name -> text block (its pending comment lines, the `name:` line, every line up to the next banner /
    section line), for every known section that has at least one line."""
    return saved(fold(template.split("\n"), {}, None, [], [])[0], fold(template.split("\n"), {}, None, [], [])[1],
                 fold(template.split("\n"), {}, None, [], [])[2])


@contract(M + "extract_linter_sections", props=["C20"],
          types=dict(template=Str, sections=Dict, lines=SeqOf(Str), current_section=Opt(Str), current_content=SeqOf(Str),
                     header_buffer=SeqOf(Str), line=Str),
          returns=Dict, effects=[])
class ExtractLinterSections:
    def reveals(template):
        return reveal(extracted, template)

    def value(template):
        return extracted(template)

    def inv0(template, sections, current_section, current_content, header_buffer, rest):
        return fold(template.split("\n"), {}, None, [], []) == fold(rest, sections, current_section, current_content, header_buffer)


# =================================================================== perform_merge: read, parse, splice, write -- in that order
from pyvc.ex_call import external as _external  # noqa: E402
from pyvc.ty import VNone, VStr, VOpaque  # noqa: E402
from contracts.c15_language import fs_text  # noqa: E402  (Path.read_text: the file-system snapshot)

generate_config = uf("generate_config", [Str], Str)  # the generate_config_fn argument (pure function of the preset)


@_external("Path.write_text")
def _x_write_text(ex, args, kwargs, lineno):
    """path.write_text(text, encoding=...): effect fs_write; the text is recorded in the ghost list `written`;
    may raise OSError."""
    if ex.merge_depth == 0 and ex.spec_depth == 0:
        b = z3.Const(f"ext.raises.OSError!w{lineno}", z3.BoolSort())
        if ex.decide(b):
            from pyvc.run import RaiseSig
            from pyvc.ty import VExc
            raise RaiseSig(VExc("OSError"))
        ex.run.effects.append(("fs_write", lineno))
        if not hasattr(ex.run, "written"):
            ex.run.written = []
        ex.run.written.append(args[1])
    return VNone()


@contract(M + "_parse_existing_config", props=["C20"], types=dict(content=Str, output=Str), returns=Any, raises=["SystemExit"],
          modifies=["stderr"], effects=[], exc=Int)
class ParseExistingConfig:
    """Unparsable existing file: two lines on stderr, exit code 1 (the caller has written nothing yet)."""

    def on_raise_exit_code_1(content, output, exc_class, exc, stderr, old):
        return exc_class == "SystemExit" and exc == 1 and len(stderr) == len(old.stderr) + 2


@contract(M + "_report_merge_results", props=["C20"], types=dict(missing_names=SeqOf(Str), output=Str, name=Str),
          modifies=["stdout"], effects=[])
class ReportMergeResults:
    def ensures(missing_names, output):
        return True

    def inv0(missing_names):
        return True


@contract(M + "perform_merge", no_selftest=True, props=["C20"],
          types=dict(output_path=PathT, preset=Str, output=Str, generate_config_fn=UFCallable("generate_config"),
                     existing_content=Str, existing_config=Any, template_sections=Dict, missing_names=SeqOf(Str),
                     missing_sections=Any, merged_content=Str),
          raises=["SystemExit", "OSError", "UnicodeDecodeError"], modifies=["stdout", "stderr"], effects=["fs_write"], exc=Int)
class PerformMerge:
    def requires(output_path, preset, output):
        return True

    def ensures_at_most_one_write_and_it_keeps_the_existing_text(output_path, preset, output, written):
        return len(written) <= 1 and implies(len(written) == 1, kept_verbatim(fs_text(output_path), written[0]))

    def ensures_nothing_missing_nothing_written(output_path, preset, output, written, effects):
        return (len(written) == 0) == ("fs_write" not in effects)

    def on_raise_unparsable_file_is_left_alone(output_path, preset, output, exc_class, exc, written, effects):
        return implies(exc_class == "SystemExit", exc == 1 and len(written) == 0 and "fs_write" not in effects)


# =================================================================== precedence among the section names ONE rule accepts
# Property text: "every pre-existing setting keeps its value and stays in effect". init-config knows the collection-
# pipeline rule only under the template's name `pipeline`; for a file that configures the rule under its documented name
# (`collection-pipeline:` / `collection_pipeline:`) it appends the template's default `pipeline:` block. The user's
# section stays in effect only if the rule prefers its own section names over the template alias.
from contracts.c05_config import PipelineConfigT  # noqa: E402

CPL = "src/linters/collection_pipeline/linter.py::"
FileCtxT = Rec("FileLintContext", closed=True, file_path=Opt(PathT), file_content=Opt(Str), language=Str, metadata=Any)
PipelineRuleT = Rec("CollectionPipelineRule", cls=CPL + "CollectionPipelineRule")


@contract(CPL + "CollectionPipelineRule._get_config_dict", props=["C05", "C20"], types=dict(self=PipelineRuleT, context=FileCtxT),
          returns=Any)
class PipelineGetConfigDict:
    """For the context the orchestrator builds (no `config` attribute): the metadata, i.e. the loaded configuration."""

    def value(context):
        return context.metadata


def pipeline_section(md):
    """The section the rule is configured by: its own names first, the template's `pipeline` alias next, else the dict."""
    return md["collection_pipeline"] if "collection_pipeline" in md else (
        md["collection-pipeline"] if "collection-pipeline" in md else (md["pipeline"] if "pipeline" in md else md))


@contract(CPL + "CollectionPipelineRule._load_config", props=["C05", "C20"],
          types=dict(self=PipelineRuleT, context=FileCtxT, config_dict=Any, linter_config=Any), returns=PipelineConfigT,
          raises=["ValueError"])
class PipelineLoadConfig:
    def requires(context):
        return isinstance(context.metadata, dict) and isinstance(pipeline_section(context.metadata), dict) \
            and implies("min_continues" in pipeline_section(context.metadata),
                        isinstance(pipeline_section(context.metadata)["min_continues"], int))

    def raises_when(context):
        return pipeline_section(context.metadata).get("min_continues", 1) < 1

    def ensures_own_section_wins_over_the_template_alias(context, result):
        return result.enabled == pipeline_section(context.metadata).get("enabled", True) \
            and result.min_continues == pipeline_section(context.metadata).get("min_continues", 1) \
            and result.ignore == pipeline_section(context.metadata).get("ignore", [])
