"""Dependency cones of C11 / C12 / C13 / C19 (loaded LAST: the file name sorts after every cNN_ file).

Several clauses these properties rely on are proved in other properties' contract files (safety of helper chains under
C17 / C02 / C01 / C16 / C03, state hygiene of DRYRule under C08 / C03, comment-insensitive Rust helpers under C17 ...).
A property's check only runs the units that carry its id in `props`, so this module appends the ids at load time --
read-only reuse, the contracts themselves stay in their owners' files. A unit one of whose clauses is an OPEN known
finding of another property is left out (under the borrowing property that refutation would be an unlisted VIOLATION;
the owner's property keeps reporting it)."""
import json
import os

from pyvc import api

_HERE = os.path.dirname(os.path.abspath(__file__))
try:
    with open(os.path.join(os.path.dirname(_HERE), "known_findings.json"), encoding="utf-8") as _fh:
        _OPEN = [e for e in json.load(_fh).get("findings", []) if e.get("status", "open") == "open"]
except (OSError, ValueError):
    _OPEN = []


def _has_open_finding_elsewhere(c, prop):
    full = c.target.split("::")[1]
    short = full.split("~")[0]
    return any(e.get("property") != prop and ((short + "/") in e.get("obligation", "") or (full + "/") in e.get("obligation", ""))
               for e in _OPEN)


def extend(prop, pred, why, kinds=None):
    """Add `prop` to every verified contract satisfying pred(target) (assumed contracts carry no obligations). With
    `kinds`, only obligations of those kinds are run under `prop` (pyvc.check reads api.BORROWED); then a clause that is
    an open known finding of the owner is not run here at all, otherwise such a unit is left out."""
    added = []
    if not hasattr(api, "BORROWED"):
        api.BORROWED = {}
    for target, c in api.REGISTRY.items():
        if prop in c.props or c.assumed or not pred(target):
            continue
        if kinds is None and _has_open_finding_elsewhere(c, prop):
            continue
        c.props.append(prop)
        if kinds is not None:
            api.BORROWED.setdefault(prop, {})[target] = tuple(kinds)
        added.append(target)
    CONES.setdefault(prop, []).append((why, added))
    return added


def extend_lemmas(prop, names):
    for lem in api.LEMMAS:
        if lem.name in names and prop not in lem.props:
            lem.props.append(prop)


CONES: dict = {}

# ---- C11: "no rule fails internally" -- the safety obligations (index / None / KeyError / undeclared exception) of EVERY
# ---- function reachable from a rule's check() that is under contract anywhere count for C11
_RULE_CODE = ("src/linters/", "src/analyzers/", "src/core/", "src/orchestrator/", "src/linter_config/")
extend("C11", lambda t: t.startswith(_RULE_CODE), "safety / raise-set obligations of the rule code under contract",
       kinds=("safe", "raises", "pre"))

# ---- state hygiene across calls on one long-lived rule object (C08's Clean-after-finalize invariant, C03's DRY pipeline):
# ---- C12 ("a file that was part of the run"), C13 and C19 ("whenever / in every run") depend on it
_STATE_UNITS = ("src/linters/dry/linter.py::DRYRule.", "src/linters/stringly_typed/linter.py::StringlyTypedRule.",
                "src/linters/dry/file_analyzer.py::", "src/linters/dry/duplicate_storage.py::", "src/linters/dry/cache.py::",
                "src/linters/dry/storage_initializer.py::", "src/linters/dry/violation_generator.py::",
                "src/linters/dry/constant_matcher.py::", "src/linters/dry/python_constant_extractor.py::")
for _p in ("C12", "C13", "C19"):
    extend(_p, lambda t: t.startswith(_STATE_UNITS), "per-run state of the cross-file rules is reset (finalize / _process_file)")

# ---- C13: comments are not code -- the Rust helpers that walk call chains / attribute runs must not see comment nodes
_RUST_HELPERS = ("src/linters/unwrap_abuse/rust_analyzer.py::", "src/linters/clone_abuse/rust_analyzer.py::",
                 "src/linters/blocking_async/rust_analyzer.py::", "src/analyzers/rust_context.py::", "src/analyzers/rust_base.py::")
extend("C13", lambda t: t.startswith(_RUST_HELPERS), "Rust tree helpers select children by node type (comment nodes are transparent)")

# ---- C19: embedding independence of the Rust linters rests on the test-context predicates of rust_context / rust_base
extend("C19", lambda t: t.startswith(_RUST_HELPERS), "Rust test-context / async-context predicates look only at the documented ancestors")

# ---- C12: the quoted names / reported positions of the findings of nesting, srp, magic-numbers, dry and of the shared
# ---- tree helpers are decided in their owners' files: C12 runs those units too (all clauses)
_C12_OWNED_ELSEWHERE = ("src/linters/srp/", "src/linters/nesting/", "src/linters/magic_numbers/", "src/linters/dry/",
                        "src/analyzers/", "src/linters/unwrap_abuse/", "src/linters/clone_abuse/", "src/linters/blocking_async/")
extend("C12", lambda t: t.startswith(_C12_OWNED_ELSEWHERE), "name extraction / position / message units of the other linters")

# ---- C13: nesting depth is a function of the TREE SHAPE only (which statements contain which), never of line numbers or of
# ---- blank / comment lines between them: the depth recursions of the three nesting analyzers run under C13 as well
extend("C13", lambda t: t.startswith("src/linters/nesting/"), "nesting depth recursions read node kinds and child lists only")
