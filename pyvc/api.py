"""pyvc.api -- what a sidecar contract file imports.

A contract is a class decorated with @contract(target, ...). Its methods are *ordinary Python*:
  requires(<params>)                     precondition
  ensures*(<params>, result, old)        postconditions (any method whose name starts with "ensures")
  raises_when(<params>)                  exact condition under which the function raises (optional)
  inv<k>(<locals>, done, rest, old)      invariant of the k-th loop of the function (source order)
  var<k>(<locals>)                       integer variant of the k-th loop (while loops)
They are never given special syntax: the same text is (a) translated to SMT by the executor's own
expression evaluator and (b) run natively by CPython on real objects for replay / monitoring.
Parameter names select what is passed: the target's parameter names, `result`, `old` (snapshot of the
parameters at entry), and for loops the local variable names, `done`, `rest`.
"""
from __future__ import annotations

import ast
import inspect
import sys

from .ty import (Any, Assoc, Bool, Bytes, Dict, EnumOf, Int, NodeTy, NoneT, Opaque, Opt, Rec, SeqOf, Str, TupleOf, Ty)  # noqa: F401
from .ty import ClassOf, UFCallable  # noqa: F401

REGISTRY: dict[str, "Contract"] = {}
LEMMAS: list["Lemma"] = []
SPEC_MODULES: dict[str, object] = {}
INTRINSICS: dict[str, object] = {}  # name -> symbolic handler (set by pyvc.exec / contracts)
UFS: dict[str, tuple] = {}  # name -> (argtys, retty, concrete impl)
AXIOMS: list = []  # (name, fn info) global axioms: spec functions returning bool, universally quantified by instantiation sites


class Contract:
    def __init__(self, target, cls, props, types, returns, modifies, raises, assumed, inline, opts):
        self.target = target
        self.cls = cls
        self.props = props
        self.types = types
        self.returns = returns
        self.modifies = modifies
        self.raises = raises
        self.assumed = assumed  # False or a reason string: contract is trusted, body not verified
        self.inline = inline  # list of callee names that may be inlined while verifying this function
        self.opts = opts
        self.module = cls.__module__
        self.methods = {}
        src_mod = sys.modules[cls.__module__]
        tree = _module_ast(src_mod)
        cnode = [n for n in tree.body if isinstance(n, ast.ClassDef) and n.name == cls.__name__]
        if len(cnode) != 1:
            raise RuntimeError(f"contract class name {cls.__name__} must be unique in {cls.__module__} (found {len(cnode)})")
        node = cnode[0]
        self.node = node
        for st in node.body:
            if isinstance(st, ast.FunctionDef):
                self.methods[st.name] = st

    def ensures_names(self):
        return sorted(n for n in self.methods if n.startswith("ensures"))

    def native(self, name):
        f = self.cls.__dict__.get(name)
        if isinstance(f, staticmethod):
            f = f.__func__
        return f


class Lemma:
    def __init__(self, fn, props, types, name, uses):
        self.fn = fn
        self.props = props
        self.types = types
        self.name = name or fn.__name__
        self.module = fn.__module__
        self.uses = uses
        tree = _module_ast(sys.modules[fn.__module__])
        self.node = [n for n in tree.body if isinstance(n, ast.FunctionDef) and n.name == fn.__name__][-1]


_ast_cache = {}


def _module_ast(mod):
    if mod.__name__ not in _ast_cache:
        src = inspect.getsource(mod)
        _ast_cache[mod.__name__] = ast.parse(src)
    return _ast_cache[mod.__name__]


def contract(target, props=(), types=None, returns=None, modifies=(), raises=(), assumed=False, inline=(), **opts):
    def deco(cls):
        for k, v in list(cls.__dict__.items()):
            if inspect.isfunction(v):
                setattr(cls, k, staticmethod(v))
        c = Contract(target, cls, list(props), dict(types or {}), returns, list(modifies), list(raises), assumed,
                     list(inline), opts)
        if target in REGISTRY:
            raise RuntimeError(f"duplicate contract for {target}")
        REGISTRY[target] = c
        SPEC_MODULES[cls.__module__] = sys.modules[cls.__module__]
        return cls
    return deco


def lemma(props=(), types=None, name=None, uses=()):
    def deco(fn):
        LEMMAS.append(Lemma(fn, list(props), dict(types or {}), name, list(uses)))
        SPEC_MODULES[fn.__module__] = sys.modules[fn.__module__]
        return fn
    return deco


def uf(name, argtys, retty, concrete=None):
    """Declare an uninterpreted function usable from specs and as the model of a builtin.
    Returns a Python callable: natively it runs `concrete`; symbolically the executor intercepts it by name."""
    UFS[name] = (list(argtys), retty, concrete)

    def call(*args):
        if concrete is None:
            raise RuntimeError(f"uninterpreted function {name} has no concrete implementation")
        return concrete(*args)
    call.__name__ = name
    call.__pyvc_uf__ = name
    return call


# ---- spec primitives usable inside contract code (native implementations; the executor intercepts by name) ----
def implies(a, b):
    return (not a) or b


def iff(a, b):
    return bool(a) == bool(b)


def call(target, *args, **kwargs):
    """Inside a lemma: call the real function (natively) / apply its contract (symbolically)."""
    from .native import call_target
    return call_target(target, *args, **kwargs)


def opaque(fn):
    """Spec function whose definition is hidden from the solver (an uninterpreted function) unless an instance
    is revealed with reveal(fn, *args). Needs pyvc type annotations. Natively: the plain function."""
    fn.__pyvc_opaque__ = True
    return fn


def reveal(fn, *args):
    """Make the definition of an @opaque spec function available at these arguments. Natively a no-op."""
    return True


def is_str_list(x):
    """x is a list all of whose elements are str (symbolically: the LS representation of a dynamic value)."""
    return isinstance(x, list) and all(isinstance(e, str) for e in x)


def is_any_list(x):
    """x is a list of arbitrary values (symbolically: the LV representation of a dynamic value)."""
    return isinstance(x, list)


def as_str_list(x):
    """View a dynamic value as list[str] (symbolically: the LS payload). Natively the identity."""
    return x


def as_list(x):
    """View a dynamic value as list[Any] (symbolically: the LV payload). Natively the identity."""
    return x


def is_int_list(x):
    """x is a list all of whose elements are ints (symbolically: the LI representation of a dynamic value)."""
    return isinstance(x, list) and all(isinstance(e, int) for e in x)


def same_members(a, b):
    """a and b (sets / lists / tuples of ints) have the same members. Natively set(a) == set(b); symbolically the
    STRONGER statement that the sequences the collections were built from are equal (so a proof is sound)."""
    return set(a) == set(b)


def as_items(d):
    """View a dict typed Assoc(V) as its item list. Natively list(d.items()) (the real function receives a dict);
    symbolically the identity (an Assoc value already is the list of pairs)."""
    return list(d.items()) if isinstance(d, dict) else d


def dict_put(d, k, v):
    """Pure dict update: a copy of d with d[k] = v (symbolically: Store)."""
    r = dict(d)
    r[k] = v
    return r


def added(s):
    """The elements added to a growing set so far, as a list (symbolically: the insertion sequence the set is
    modelled by; natively: its elements in arbitrary order). For loop invariants only."""
    return list(s)


def ih(lemma_fn, *args):
    """Inside a lemma proved by induction: the induction hypothesis at structurally smaller arguments
    (first argument must be a strictly shorter sequence / smaller non-negative int). Natively a no-op."""
    return True


def use(lemma_fn, *args):
    """Assume the claim of a separately proved @lemma at these arguments (inside a lemma: only lemmas defined
    earlier in the same file, so reasoning cannot be circular). Natively a no-op."""
    return True


def parses_as_int(s):
    """int(s) does not raise ValueError (symbolically: exactly the non-raising condition of the engine's int(str))."""
    try:
        int(s)
        return True
    except ValueError:
        return False


def sorted_member_fact(xs, x, key=None):
    """Instance of the trusted contract of the builtin sorted(): `x in sorted(xs, key=key)  <=>  x in xs` is assumed
    for this x (the engine keeps its queries quantifier-free). Natively a no-op."""
    return True


def is_sorted(xs, key=None):
    """xs is ordered (non-decreasing) by the integer key -- the predicate the trusted contract of the builtin
    sorted(xs, key=...) promises for its result (same lambda text => same predicate)."""
    ks = [x if key is None else key(x) for x in xs]
    return all(a <= b for a, b in zip(ks, ks[1:]))


def mk(ty, **fields):
    """Build a record value of a declared Rec type (natively: the real class / dict; symbolically: a record)."""
    from .native import build_value
    return build_value(ty, dict(fields))


def old_of(x):  # documentation helper
    return x


CUSTOM: dict = {}


def custom(name, props=()):
    """A mechanical-extraction check that is not a per-function VC (e.g. key coherence over all linters).
    fn(ctx) -> list of obligation dicts {name, kind, verdict, note, ...}."""
    def deco(fn):
        CUSTOM[name] = (list(props), fn)
        return fn
    return deco
