"""pyvc.check -- `./check <PROPERTY> --tier quick|thorough [--replay file]`.

Exit codes: 0 every obligation discharged (listed known findings aside); 1 a property-carrying obligation was
refuted (VIOLATION line); 2 undecided (unknown / unsupported construct / missing obligation); 3 checker crash."""
from __future__ import annotations

import argparse
import glob
import importlib
import json
import multiprocessing as mp
import os
import sys
import time
import traceback

VERIF = os.path.dirname(os.path.dirname(os.path.abspath(__file__)))
sys.path.insert(0, VERIF)
sys.setrecursionlimit(10000)


def repo_root():
    return os.environ.get("VERIF_REPO", "/repo")


LOAD_ERRORS: dict = {}


def load_contracts(prop=None):
    """Import every contracts/*.py. A file that fails to import is fatal only for the property whose files it
    belongs to (c<NN>_*.py); for other properties it is reported as a NOTE (files are edited independently)."""
    from pyvc import api
    for f in sorted(glob.glob(os.path.join(VERIF, "contracts", "*.py"))):
        name = os.path.basename(f)[:-3]
        if name.startswith("_"):
            continue
        try:
            importlib.import_module(f"contracts.{name}")
        except BaseException:  # noqa
            LOAD_ERRORS[name] = traceback.format_exc()
    if prop is not None:
        mine = {n: t for n, t in LOAD_ERRORS.items() if n.lower().startswith(prop.lower() + "_")}
        for n in LOAD_ERRORS:
            if n not in mine:
                print(f"NOTE: contracts/{n}.py failed to import (not a {prop} file; ignored for this property)")
        if mine:
            raise RuntimeError("contract files of this property failed to import:\n" + "\n".join(mine.values()))
    return api


def units_for(api, prop):
    units = []
    for key, c in api.REGISTRY.items():
        if prop in c.props:
            units.append(("contract", key))
    for i, lem in enumerate(api.LEMMAS):
        if prop in lem.props:
            units.append(("lemma", lem.name))
    for name, (props, fn) in getattr(api, "CUSTOM", {}).items():
        if prop in props:
            units.append(("custom", name))
    return units


def _slug(s):
    return "".join(ch if ch.isalnum() or ch in "._-" else "_" for ch in s)[:180]


def run_unit(arg):
    kind, key, prop, tier, seed = arg
    t0 = time.time()
    out = {"kind": kind, "unit": key, "obligations": [], "error": None, "crash": None, "assumed_used": [],
           "external_used": [], "ufs_used": [], "inlined": [], "paths": 0, "sha": None, "assumed": False}
    try:
        import z3
        from pyvc import api
        from pyvc.resolve import Repo
        from pyvc.ex import Exec
        from pyvc.verify import verify_contract, verify_lemma, discharge, cover_check, model_value
        from pyvc.ty import Unsupported
        from pyvc import native
        timeout = 10000 if tier == "quick" else 60000
        if kind == "custom":
            props, fn = api.CUSTOM[key]
            try:
                res = fn({"repo": repo_root(), "tier": tier, "seed": seed, "prop": prop})
            except BaseException:  # noqa
                # a mechanical/bounded check that falls over (typically because the code under test now raises
                # something the check did not expect) has decided nothing: undecided, not a checker crash
                res = [{"name": f"custom:{key}/check-raised", "kind": "custom", "verdict": "unknown",
                        "note": "the check itself raised: " + traceback.format_exc()[-600:]}]
            out["obligations"] = res
            out["wall_s"] = time.time() - t0
            return out
        repo = Repo(repo_root())
        ex = Exec(repo, VERIF)
        c = None
        searched = {}
        if kind == "contract":
            c = api.REGISTRY[key]
            if c.assumed:
                out["assumed"] = c.assumed
                try:
                    out["sha"] = repo.lookup(c.target).sha()
                except Unsupported as e:
                    if not c.opts.get("external"):
                        out["error"] = str(e)
                out["wall_s"] = time.time() - t0
                return out
            try:
                finfo = verify_contract(ex, c)
                out["sha"] = finfo.sha()
            except Unsupported as e:
                out["error"] = f"unsupported: {e}"
                # the body left the verified subset (the unit stays UNDECIDED); a bounded native search may still find
                # an input on which the REAL function violates its contract -- that is a genuine violation
                try:
                    from pyvc import selftest
                    w = selftest.search_witness(repo, c, seed, n=3000)
                except BaseException:  # noqa
                    w = None
                if not (w is not None and w.get("confirmed")):
                    # ... and the contract's own witnesses (`witness_*()`: inputs from the property's quantifier) are
                    # replayed natively on the real function
                    dw = {}
                    try:
                        if _try_contract_witnesses(c, dw):
                            out["obligations"].append({
                                "name": f"{c.target}/contract-witness", "kind": "bounded", "verdict": "refuted", "tool": "contract witness",
                                "budget": "the contract's witness_* inputs", "replay": dw.get("replay"), "witness_confirmed": True,
                                "model_inputs": dw.get("model_inputs"),
                                "note": f"bounded: body outside the verified subset ({e});" + (dw.get("note") or "")})
                    except BaseException:  # noqa
                        pass
                if w is not None and w.get("confirmed"):
                    out["obligations"].append({
                        "name": f"{c.target}/native-search", "kind": "bounded", "verdict": "refuted", "tool": "native search",
                        "budget": 3000, "replay": w, "witness_confirmed": True, "model_inputs": w.get("args"),
                        "note": f"bounded: body outside the verified subset ({e}); native search found an input on which "
                                f"the real function violates {w.get('failed_clauses')}"})
        else:
            lem = [l for l in api.LEMMAS if l.name == key][0]
            try:
                verify_lemma(ex, lem)
            except Unsupported as e:
                out["error"] = f"unsupported: {e}"
        out["paths"] = ex.paths
        out["assumed_used"] = sorted(ex.assumed_used)
        out["external_used"] = sorted(ex.external_used)
        out["ufs_used"] = sorted(ex.ufs_used)
        out["inlined"] = sorted(ex.inlined)
        # a unit BORROWED by this property for some kinds of obligations only (api.BORROWED[prop][target] = kinds, set by a
        # cone extension): the other obligations of the unit are proved under its owner's property, where every clause
        # (and every loop invariant assumed here) is discharged -- so restricting the kinds never weakens what is assumed
        kinds = getattr(api, "BORROWED", {}).get(prop, {}).get(key) if kind == "contract" else None
        for ob in ex.obligations:
            if kinds is not None and not any(ob.kind == k or ob.kind.startswith(k + ".") for k in kinds):
                continue
            discharge(ob, timeout_ms=timeout, cross_check=(tier == "thorough"))
            d = {"name": ob.name, "kind": ob.kind, "verdict": ob.verdict, "solver": ob.solver, "ms": round(ob.ms, 2),
                 "note": ob.note, "carries": ob.carries_property, "lineno": ob.lineno}
            if getattr(ob, "cross", None):
                d["cross"] = ob.cross
            if ob.verdict == "discharged" and ob.kind in ("post", "lemma") and tier == "thorough":
                d["cover"] = cover_check(ob)
            cand = getattr(ob, "candidate", None)
            if ob.verdict == "unknown" and isinstance(cand, dict):
                # solver gave up (incomplete theory) but left a candidate model: a native run of the REAL function on
                # it that violates exactly this clause is a genuine refutation (nothing is trusted from the solver)
                try:
                    if kind == "lemma":
                        rp = native.replay_lemma(lem, cand)
                        hit = bool(rp.get("confirmed"))
                    elif c is not None and ob.kind == "post":
                        rp = native.replay(c, cand)
                        clause = ob.name.split("/post.")[-1].split("#")[0]
                        hit = bool(rp.get("confirmed")) and clause in (rp.get("failed_clauses") or [])
                    else:
                        rp, hit = None, False
                except BaseException:  # noqa
                    rp, hit = None, False
                if hit:
                    ob.verdict, ob.model = "refuted", cand
                    ob.solver = (ob.solver or "z3") + "+native-replay"
                    ob.note += " [solver unknown; its candidate model fails natively on the real function]"
                    d.update(verdict="refuted", solver=ob.solver, note=ob.note)
            if ob.verdict == "unknown" and c is not None and ob.kind == "post" and "/post.ensures_" in ob.name:
                # explicit witness supplied by the contract (`witness_<clause>()` -> concrete inputs): the solver could
                # not decide the clause, a native run of the REAL function on the witness that satisfies `requires`
                # and violates exactly this clause refutes it (re-validated on every run; nothing is trusted)
                clause = ob.name.split("/post.")[-1].split("#")[0]
                wfn = c.native("witness_" + clause[len("ensures_"):])
                if wfn is not None:
                    try:
                        wit = wfn()
                        rp = native.replay(c, wit, trusted_inputs=True)
                        if rp.get("confirmed") and clause in (rp.get("failed_clauses") or []):
                            ob.verdict, ob.model = "refuted", wit
                            ob.solver = "native-witness"
                            ob.note += " [solver unknown; the contract's witness fails natively on the real function]"
                            d.update(verdict="refuted", solver=ob.solver, note=ob.note, witness_confirmed=True, witness=wit)
                    except BaseException as e:  # noqa
                        d["note"] = (d.get("note") or "") + f" [witness error {e!r}]"[:200]
            if ob.verdict == "unknown" and c is not None and ob.kind.startswith("loop") and _try_contract_witnesses(c, d):
                # the solver could not decide an invariant obligation, but a witness of the contract shows the real
                # function violating a post-condition: a genuine deviation, established by concrete execution only
                ob.verdict, ob.solver = "refuted", "native-witness"
                d.update(verdict="refuted", solver="native-witness")
            if ob.verdict == "refuted":
                inputs = ob.model if isinstance(ob.model, dict) else {}
                d.setdefault("model_inputs", inputs)
                d["goal"] = ob.goal.sexpr()[:2000]
                if kind == "lemma" and isinstance(ob.model, dict):
                    try:
                        d["replay"] = native.replay_lemma(lem, inputs)
                    except BaseException as e:  # noqa
                        d["replay"] = {"confirmed": False, "error": repr(e)[:500]}
                if c is not None and ob.model is not None and ob.kind in ("post", "raises", "frame", "safe"):
                    try:
                        d["replay"] = native.replay(c, inputs)
                    except BaseException as e:  # noqa
                        d["replay"] = {"confirmed": False, "error": repr(e)[:500]}
                if c is not None and ob.kind == "post" and "/post.ensures_" in ob.name and d.get("solver") != "native-witness":
                    # the contract carries an explicit, realistic witness for this clause: when it fails natively on the
                    # real function it is the counter-example that gets reported (solver models of tree domains are
                    # often not parser-shaped)
                    clause = ob.name.split("/post.")[-1].split("#")[0]
                    wfn = c.native("witness_" + clause[len("ensures_"):])
                    if wfn is not None:
                        try:
                            wit = wfn()
                            rp = native.replay(c, wit, trusted_inputs=True)
                            if rp.get("confirmed") and clause in (rp.get("failed_clauses") or []):
                                d.update(model_inputs=wit, replay=rp, witness_confirmed=True, witness=wit)
                        except BaseException as e:  # noqa
                            d["note"] = (d.get("note") or "") + f" [witness error {e!r}]"[:200]
                if c is not None and ob.kind.startswith("loop") and not ob.carries_property:
                    # a refuted invariant obligation is a proof artefact (UNDECIDED) -- unless the REAL function, run
                    # natively on that counter-model, satisfies `requires` and violates a post-condition of its
                    # contract: then the deviation is genuine (nothing is trusted from the solver) and it is reported
                    try:
                        rp = native.replay(c, inputs) if isinstance(ob.model, dict) else None
                    except BaseException:  # noqa
                        rp = None
                    if rp and rp.get("confirmed") and rp.get("requires_holds") is not False:
                        d["replay"] = rp
                        d["carries"] = True
                        d["note"] = (d.get("note") or "") + " [counter-model of the invariant obligation violates a post-condition natively]"
                    elif _try_contract_witnesses(c, d):
                        pass  # an explicit witness of the contract fails natively on the real function
                    elif not searched.get(key):
                        # the model describes an arbitrary iteration, not an input: bounded native search for an input
                        # on which the real function violates its contract (finding none claims nothing: UNDECIDED)
                        searched[key] = True
                        try:
                            from pyvc import selftest
                            w = selftest.search_witness(repo, c, seed, n=4000)
                        except BaseException:  # noqa
                            w = None
                        if w is not None and w.get("confirmed"):
                            d["replay"] = w
                            d["carries"] = True
                            d["note"] = (d.get("note") or "") + " [invariant refuted; native search found an input violating a post-condition]"
                if c is not None and ob.kind in ("post", "raises", "frame", "safe") and not (d.get("replay") or {}).get("confirmed") \
                        and not searched.get(key):
                    searched[key] = True
                    try:
                        from pyvc import selftest
                        w = selftest.search_witness(repo, c, seed)
                        if w is not None:
                            d["replay"] = w
                    except BaseException:  # noqa
                        pass
            out["obligations"].append(d)
    except BaseException as e:  # noqa
        out["crash"] = traceback.format_exc()
    out["wall_s"] = time.time() - t0
    return out


def _try_contract_witnesses(c, d):
    """Run every `witness_*` input of the contract natively on the REAL function; True (and `d` updated) when one
    satisfies `requires` and violates a post-condition. Used for invariant obligations the solver refuted / could not
    decide: the invariant itself is a proof artefact, a concretely failing run is not."""
    from pyvc import native
    for name in sorted(n for n in c.methods if n.startswith("witness_")):
        try:
            wit = c.native(name)()
            rp = native.replay(c, wit, trusted_inputs=True)
        except BaseException:  # noqa
            continue
        from pyvc.ex_call import _refuted_known
        bad = [f for f in (rp.get("failed_clauses") or []) if not _refuted_known(f"{c.target}/post.{f}")]
        if rp.get("confirmed") and bad and rp.get("requires_holds") is not False:  # (listed known findings do not count)
            d.update(replay=rp, carries=True, witness=wit, witness_confirmed=True, model_inputs=wit)
            d["note"] = (d.get("note") or "") + f" [contract witness {name} violates {rp.get('failed_clauses')} natively]"
            return True
    return False


def load_known(prop):
    p = os.path.join(VERIF, "known_findings.json")
    if not os.path.exists(p):
        return []
    data = json.load(open(p))
    return [e for e in data.get("findings", []) if e.get("property") == prop and e.get("status", "open") == "open"]


def match_known(known, obname, d):
    base = obname.split("#")[0]
    for e in known:
        pat = e["obligation"]
        if base == pat or base.endswith(pat):
            return e
    return None


def main(argv=None):
    ap = argparse.ArgumentParser()
    ap.add_argument("prop")
    ap.add_argument("--tier", default=os.environ.get("VERIF_TIER", "quick"))
    ap.add_argument("--replay")
    ap.add_argument("--update-lock", action="store_true")
    ap.add_argument("--jobs", type=int, default=min(16, os.cpu_count() or 4))
    ap.add_argument("-v", "--verbose", action="store_true")
    ap.add_argument("--only")
    ap.add_argument("--selftest", action="store_true", help="CPython cross-check of proved contracts (always on in thorough)")
    a = ap.parse_args(argv)
    prop = a.prop
    seed = int(os.environ.get("VERIF_SEED", "0"))
    t0 = time.time()
    if a.replay:
        return do_replay(a.replay)
    try:
        api = load_contracts(prop)
    except BaseException:  # noqa
        traceback.print_exc()
        print(f"CRASH property={prop} loading contracts")
        return 3
    units = units_for(api, prop)
    if a.only:
        units = [u for u in units if a.only in u[1]]
    if not units:
        print(f"UNDECIDED property={prop} no contracts registered")
        return 2
    work = [(k, key, prop, a.tier, seed) for k, key in units]
    if a.jobs > 1 and len(work) > 1:
        results = run_pool(work, min(a.jobs, len(work)), a.tier)
    else:
        results = [run_unit(w) for w in work]
    results = retry_flaky(prop, a, work, results)
    return report(prop, a, api, results, t0, seed)


def run_pool(work, jobs, tier):
    """pool.map waits forever when a worker process dies (interpreter killed by the kernel, a native extension segfaulting in a
    bounded check): every unit is submitted separately and, when NO unit has finished for `stall` seconds, the units still
    outstanding are reported as lost (crash => retried once, then exit 3) instead of hanging the check."""
    stall = float(os.environ.get("PYVC_STALL_SECONDS", 900 if tier == "quick" else 1500))
    ctx = mp.get_context("fork")
    pool = ctx.Pool(jobs)
    results = [None] * len(work)
    try:
        pend = {i: pool.apply_async(run_unit, (w,)) for i, w in enumerate(work)}
        last = time.time()
        while pend:
            done = [i for i, r in pend.items() if r.ready()]
            for i in done:
                try:
                    results[i] = pend.pop(i).get()
                except BaseException as e:  # noqa
                    results[i] = _lost(work[i], f"worker lost: {e!r}")
            if done:
                last = time.time()
            elif time.time() - last > stall:
                for i in list(pend):
                    results[i] = _lost(work[i], f"worker lost: no unit finished for {stall:.0f}s (worker process died or hung)")
                    pend.pop(i)
            else:
                time.sleep(0.1)
    finally:
        pool.terminate()
        pool.join()
    return results


def _lost(w, why):
    kind, key = w[0], w[1]
    return {"kind": kind, "unit": key, "obligations": [], "error": None, "crash": why, "assumed_used": [], "external_used": [],
            "ufs_used": [], "inlined": [], "paths": 0, "sha": None, "assumed": False}


def retry_flaky(prop, a, work, results):
    """Solver verdicts must not flip with machine load: a unit that came back with an `unknown` obligation, with fewer
    obligation labels than the lock file lists, or crashed in the worker pool is re-run ONCE, a few units at a time, with
    the solver budget tripled. Refutations and discharged units are never re-run (a retry can only turn unknown into a
    verdict, not a violation into silence)."""
    import re as _re
    lock_path = os.path.join(VERIF, "obligations.lock.json")
    lock = json.load(open(lock_path)).get(prop, {}) if os.path.exists(lock_path) else {}
    again = []
    for i, r in enumerate(results):
        if str(r.get("crash") or "").startswith("worker lost"):
            again.append(i)
            continue
        if r.get("assumed") or r.get("kind") == "custom":
            continue
        verdicts = [d.get("verdict") for d in r.get("obligations", [])]
        if "refuted" in verdicts:
            continue
        labs = {_re.sub(r"@L\d+", "", d["name"].split("#")[0]) for d in r.get("obligations", []) if "name" in d}
        want = {_re.sub(r"@L\d+", "", x) for x in lock.get(r["unit"], [])}
        if "unknown" in verdicts or r.get("crash") or (want and not want <= labs and not r.get("error") and not a.only):
            again.append(i)
    if not again:
        return results
    os.environ["PYVC_BUDGET_FACTOR"] = "3"
    try:
        redo = [work[i] for i in again]
        new = run_pool(redo, min(4, len(redo)), a.tier)
    finally:
        os.environ.pop("PYVC_BUDGET_FACTOR", None)
    for i, r in zip(again, new):
        r["retried"] = True
        results[i] = r
    return results


def report(prop, a, api, results, t0, seed):
    known = load_known(prop)
    lock_path = os.path.join(VERIF, "obligations.lock.json")
    lock = json.load(open(lock_path)) if os.path.exists(lock_path) else {}
    n_ob = n_dis = 0
    violations, undecided, crashes, known_hits = [], [], [], {}
    functions, assumed, bounded = [], [], []
    per_ob, labels = [], {}
    externals, ufs, inlined = set(), set(), set()
    backends = {}
    solver_ms = 0.0
    for r in results:
        unit = r["unit"]
        if r.get("crash"):
            crashes.append((unit, r["crash"]))
            continue
        if r.get("assumed"):
            assumed.append({"target": unit, "reason": r["assumed"], "sha256": r.get("sha")})
            if r.get("error"):
                undecided.append((unit, r["error"]))
            continue
        if r.get("error"):
            undecided.append((unit, r["error"]))
        externals.update(r["external_used"])
        ufs.update(r["ufs_used"])
        inlined.update(r["inlined"])
        for t in r["assumed_used"]:
            pass
        labs = set()
        nu = nd = 0
        for d in r["obligations"]:
            if d.get("kind") == "bounded":
                bounded.append(d)
                if d["verdict"] == "refuted":
                    kf = match_known(known, d["name"], d)
                    if kf:
                        known_hits.setdefault(kf["id"], (kf, d))
                    else:
                        violations.append((unit, d))
                elif d["verdict"] not in ("discharged", "passed"):
                    undecided.append((unit, f"{d['name']}: {d['verdict']} {d.get('note','')}"))
                continue
            nu += 1
            labs.add(d["name"].split("#")[0])
            solver_ms += d.get("ms", 0)
            backends[d.get("solver", "?")] = backends.get(d.get("solver", "?"), 0) + 1
            per_ob.append({k: d[k] for k in ("name", "verdict", "solver", "ms") if k in d})
            if d["verdict"] == "discharged":
                nd += 1
                if d.get("cover") == "unsat":
                    d["vacuous"] = True
            elif d["verdict"] == "refuted":
                kf = match_known(known, d["name"], d)
                if kf:
                    known_hits.setdefault(kf["id"], (kf, d))
                    nu -= 1  # replaced by its adjusted obligation (proved separately)
                elif d.get("carries", True):
                    violations.append((unit, d))
                else:
                    undecided.append((unit, f"{d['name']}: invariant not inductive (proof artefact, no violation claimed)"))
            else:
                kf = match_known(known, d["name"], d)
                if kf:
                    # a path of a clause that is a listed finding: the finding-adjusted clause carries the proof
                    known_hits.setdefault(kf["id"], (kf, d))
                    nu -= 1
                else:
                    undecided.append((unit, f"{d['name']}: {d['verdict']} {d.get('note','')}"))
        n_ob += nu
        n_dis += nd
        labels[unit] = sorted(labs)
        if r["kind"] != "custom":
            functions.append({"target": unit, "kind": r["kind"], "sha256": r.get("sha"), "paths": r["paths"],
                              "obligations": nu, "discharged": nd, "wall_s": round(r.get("wall_s", 0), 3)})
        else:
            functions.append({"target": unit, "kind": "custom", "obligations": nu, "discharged": nd,
                              "wall_s": round(r.get("wall_s", 0), 3)})
    # lock: every obligation label expected on the unchanged tree must still be generated
    import re as _re
    # labels are compared modulo source line numbers, so that an edit that only moves code does not trip the lock
    labels = {u: sorted({_re.sub(r"@L\d+", "", l) for l in ls}) for u, ls in labels.items()}
    if a.update_lock:
        lock[prop] = labels
        json.dump(lock, open(lock_path, "w"), indent=0, sort_keys=True)
    elif prop in lock and not a.only:
        for unit, labs in lock[prop].items():
            have = set(labels.get(unit, []))
            missing = [l for l in {_re.sub(r"@L\d+", "", x) for x in labs} if l not in have]
            if unit not in labels and not any(u == unit for u, _ in undecided) and not any(u == unit for u, _ in crashes):
                undecided.append((unit, "unit expected by obligations.lock.json produced nothing"))
            elif missing and not any(u == unit for u, _ in undecided):
                undecided.append((unit, f"obligations expected by the lock file were not generated: {missing[:4]}"))
    # stale known findings are not an error, but are reported
    for kf in known:
        if kf["id"] not in known_hits:
            print(f"NOTE: known finding {kf['id']} did not recur (obligation {kf['obligation']} now holds or vanished)")
    for kid, (kf, d) in sorted(known_hits.items()):
        print(f"KNOWN-FINDING: property={prop} {kf['what']}")
    rc = 0
    os.makedirs(os.path.join(VERIF, "replay", prop), exist_ok=True)
    # one VIOLATION line per obligation label (a clause refuted on several paths is one violation); prefer a
    # path whose counter-model replayed natively
    best = {}
    for unit, d in violations:
        lab = d["name"].split("#")[0]
        conf = bool((d.get("replay") or {}).get("confirmed")) or bool(d.get("witness_confirmed"))
        if lab not in best or (conf and not best[lab][2]):
            best[lab] = (unit, d, conf)
    n_paths = {}
    for unit, d in violations:
        n_paths[d["name"].split("#")[0]] = n_paths.get(d["name"].split("#")[0], 0) + 1
    violations = [(u, d) for (u, d, _) in best.values()]
    for unit, d in violations:
        path = os.path.join(VERIF, "replay", prop, _slug(d["name"]) + ".json")
        rp = d.get("replay") or {}
        confirmed = bool(rp.get("confirmed")) or bool(d.get("witness_confirmed"))
        json.dump({"property": prop, "obligation": d["name"], "unit": unit, "verdict": d["verdict"],
                   "solver": d.get("solver"), "note": d.get("note"), "model_inputs": d.get("model_inputs"),
                   "goal": d.get("goal"), "native_replay": rp, "witness": d.get("witness"),
                   "contract_holds_natively": not confirmed, "repo": repo_root()}, open(path, "w"), indent=1, default=str)
        suffix = "" if confirmed else " no-failing-input-found"
        print(f"VIOLATION property={prop} replay={path}{suffix}")
        print(f"  obligation {d['name']} refuted ({d.get('solver')}) {d.get('note','')}")
        if d.get("model_inputs"):
            print(f"  counter-model: {json.dumps(d['model_inputs'], default=str)[:600]}")
        if rp:
            print(f"  native replay: confirmed={rp.get('confirmed')} failed={rp.get('failed_clauses')} result={str(rp.get('result'))[:200]} {rp.get('raised','')}")
        rc = 1
    if a.verbose:
        for o in per_ob:
            print(f"   {o.get('verdict',''):10s} {o.get('ms',0):8.1f}ms {o.get('solver',''):10s} {o['name']}")
    for unit, why in undecided:
        print(f"UNDECIDED property={prop} unit={unit} {why}")
    for unit, tb in crashes:
        print(f"CRASH property={prop} unit={unit}\n{tb}")
    cross = None
    if a.tier == "thorough" or a.selftest:
        try:
            from pyvc import selftest
            from pyvc.resolve import Repo
            proved = [f["target"] for f in functions if f["kind"] == "contract" and f["obligations"] > 0
                      and f["obligations"] == f["discharged"]]
            ev, bad, skipped = selftest.run(Repo(repo_root()), proved, seed, per_contract=150 if a.tier == "thorough" else 40)
            cross = {"evaluations": ev, "contracts": len(proved), "disagreements": bad,
                     "skipped": [f"{k}: {w}" for k, w in skipped]}
            for b in bad:
                print(f"ENGINE-DISAGREEMENT property={prop} {b['target']}: proved clause(s) {b['failed']} fail natively on "
                      f"{json.dumps(b['args'], default=str)[:400]} -> {str(b.get('result'))[:200]} {b.get('raised','')}")
            if bad:
                crashes.append(("selftest", "proved contract fails natively: engine encoding or native rendering is wrong"))
        except BaseException:  # noqa
            crashes.append(("selftest", traceback.format_exc()))
    for unit, tb in crashes:
        print(f"CRASH property={prop} unit={unit}\n{tb}")
    if crashes:
        rc = 3
    elif rc == 0 and undecided:
        rc = 2
    write_evidence(prop, a, api, dict(n_ob=n_ob, n_dis=n_dis, functions=functions, assumed=assumed, bounded=bounded,
                                      per_ob=per_ob, externals=sorted(externals), ufs=sorted(ufs), inlined=sorted(inlined),
                                      backends=backends, solver_ms=solver_ms, violations=violations, undecided=undecided,
                                      known_hits=known_hits, cross=cross), t0, seed)
    print(f"{prop}: {n_dis}/{n_ob} obligations discharged, {len(violations)} violations, {len(undecided)} undecided, "
          f"{len(known_hits)} known findings, {len(assumed)} assumed contracts, {time.time()-t0:.1f}s -> exit {rc}")
    return rc


LEVELS = {}


def write_evidence(prop, a, api, s, t0, seed):
    meta = json.load(open(os.path.join(VERIF, "levels.json"))) if os.path.exists(os.path.join(VERIF, "levels.json")) else {}
    level = meta.get(prop, {}).get("level", "proof")
    samples = [o for o in s["per_ob"][:3]]
    for unit, d in s["violations"][:2]:
        samples.append({"name": d["name"], "verdict": d["verdict"], "counter_model": d.get("model_inputs")})
    cov = {
        "obligations": s["n_ob"], "discharged": s["n_dis"],
        "checker_cmd": f"./check {prop} --tier {a.tier}",
        "trusted_base": ["CPython 3.12 semantics as encoded by pyvc (DESIGN.md 1.2)", "z3 5.1.0 / cvc5 1.0.3",
                         "parsers (CPython ast, tree-sitter): properties are decided modulo the parser"]
                        + [f"external contract: {e}" for e in s["externals"]]
                        + [f"uninterpreted builtin model: {u}" for u in s["ufs"]],
        "samples": samples or [{"note": "no obligations"}],
        "functions": s["functions"],
        "functions_under_contract": len([f for f in s["functions"] if f["kind"] == "contract"]),
        "backends": s["backends"], "solver_ms_total": round(s["solver_ms"], 1),
        "assumed_contracts": s["assumed"], "inlined_callees": s["inlined"],
        "bounded": [{k: b.get(k) for k in ("name", "verdict", "note", "tool", "budget", "cases")} for b in s["bounded"]],
        "refuted_known": [{"id": k, "what": v[0]["what"], "obligation": v[1]["name"], "witness": v[0].get("witness")}
                          for k, v in s["known_hits"].items()],
        "undecided": [f"{u}: {w}" for u, w in s["undecided"]][:50],
        "runtime_cross_check": s.get("cross"),
        "explanation": meta.get(prop, {}).get("explanation", "obligations generated from the current source of the functions under contract and discharged by SMT"),
        "evaluations": max(1, s["n_ob"]), "distinct_nontrivial": max(2, len({o['name'].split('#')[0] for o in s['per_ob']})),
        "rule": "one evaluation = one verification condition (path x clause); distinct = distinct obligation labels",
    }
    ev = {"property_id": prop, "tier": a.tier if a.tier in ("quick", "thorough") else "quick", "seed": seed, "level": level,
          "coverage": cov,
          "assumptions": ["integers unbounded; str = sequence of code points; no monkey-patching; aliasing of mutable locals absent",
                          "every assumed/external contract listed in coverage.assumed_contracts / trusted_base"],
          "wall_s": round(time.time() - t0, 2), "violations": len(s["violations"])}
    # evidence/<id>.json describes runs against /repo itself; runs against a scratch copy (VERIF_REPO) go elsewhere
    evdir = os.path.join(VERIF, "evidence") if os.path.realpath(repo_root()) == os.path.realpath("/repo") \
        else os.path.join(VERIF, "evidence", "_scratch")
    os.makedirs(evdir, exist_ok=True)
    json.dump(ev, open(os.path.join(evdir, f"{prop}.json"), "w"), indent=1, default=str)


def do_replay(path):
    data = json.load(open(path))
    os.environ.setdefault("VERIF_REPO", data.get("repo", "/repo"))
    api = load_contracts()
    from pyvc import native
    c = api.REGISTRY.get(data["unit"])
    if c is None or not data.get("model_inputs"):
        print(json.dumps(data, indent=1)[:3000])
        print("no native replay possible for this obligation (no counter-model or not a function contract)")
        return 2
    r = native.replay(c, data["model_inputs"], trusted_inputs=True)
    print(json.dumps(r, indent=1, default=str))
    return 1 if r.get("confirmed") else 0


if __name__ == "__main__":
    sys.exit(main())
