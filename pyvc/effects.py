"""pyvc.effects -- ghost output streams and terminating effects (process exit).

Model (used by C06: exit code and the three renderings agree):
  * `stdout` / `stderr` are ghost variables of every run: the sequence of messages written so far (one element per
    `click.echo(message)` call, the message converted with str()). They start as arbitrary sequences; a contract
    talks about them through the spec parameters `stdout`, `stderr` and `old.stdout`, `old.stderr`.
  * A function may write to a stream only if its contract lists the stream in `modifies=[...]`: every write (direct,
    or through a callee whose contract modifies the stream) in a function that does not declare it emits a failing
    `frame` obligation. Hence for a function that does not declare a stream the stream is provably unchanged, and
    only functions that declare it need the stream havocked at loop heads (their invariants describe it).
  * `sys.exit(code)` raises SystemExit carrying the code (VExc.msg). Contract clauses named `on_raise*` are proved
    on every exceptional exit whose class is declared in `raises=[...]` and are assumed by callers; they may use
    the parameters, `old`, the streams and `exc` (the value carried by the exception, e.g. the exit code).
    Clauses named `at_exit*` are proved at the same points but may additionally name LOCAL variables of the
    function (ghost witnesses, e.g. "the list that was rendered is the list that decides the exit code"); callers
    never see them.
"""
from __future__ import annotations

import z3

from .ty import Str, VList, fresh_name

STREAMS = ("stdout", "stderr")


def _table(run):
    t = getattr(run, "streams", None)
    if t is None:
        t = {}
        for n in STREAMS:
            t[n] = VList(Str, seq=z3.Const(fresh_name(n + "0"), z3.SeqSort(z3.StringSort())))
        run.streams = t
    return t


def current(ex, name):
    """The current value of a ghost stream (a list of strings); values are never mutated in place."""
    return _table(ex.run)[name]


def declared(ex, name):
    c = getattr(ex, "top_contract", None)
    return c is None or name in c.modifies


def check_declared(ex, name, lineno, who):
    if not declared(ex, name):
        ex.oblige("frame", z3.BoolVal(False), lineno, note=f"{who} writes to {name} but {name!r} is not in modifies",
                  label=f"frame.{name}")


def write(ex, name, text_term, lineno):
    check_declared(ex, name, lineno, "the function")
    t = _table(ex.run)
    cur = t[name]
    t[name] = VList(Str, seq=z3.Concat(cur.term(), z3.Unit(text_term)))


def havoc(ex, name, lineno=0, who="a callee"):
    check_declared(ex, name, lineno, who)
    _table(ex.run)[name] = VList(Str, seq=z3.Const(fresh_name(name), z3.SeqSort(z3.StringSort())))


def havoc_declared_at_loop(ex):
    """Loop head of a function that declares streams: forget them (the invariant says what is known)."""
    c = getattr(ex, "top_contract", None)
    if c is None:
        return
    for n in STREAMS:
        if n in c.modifies:
            _table(ex.run)[n] = VList(Str, seq=z3.Const(fresh_name(n), z3.SeqSort(z3.StringSort())))


def add_old(ex, old_fields):
    """Snapshot of the streams for `old.stdout` / `old.stderr` (parameters of the same name win)."""
    for n in STREAMS:
        old_fields.setdefault(n, current(ex, n))
